#!/usr/bin/env python3
"""Regenerates MANIFEST.json from the table below (single source of truth for what is claimed)."""
import json, os
ROOT = os.path.dirname(os.path.dirname(os.path.abspath(__file__)))
ALL = ["C%02d" % i for i in range(1, 21)]

# id -> (script, level text, level_note, technique, design anchor)
CLAIMED = {
 "C09": ("c09", "Rocq/Coq proof over an executable model of LRUCache+CachedMatrix: for every history of operations (any matrix size, any capacity) the cache invariant (capacity bound, exact size accounting, LRU list = cached lines, every cached cell = true entry under the current variable order, no undefined list access), correctness of returned rows, transposition semantics of flips and the two-rows clause are theorems (Properties_C09.v, axiom-free). The model is tied to /repo on every run by executing the extracted model and the freshly compiled C++ on the same random operation histories and comparing every observable (returned rows, size(), cachedLines(), lineLength, listIndex order, all cached cells); an independent spec monitor turns a disagreement into a concrete failing history.",
         "Trusted: Coq kernel, extraction (ExtrOcamlBasic), OCaml driver, C++ harness (synthetic base matrix), generators. Modelled, not verified: real new[]/delete[] (ASan build of the same harness in the thorough tier is supporting evidence only), boost::intrusive list. Derived matrices (Precomputed/Regularized/Modified/...) are covered by the C09 derived-matrix monitor only where stated in DESIGN.md.",
         "Coq proof (invariant by induction over operation histories, refinement to the permuted matrix) + extracted-model/implementation correspondence"),
 "C03": ("c03", "Rocq/Coq proof over an executable list-of-batches model of Data/LabeledData: batch-size arithmetic (sum, bounds, +-1), every structural operation keeps the element sequence exactly as documented (create, repartition, splitBatch, splice, append, reorderElements=gather, shuffle=permutation, indexedSubset, splitAtElement, transform), and inputs are never separated from labels (naturality of every operation w.r.t. element-wise maps => the two containers of a LabeledData stay the projections of one dataset of pairs). Theorems are axiom-free and hold for all element types, sizes and arguments. Tie: extracted model vs. freshly compiled shark::LabeledData<RealVector|unsigned|CompressedRealVector,unsigned> on random operation histories over 4 registers (ids as elements, exact comparison); library-internal random choices are read back and passed to the model explicitly. Iterator advance, repartitionByClass order, binarySubProblem, view->dataset are modelled and compared but not proved (partial).",
         "Trusted: Coq kernel, extraction, OCaml driver, C++ harness, generators. Modelled not verified: std::shuffle, shared_ptr batch sharing (harness calls makeIndependent where the API demands it), Boost iterators.",
         "Coq proof (list model, naturality/parametricity for pairing) + extracted-model/implementation correspondence on operation histories"),
 "C12": ("c03.py --prop C12", "Rocq/Coq proof on the C03 dataset model: batchPartitioning + CVFolds read out exactly the consecutive slices of the reorganised element list with the requested validation sizes (validation parts disjoint and exhaustive), same-size folds differ by at most one, training part = complement (permutation theorem), createCVIndexed puts each element into exactly the requested fold in original order, batch sizes within [1,max]; for all datasets, fold counts, batch sizes, shuffles, index vectors. Tie: extracted model vs. all six createCV* functions of /repo on random datasets (dense, unsigned, sparse) with the drawn permutations read back; spec monitor checks partition/complement/size/balance/index membership/shape on the implementation output. Class balance of createCVSameSizeBalanced and element-shape preservation are monitored, not proved (partial).",
         "Trusted: as C03. The element shape is not part of the Coq model (compared in the correspondence run).",
         "Coq proof (slices lemma by induction over partitions) + extracted-model/implementation correspondence"),
 "C20": ("c20", "Rocq/Coq proof + translator: (a) theorem race_free_b_sound — if the boolean checker accepts a parallel region summary then in every schedule (any assignment of iterations to T>=1 threads, any interleaving under one global lock) no two threads have overlapping unprotected accesses with a write and no thread-indexed array is overrun; two copies of the loop body suffice for every iteration count; (b) merge_schedule_independent — thread-local partial results merged inside the critical section in any order equal the sequential fold in a commutative monoid; (c) thread_ranges_tile — the static work split of ErrorFunction.inl covers every batch exactly once for every thread count; all axiom-free. Tie: tools/translate_omp.py regenerates the region summaries of all 22 SHARK_PARALLEL_FOR regions of the anchored files (+7 variants with a stochastic model) from /repo's current source via the clang JSON AST on every run and Coq re-decides race_free_b region_k = true for each; a coverage obligation checks that every textual SHARK_PARALLEL_FOR is instantiated. Runtime monitors (results for 1/2/3/7/16 threads and schedule(runtime) variants, TSan build in the thorough tier) turn a failed region obligation into a concrete witness.",
         "Trusted: Coq kernel, the translator's reading of the clang AST and its hand-kept table for plugged-in components (const method with external State = read-only; random::globalRng = shared write), clang 14. Modelled not verified: the C++/OpenMP memory model and runtime, boost::shared_ptr reference counting (monitored only). Known finding C20-F7 (global RNG inside parallel regions) is listed in known_findings.json.",
         "Coq proof (soundness of a race checker over all schedules; permutation-invariance of merges) + source-to-model translator re-run on every check"),
 "C13": ("c13", "Rocq/Coq proof over Z (axiom-free): the coded four-valued dominance relation equals the component-wise definition and is a strict partial order; the rank equation (1 + max rank of dominators) has exactly one solution and the executable rank list satisfies it; fronts are consistent; the hypervolume spec (unit-cell slicing, all dimensions) is invariant under permutation and under adding dominated or duplicate points and is monotone; the 2-D sort-and-sweep with dominated-point skipping equals the spec for every tie order. Tie: extracted model vs. /repo on integer point sets (2-5 objectives, ties, duplicates, dominated and collinear points): ranks from the dispatcher, FastNonDominatedSort and DCNonDominatedSort; hypervolume from the dispatcher, 2D, 3D, HOY and WFG (exact equality); least/greatest contributors with reference point vs hv(S)-hv(S\\p) from the spec; 2-D subset selection vs brute force; a separate stream for the overloads without reference point. fast_nds = rank_list, DC sort, 3-D sweep, HOY, WFG, 3-D/MD contributions and subset selection are compared exactly but not proved (partial).",
         "Trusted: Coq kernel, extraction, OCaml driver, harness, generators, an independent slab-form hypervolume in the Python monitor. MD contributions use exp(sum(log)) and are compared at 1e-9 relative.",
         "Coq proof (order theory of dominance, uniqueness of ranks, HSO-style hypervolume spec, 2-D sweep correctness) + exact differential correspondence"),
 "C17": ("c17", "Rocq/Coq proof over Z (axiom-free): the kd cell lower bound is below the squared distance to every point of the cell; one step of the incremental query preserves the invariant (every point not yet queued is at squared distance >= radius, every queued leaf's key is its true distance) and returns a pending point of minimal true distance; hence for every well-formed tree with single-point leaves and every k <= n the query returns k distinct indices with their true distances in non-decreasing order and no unreported point is closer. The tree actually built by /repo is read back on every run and checked with the extracted, proved-sound well-formedness test; the query is compared step by step (results, queue size, radius) with the extracted model on integer point sets with duplicates, collinear points and points on splitting planes; LC/KHC trees, bucket size > 1 and NearestNeighborModel (tree vs brute force back-end) are checked against exhaustive search only. kd construction well-formedness is checked per tree, not proved (partial).",
         "Trusted: Coq kernel, extraction, OCaml driver, harness (reads private tree fields via #define private public), generators. Known finding C17-F4 (bucket size > 1) is listed in known_findings.json.",
         "Coq proof (query invariant, k-smallest theorem over all well-formed trees) + per-run well-formedness check of the real tree + step correspondence"),
 "C02": ("c02", "Rocq/Coq proof over any field (record of operations with field_theory; instantiated with Qc for execution), axiom-free: all four triangular substitution loops (lower/upper x dot/axpy form, unit flag, left/right side) return x with T*x = b exactly for every n, a zero pivot is reported and never divided by; the blocked trsm recursion is correct for every block size (right side through the transposition the code uses); the unblocked Cholesky kernels reproduce A on the stored triangle and leave the opposite triangle untouched (square root only needs to be exact on the pivots met); Cholesky solve = two triangular solves; inv(A)%B = solve for the lower-triangular tags (partial). Tie: extracted Qc model vs. remora solve()/decomposition classes for every tag x side x orientation x vector/matrix right-hand side, sizes crossing the blocking thresholds (32/16/4/20), both the default kernels and the OpenBLAS bindings, on exactly representable systems (comparison by equality); residual / least-squares / L*L^T / P*A=L*U / Q*D*Q^T / rank-one-update monitors on well-conditioned random systems. Blocked potrf, pstrf, getrf, syev, CG and the rank-one update are compared or monitored, not proved.",
         "Trusted: Coq kernel, extraction (Qc arithmetic from the standard library is extracted, no Extract Constant), OCaml driver, harness, generators. Modelled not verified: OpenBLAS.",
         "Coq proof (loop invariants of substitution and Cholesky over an abstract field) + exact correspondence on representable systems"),
}

REASONS_TODO = "not claimed yet in this revision: the Coq model and its correspondence check for this property are still being built (see DESIGN.md section 3); no check is registered so nothing is asserted about it"

def main():
    checks = []
    for pid in ALL:
        if pid in CLAIMED:
            script, text, note, tech = CLAIMED[pid]
            checks.append({
                "property_id": pid,
                "quick_cmd": "python3 tools/%s --tier quick" % (script if ".py" in script else script + ".py"),
                "thorough_cmd": "python3 tools/%s --tier thorough" % (script if ".py" in script else script + ".py"),
                "evidence_file": "evidence/%s.json" % pid,
                "replay_cmd_template": "python3 tools/%s --replay {path}" % (script if ".py" in script else script + ".py"),
                "engine": "coq+correspondence",
                "level_claimed": {"category": "proof", "text": text, "design_ref": "DESIGN.md#" + pid},
                "level_note": note,
                "technique": tech,
            })
    na = [{"property_id": p, "reason": REASONS_TODO} for p in ALL if p not in CLAIMED]
    m = {
        "version": 1,
        "setup_cmd": "sh tools/setup.sh",
        "hooks": {
            "guard": "SHARK_VERIF_HOOKS",
            "enable": "harness translation units are compiled with -DSHARK_VERIF_HOOKS against /repo/include (see tools/vlib.py CXXFLAGS); the library itself needs no rebuild for header-only hooks",
            "baseline_off_cmd": "cd /repo && (cmake --build _build -j16 -- -k 0; ctest --test-dir _build -j8 --timeout 900)",
            "source_commits": [],
            "add_only": True,
        },
        "engines": [{"name": "coq+correspondence", "path": "tools/vlib.py",
                     "serves_properties": sorted(CLAIMED),
                     "kind_free_text": "Coq 8.16 theorems over executable Gallina models; models extracted to OCaml and run against freshly compiled C++ harnesses on the same generated inputs; spec monitors for failing-input search"}],
        "checks": checks,
        "not_applicable": na,
        "notes": "All checks rebuild their harness from /repo's working tree (content-hash cache in /verif/build). known_findings.json lists recorded defects and fix commits.",
    }
    extra = os.path.join(ROOT, "tools", "manifest_extra.json")
    if os.path.exists(extra):
        e = json.load(open(extra))
        m["hooks"]["source_commits"] = e.get("source_commits", [])
    json.dump(m, open(os.path.join(ROOT, "MANIFEST.json"), "w"), indent=1)
    try:
        import jsonschema
        jsonschema.validate(m, json.load(open("/root/.vp/MANIFEST.schema.json")))
        print("MANIFEST.json valid;", len(checks), "checks")
    except ImportError:
        print("written (jsonschema not available)")

main()
