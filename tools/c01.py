#!/usr/bin/env python3
"""C01 — remora linear-algebra expressions evaluate to their documented element-wise meaning.

Pieces: proofs (Properties_C01.v) + tie of the rewrite-rule table (tools/c01_rules.py: set of specialisations == arms of
C01Opt.v, and every rule BODY translated from the header builds the same term as the extracted C01Opt.v function) +
correspondence: generated expression programs (tools/c01_gen.py) are executed by (a) the extracted Coq
interpreter over Z, (b) an independent Python evaluator of the documented meaning (the spec monitor)
and (c) freshly compiled C++ translation units (value types long/double, default kernels and
-DREMORA_USE_CBLAS).  Comparison is exact.  Known crashing / non-compiling constructs live in the
DEFECTS stream (one small TU each) so that the main stream stays clean."""
import os, sys, re, json, random, hashlib
sys.path.insert(0, os.path.dirname(os.path.abspath(__file__)))
from vlib import *
import c01_gen as G
import c01_sparse as SP

PID = "C01"
TMP = os.path.join(BUILD, "tmp", PID)
BASEFLAGS = ["-std=gnu++11", "-fopenmp", "-O2", "-DNDEBUG", "-w"]
VARIANTS = {            # name -> (value type, extra flags, libs)
    "long": ("long", [], ["-lpthread"]),
    "long_cblas": ("long", ["-DREMORA_USE_CBLAS"], ["-lopenblas", "-lpthread"]),
    "double": ("double", [], ["-lpthread"]),
    "double_cblas": ("double", ["-DREMORA_USE_CBLAS"], ["-lopenblas", "-lpthread"]),
}


class Program:
    def __init__(self, decls, orient, stmts, name, sparse=(), quiet=0):
        """quiet: the first `quiet` statements are element sets that establish the initial store and produce no output line
        (big-shape shards); output line k then belongs to statement quiet + k"""
        self.decls, self.orient, self.stmts, self.name, self.sparse, self.quiet = decls, orient, stmts, name, tuple(sparse), quiet

    def source(self): return G.cxx_program(self.decls, self.orient, self.stmts, random.Random(7), sparse=self.sparse, quiet=self.quiet)
    def terms(self): return G.term_file(self.decls, self.stmts, self.quiet)
    def expected(self): return G.expected_lines(self.decls, self.stmts, self.quiet)

    def to_json(self):
        return {"name": self.name, "decls": self.decls, "orient": {str(k): v for k, v in self.orient.items()},
                "stmts": self.stmts, "sparse": self.sparse, "quiet": self.quiet}

    @staticmethod
    def from_json(j):
        tup = lambda x: tuple(tup(y) for y in x) if isinstance(x, list) else x
        return Program([tup(d) for d in j["decls"]], {int(k): v for k, v in j["orient"].items()},
                       [tup(s) for s in j["stmts"]], j["name"], [tup(s) for s in j.get("sparse", [])], j.get("quiet", 0))


def run_cxx(prog, variant, timeout=60):
    """compile (cached by content) and run; returns (status, lines, detail), status in ok|compile|crash"""
    vt, fl, libs = VARIANTS[variant]
    os.makedirs(TMP, exist_ok=True)
    src = prog.source()
    h = hashlib.sha256(src.encode()).hexdigest()[:12]
    path = os.path.join(TMP, "%s_%s.cpp" % (prog.name, h))
    if not os.path.exists(path): open(path, "w").write(src)
    exe, err = cxx_build("%s_%s_%s" % (prog.name, h, variant), [path], flags=BASEFLAGS + ["-DVT=" + vt] + fl, libs=libs, tag="c01_" + variant)
    if exe is None:
        return "compile", [], err
    rc, out, e = sh([exe], timeout=timeout)
    lines = out.split("\n")
    if lines and lines[-1] == "": lines.pop()
    return ("ok" if rc == 0 else "crash"), lines, ("rc=%s %s" % (rc, e.strip()[-300:]))


def compile_errors(prog, variant):
    """complete compiler diagnostics of a program that does not compile (cxx_build keeps only their tail)"""
    vt, fl, libs = VARIANTS[variant]
    src = prog.source(); h = hashlib.sha256(src.encode()).hexdigest()[:12]
    path = os.path.join(TMP, "%s_%s.cpp" % (prog.name, h))
    if not os.path.exists(path): open(path, "w").write(src)
    rc, out, err = sh([CXX] + BASEFLAGS + ["-DVT=" + vt] + fl + repo_includes() + ["-fsyntax-only", path], timeout=600)
    return err


def run_model(model, prog):
    p = os.path.join(TMP, prog.name + "_terms.txt")
    open(p, "w").write("\n".join(prog.terms()) + "\n")
    rc, out, err = sh([model, p], timeout=600)
    if rc != 0: raise RuntimeError("model driver failed: " + err[-2000:])
    return out.strip().split("\n")


def skeleton(t, depth=3):
    if not isinstance(t, tuple): return ""
    if depth == 0: return t[0]
    kids = [skeleton(x, depth - 1) for x in t[1:] if isinstance(x, tuple) and x and isinstance(x[0], str) and x[0][:1] in "VMRFB" and x[0] not in ("VVar", "MVar")]
    return t[0] + ("(" + ",".join(kids) + ")" if kids else "")


def stmt_key(st):
    h = st[0]
    if h in ("SAssignV", "SAssignM"):
        return "%s:%s:%s:target=%s:rhs=%s" % (h, "noalias" if st[1] else "plain", st[2], skeleton(st[3], 1), skeleton(st[4]))
    if h in ("SScalarV", "SScalarM"): return "%s:%s:target=%s" % (h, st[1], skeleton(st[2], 1))
    if h == "SReduce": return "SReduce:" + skeleton(st[1])
    return h


def prestate_program(prog, k, name):
    """single-statement program: element sets reproducing the store just before statement k, then k"""
    s = G.Env()
    for d in prog.decls:
        if d[0] == "v": s.v[d[1]] = [0] * d[2]
        else: s.m[d[1]] = [[0] * d[3] for _ in range(d[2])]
    for i, st in enumerate(prog.stmts[:k]):
        if i < prog.quiet: G.wr(s, ("v", st[1], st[2]) if st[0] == "SSetV" else ("m", st[1], st[2], st[3]), st[-1])
        else: s, _ = G.exec_stmt(s, st)
    used = G.names_in(prog.stmts[k])
    decls = [d for d in prog.decls if (d[0], d[1]) in used]
    init = []
    for d in decls:
        if d[0] == "v": init += [("SSetV", d[1], i, s.v[d[1]][i]) for i in range(d[2])]
        else: init += [("SSetM", d[1], i, j, s.m[d[1]][i][j]) for i in range(d[2]) for j in range(d[3])]
    if prog.quiet:      # big shapes: only the non-zero cells, as a quiet initial store
        init = [x for x in init if x[-1] != 0]
        return Program(decls, prog.orient, init + [prog.stmts[k]], name, prog.sparse, quiet=len(init))
    return Program(decls, prog.orient, init + [prog.stmts[k]], name, prog.sparse)


def same_shape_subterms(e):
    """children of e that have the same shape as e (candidates for shrinking the right-hand side)"""
    isv = e[0] in G.VEC_HEADS
    sh = G.vsize(e) if isv else G.mshape(e)
    out = []
    for x in e[1:]:
        if isinstance(x, tuple) and x and isinstance(x[0], str):
            if isv and x[0] in G.VEC_HEADS and G.vsize(x) == sh: out.append(x)
            if (not isv) and x[0][0] == "M" and x[0] not in G.VEC_HEADS and G.mshape(x) == sh: out.append(x)
    return out


def replace_kids(e):
    """e with one argument replaced by a constant of the same shape"""
    out = []
    for i, x in enumerate(e):
        if i == 0 or not (isinstance(x, tuple) and x and isinstance(x[0], str)): continue
        if x[0] in ("VVar", "MVar", "VConst", "MConst"): continue
        if x[0] in G.VEC_HEADS: out.append(e[:i] + (("VConst", G.vsize(x), 2),) + e[i + 1:])
        elif x[0][0] == "M": r, c = G.mshape(x); out.append(e[:i] + (("MConst", r, c, 2),) + e[i + 1:])
        for y in replace_kids(x): out.append(e[:i] + (y,) + e[i + 1:])
    return out


def compact(obs, exp):
    """for long output lines keep only the containers whose printed value differs"""
    if not obs or not exp or len(obs[-1]) + len(exp[-1]) < 600: return obs, exp
    to, te = obs[-1].split(" "), exp[-1].split(" ")
    if len(to) != len(te): return [obs[-1][:300] + " ..."], [exp[-1][:300] + " ..."]
    keep = [i for i, (a, b) in enumerate(zip(to, te)) if a != b or i < 3]
    cut = lambda t: t if len(t) < 400 else t[:400] + "..."
    return [" ".join(cut(to[i]) for i in keep)], [" ".join(cut(te[i]) for i in keep)]


def fails(prog, variant):
    """does the single program disagree with the documented meaning? returns (bool, detail dict)"""
    try: exp = prog.expected()
    except G.Reject: return False, {}
    status, lines, detail = run_cxx(prog, variant)
    if status == "compile": return True, {"kind": "does-not-compile", "detail": detail[-1500:], "expected": exp[-1:]}
    if status == "crash": return True, {"kind": "crash", "detail": detail, "observed": lines[-1:], "expected": exp[-1:]}
    if lines != exp:
        return True, {"kind": "wrong-value", "observed": compact(lines[-1:], exp[-1:])[0], "expected": compact(lines[-1:], exp[-1:])[1]}
    return False, {}


def shrink_statement(prog, variant, budget=14):
    """prog = init + one statement that fails; shrink the right-hand side"""
    st = prog.stmts[-1]; init = prog.stmts[:-1]
    if st[0] not in ("SAssignV", "SAssignM"): return prog
    cur = st; n = 0; progress = True
    while progress and n < budget:
        progress = False
        for cand_e in same_shape_subterms(cur[4]) + replace_kids(cur[4]):
            if n >= budget: break
            cand = cur[:4] + (cand_e,)
            if cur[1] and (G.names_in(cand_e) & G.names_in(cur[3])): continue
            n += 1
            p2 = Program(prog.decls, prog.orient, init + [cand], "shr%d" % n, prog.sparse, prog.quiet)
            if fails(p2, variant)[0]:
                cur = cand; progress = True; break
    return Program(prog.decls, prog.orient, init + [cur], prog.name, prog.sparse, prog.quiet)


def report_failure(ck, prog, k, variant, origin):
    """statement k of prog disagrees in `variant`: make a one-statement replay, shrink, report"""
    mini = prestate_program(prog, k, "mini")
    bad, det = fails(mini, variant)
    if bad:
        mini = shrink_statement(mini, variant)
        bad, det = fails(mini, variant)
    if not bad:     # not reproducible from the pre-state alone (e.g. earlier memory corruption): keep the prefix
        mini = Program(prog.decls, prog.orient, prog.stmts[:k + 1], "prefix", prog.sparse, prog.quiet); bad, det = fails(mini, variant)
    st = mini.stmts[-1]
    cxx = G.Cxx(random.Random(7)).stmt(st)
    key = "%s:%s" % (origin, stmt_key(st))
    rp = dict(mini.to_json()); rp.update({"variant": variant, "statement": cxx, "result": det,
                                         "replay_cmd": "python3 tools/c01.py --replay <this file>"})
    ck.violation(key, rp, "%s [%s]: `%s` %s; observed %s expected %s" % (
        origin, variant, cxx, det.get("kind"), det.get("observed", det.get("detail", ""))[-1:] if isinstance(det.get("observed"), list) else str(det.get("detail", ""))[-300:],
        det.get("expected")))
    return key


def check_program(ck, model, prog, variants, origin, max_reports=3):
    """three-way comparison; returns number of statements evaluated"""
    exp = prog.expected()
    mod = run_model(model, prog)
    if mod != exp:
        k = next((i for i, (a, b) in enumerate(zip(mod, exp)) if a != b), min(len(mod), len(exp)))
        ck.violation("model-vs-reference", {"program": prog.to_json(), "statement": k, "model": mod[k:k + 1], "reference": exp[k:k + 1]},
                     "extracted Coq interpreter and the Python reference evaluator of the documented meaning disagree at statement %d" % k, no_input=True)
        return 0
    nrep = 0
    for v in variants:
        cur = prog
        for _round in range(8):
            status, lines, detail = run_cxx(cur, v)
            if status == "compile":
                # A generated statement the C++ type checker rejects is outside the property's quantifier (it ranges over
                # well-typed expressions; a rejected one cannot yield a wrong value).  It is recorded in the evidence, dropped
                # (its documented effect is re-created by element sets) and the rest of the shard is checked.  Constructs that
                # must compile are pinned in the regression stream (_defects), where a compile failure IS reported.
                src = cur.source().split("\n")
                full = compile_errors(cur, v)
                ls = sorted(set(int(x) for x in re.findall(r"_[0-9a-f]{12}\.cpp:(\d+):", full)))
                ks = sorted(set(int(m.group(1)) for l in ls if l - 1 < len(src) for m in [re.search(r"P\(\); // (\d+)$", src[l - 1])] if m))
                if not ks:
                    ck.violation("compile:unknown", {"program": cur.to_json(), "detail": detail[-3000:]}, "shard does not compile and no statement could be blamed", no_input=True)
                    break
                rej = ck.notes.setdefault("rejected_at_compile_time", [])
                for k in ks:
                    if len(rej) < 40: rej.append({"variant": v, "statement": G.Cxx(random.Random(7)).stmt(cur.stmts[k]), "shape": stmt_key(cur.stmts[k])})
                cur = drop_statements(cur, ks)
                continue
            e2 = cur.expected()
            k = next((i for i, (a, b) in enumerate(zip(lines, e2)) if a != b), None)
            if k is None and len(lines) < len(e2): k = len(lines)
            if k is None: break
            k += cur.quiet          # output line -> statement index
            if nrep < max_reports: report_failure(ck, cur, k, v, origin); nrep += 1
            else: break
            cur = drop_statements(cur, [k])
    return len(prog.stmts) - prog.quiet


def drop_statements(prog, ks):
    """remove statements ks, replacing each by element sets that establish the documented post-state"""
    s = G.Env()
    for d in prog.decls:
        if d[0] == "v": s.v[d[1]] = [0] * d[2]
        else: s.m[d[1]] = [[0] * d[3] for _ in range(d[2])]
    out = []
    for i, st in enumerate(prog.stmts):
        if i < prog.quiet:
            G.wr(s, ("v", st[1], st[2]) if st[0] == "SSetV" else ("m", st[1], st[2], st[3]), st[-1]); out.append(st); continue
        s2, _ = G.exec_stmt(s, st)
        if i in ks:
            for d in prog.decls:
                if d[0] == "v": out += [("SSetV", d[1], j, s2.v[d[1]][j]) for j in range(d[2]) if s2.v[d[1]][j] != s.v[d[1]][j]]
                else: out += [("SSetM", d[1], a, b, s2.m[d[1]][a][b]) for a in range(d[2]) for b in range(d[3]) if s2.m[d[1]][a][b] != s.m[d[1]][a][b]]
        else: out.append(st)
        s = s2
    return Program(prog.decls, prog.orient, out, prog.name + "d", prog.sparse, prog.quiet)


# ---------------------------------------------------------------------------------------------------
# DEFECTS stream: constructs that crashed, did not compile or gave wrong values on the pinned tree (found while
# building this check; all but the known findings were repaired by `fix:` commits, see known_findings.json).
# One small TU each, kept as regression cases; reported with a stable key whenever they fail.
def _defects():
    x4 = ("VVar", 0, 4); y4 = ("VVar", 1, 4); z2 = ("VVar", 2, 2); x3 = ("VVar", 3, 3)
    A = ("MVar", 0, 3, 3); B = ("MVar", 1, 2, 3); N = ("MVar", 2, 2, 2)
    decls = [("v", 0, 4), ("v", 1, 4), ("v", 2, 2), ("v", 3, 3), ("m", 0, 3, 3), ("m", 1, 2, 3), ("m", 2, 2, 2)]
    D = []
    def add(key, what, st, variant="long"): D.append((key, what, st, variant))
    add("F9:vector-proxy-temporary:*=", "operator*=(vector_expression&&, v) has no return (assignment.hpp:376): UB, crashes at -O2",
        ("SAssignV", False, "OpMul", ("VRange", x4, 0, 2), ("VRange", y4, 0, 2)))
    add("F9:vector-proxy-temporary:/=", "operator/=(vector_expression&&, v) has no return (assignment.hpp:396): UB, crashes at -O2",
        ("SAssignV", False, "OpDiv", ("VRange", x4, 0, 2), ("VConst", 2, 1)))
    add("reduce:matrix-max-initialised-with-0", "max(A) starts its fold at 0 (matrix_expression.hpp:620): wrong for an all-negative matrix",
        ("SReduce", ("RMMax", N)))
    add("reduce:matrix-min-initialised-with-0", "min(A) starts its fold at 0 (matrix_expression.hpp:633): wrong for an all-positive matrix",
        ("SReduce", ("RMMin", ("MUn", "FSqr", N))))
    add("optimizer:prod(repeat(x,k),y):swapped-ctor-args", "matrix_vector_prod_optimizer<vector_repeater<V,row_major>,V2> builds scalar_vector(alpha, repetitions) (expression_optimizers.hpp:1042)",
        ("SAssignV", False, "OpSet", z2, ("VMv", 1, ("MRepeat", False, x3, 2), x3)))
    add("optimizer:prod(trans(repeat(x,k)),y):does-not-compile", "matrix_vector_prod_optimizer<vector_repeater<V,column_major>,V2>::create takes a row_major repeater and calls sum(a,b) (expression_optimizers.hpp:1050)",
        ("SAssignV", False, "OpSet", x3, ("VMv", 1, ("MTrans", ("MRepeat", False, x3, 2)), z2)))
    add("optimizer:prod(alpha*A,B):does-not-compile", "matrix_matrix_prod_optimizer<matrix_scalar_multiply<M1>,M2> uses matrix_scalar_multiply<..>::type/create which do not exist (expression_optimizers.hpp:1087)",
        ("SAssignM", False, "OpSet", A, ("MProd", 1, ("MScale", 2, A), A)))
    add("optimizer:prod(A,alpha*B):does-not-compile", "matrix_matrix_prod_optimizer<M1,matrix_scalar_multiply<M2>> (expression_optimizers.hpp:1099)",
        ("SAssignM", False, "OpSet", A, ("MProd", 1, A, ("MScale", 2, A))))
    add("optimizer:rows(prod(A,B)):does-not-compile", "matrix_rows_optimizer<matrix_matrix_prod> calls the 5-argument matrix_range_optimizer::create with 3 arguments (expression_optimizers.hpp:722)",
        ("SAssignM", False, "OpSet", B, ("MRows", ("MProd", 1, A, A), 0, 2)))
    add("optimizer:diag(scalar_matrix):does-not-compile", "matrix_diagonal_optimizer<scalar_matrix> calls m().size() (expression_optimizers.hpp:411)",
        ("SAssignV", False, "OpSet", x3, ("VDiag", ("MConst", 3, 3, 2))))
    add("optimizer:subrange(sum(as_rows(A))):does-not-compile", "vector_range_optimizer<matrix_row_transform> calls m.expression() (expression_optimizers.hpp:80)",
        ("SAssignV", False, "OpSet", z2, ("VRange", ("VFold", "KSum", "FId", A), 0, 2)))
    add("optimizer:diag(prod(A,B)):does-not-compile", "matrix_diagonal_optimizer<matrix_matrix_prod> is commented out: diag/trace of a product does not compile",
        ("SReduce", ("RTrace", ("MProd", 1, A, A))))
    add("optimizer:subrange(unit_vector):index-before-start", "vector_range_optimizer<unit_vector> computes index()-start in size_t; for index<start the result wraps and the assignment writes out of bounds",
        ("SAssignV", False, "OpSet", z2, ("VRange", ("VUnit", 4, 1, 7), 2, 4)))
    add("optimizer:prod(prod(A,B),alpha*x):ambiguous", "matrix_vector_prod_optimizer<matrix_matrix_prod<..>,V> and <M,vector_scalar_multiply<V>> are ambiguous",
        ("SAssignV", False, "OpSet", x3, ("VMv", 1, ("MProd", 1, A, A), ("VScale", 2, x3))))
    add("proxy:column(temporary):does-not-compile", "column(m,j) for an rvalue m calls column(lvalue&) which is not viable: column(trans(B),1) does not compile",
        ("__cxx__", "v3 = column(trans(m1),1);", ("SAssignV", False, "OpSet", x3, ("VCol", ("MTrans", B), 1))))
    add("crash:A+f(B,C):mixed-orientation", "matrix_addition whose right operand is a matrix_binary with one row-major and one column-major operand (R = S + S*trans(M)) segfaults",
        ("SAssignM", False, "OpSet", A, ("MAdd", A, ("MBin", "BMul", A, ("MTrans", A)))))
    add("cblas:integer-prod(scalar_matrix,scalar_matrix):does-not-compile", "with -DREMORA_USE_CBLAS the gemm binding is selected for value type long when both operands are scalar_matrix",
        ("SAssignM", False, "OpSet", N, ("MProd", 1, ("MConst", 2, 3, 2), ("MConst", 3, 2, 2))), "long_cblas")
    add("optimizer:subrange(diagonal_matrix):off-diagonal-block", "matrix_range_optimizer<diagonal_matrix> is only right for a diagonal block (row range == column range); the REMORA_RANGE_CHECKs vanish under NDEBUG and an off-diagonal block comes out as a smaller diagonal matrix (expression_optimizers.hpp)",
        ("SAssignM", False, "OpSet", N, ("MRange", ("MDiagM", x3), 0, 2, 1, 3)))
    add("assign:noalias*=:unit_vector-rhs", "noalias(x) *= (sparse-like right-hand side such as unit_vector): only the non-zero positions are multiplied, the others keep their value instead of becoming 0",
        ("SAssignV", True, "OpMul", x4, ("VUnit", 4, 2, 3)))
    return decls, D


def defect_program(decls, st, name):
    rng = random.Random(3); init = []
    for d in decls:
        if d[0] == "v": init += [("SSetV", d[1], i, -(i + 1) - d[1]) for i in range(d[2])]
        else: init += [("SSetM", d[1], i, j, -(1 + i * d[3] + j + d[1])) for i in range(d[2]) for j in range(d[3])]
    used = G.names_in(st)
    dd = [d for d in decls if (d[0], d[1]) in used]
    init = [s for s in init if (("v", s[1]) if s[0] == "SSetV" else ("m", s[1])) in used]
    return Program(dd, {}, init + [st], name)


class RawProgram(Program):
    """a program whose last statement has a hand-written C++ spelling"""
    def __init__(self, base, cxx_text):
        Program.__init__(self, base.decls, base.orient, base.stmts, base.name, base.sparse); self.cxx_text = cxx_text
    def source(self):
        src = Program.source(self).split("\n")
        k = len(self.stmts) - 1
        for i, l in enumerate(src):
            if l.endswith("P(); // %d" % k): src[i] = "  { %s } P(); // %d" % (self.cxx_text, k)
        return "\n".join(src)


def defects_stream(ck):
    decls, D = _defects(); n = 0; still = []
    for idx, (key, what, st, variant) in enumerate(D):
        if st[0] == "__cxx__":
            prog = RawProgram(defect_program(decls, st[2], "defect%02d" % idx), st[1])
        else:
            prog = defect_program(decls, st, "defect%02d" % idx)
        bad, det = fails(prog, variant); n += 1
        if bad:
            still.append(key)
            cxx = st[1] if st[0] == "__cxx__" else G.Cxx(random.Random(7)).stmt(st)
            rp = dict(prog.to_json()); rp.update({"variant": variant, "statement": cxx, "result": det, "source_file_hint": "build/tmp/C01/" + prog.name + "_*.cpp"})
            ck.violation(key, rp, "%s — `%s` %s: observed %s, documented value %s" % (what, cxx, det.get("kind"), det.get("observed", [str(det.get("detail", ""))[-200:]]), det.get("expected")))
    ck.notes["defect_stream"] = {"programs": n, "still_failing": still}
    return n


# ---------------------------------------------------------------------------------------------------
def sparse_stream(ck, model, rng, n):
    """separate stream: compressed_vector / compressed_matrix leaves, element-wise expressions,
    products and plain assignment forms"""
    decls = [("v", 0, 4), ("v", 1, 4), ("v", 2, 3), ("m", 0, 3, 4), ("m", 1, 3, 4), ("m", 2, 4, 3)]
    sparse = [("v", 0), ("m", 0)]
    g = G.Gen(rng); g.decls = decls; g.orient = {}; g.vecs = decls[:3]; g.mats = decls[3:]
    stmts = []
    for d in decls:   # sparse containers are filled through element assignment of a few entries
        if d[0] == "v": stmts += [("SSetV", d[1], i, rng.randint(-3, 3)) for i in range(d[2]) if (d[0], d[1]) not in sparse or i % 2 == 0]
        else: stmts += [("SSetM", d[1], i, j, rng.randint(-3, 3)) for i in range(d[2]) for j in range(d[3]) if (d[0], d[1]) not in sparse or (i + j) % 3 == 0]
    sv, dv, dv3 = ("VVar", 0, 4), ("VVar", 1, 4), ("VVar", 2, 3); sm, dm, dm2 = ("MVar", 0, 3, 4), ("MVar", 1, 3, 4), ("MVar", 2, 4, 3)
    pool = [
        ("SAssignV", False, "OpSet", dv, ("VAdd", sv, dv)), ("SAssignV", False, "OpAdd", dv, sv), ("SAssignV", False, "OpSub", dv, ("VScale", 2, sv)),
        ("SAssignV", True, "OpAdd", dv, sv), ("SAssignV", True, "OpSet", dv, sv), ("SAssignV", False, "OpSet", dv, ("VBin", "BMul", sv, dv)),
        ("SAssignV", False, "OpSet", dv3, ("VMv", 1, sm, dv)), ("SAssignV", False, "OpSet", dv3, ("VMv", 1, dm, sv)), ("SAssignV", True, "OpAdd", dv3, ("VMv", 1, sm, sv)),
        ("SAssignV", False, "OpSet", dv, ("VMv", 1, ("MTrans", sm), dv3)),
        ("SAssignM", False, "OpSet", dm, ("MAdd", sm, dm)), ("SAssignM", False, "OpAdd", dm, sm), ("SAssignM", True, "OpSub", dm, sm), ("SAssignM", False, "OpSet", dm, sm),
        ("SAssignM", False, "OpSet", dm2, ("MTrans", sm)), ("SAssignM", False, "OpSet", dm, ("MScale", -2, sm)),
        ("SReduce", ("RSum", sv)), ("SReduce", ("RNorm1", sv)), ("SReduce", ("RInner", sv, dv)), ("SReduce", ("RNormSqr", sv)), ("SReduce", ("RMSum", sm)),
        ("SAssignV", False, "OpSet", dv, ("VRow", sm, 1)), ("SAssignV", False, "OpSet", dv, ("VUn", "FAbs", sv)),
        ("SAssignM", False, "OpSet", ("MVar", 1, 3, 4), ("MProd", 1, ("MOuter", dv3, dv3), sm)),
    ]
    for _ in range(n): stmts.append(rng.choice(pool))
    prog = Program(decls, {}, stmts, "sparse", sparse)
    try: prog.expected()
    except G.Reject:
        return 0
    return check_program(ck, model, prog, ["long", "double_cblas"], "sparse-stream")


def big_statement(g):
    """statements for the big-shape shards: dense containers of size 16..33, every assignment form, sources that send
    the assignment through the blocked / transposing kernels (same and opposite orientation, transposes, sub-ranges,
    element-wise combinations, products)"""
    rng = g.rng
    def mvar(d): return ("MVar", d[1], d[2], d[3])
    def vvar(d): return ("VVar", d[1], d[2])
    def msrc(r, c, depth=2):
        """a dense matrix expression of shape r x c"""
        cands = []
        for d in g.mats:
            if (d[2], d[3]) == (r, c): cands += [mvar(d)] * 2
            if (d[3], d[2]) == (r, c): cands += [("MTrans", mvar(d))] * 2
            if d[2] >= r and d[3] >= c and (d[2], d[3]) != (r, c):
                a = rng.randint(0, d[2] - r); b = rng.randint(0, d[3] - c); cands.append(("MRange", mvar(d), a, a + r, b, b + c))
            if d[3] >= r and d[2] >= c and (d[3], d[2]) != (r, c):
                a = rng.randint(0, d[3] - r); b = rng.randint(0, d[2] - c); cands.append(("MRange", ("MTrans", mvar(d)), a, a + r, b, b + c))
        vr = [d for d in g.vecs if d[2] == r]; vc = [d for d in g.vecs if d[2] == c]
        if vr and vc: cands.append(("MOuter", vvar(rng.choice(vr)), vvar(rng.choice(vc))))
        if not cands: return None
        e = rng.choice(cands)
        if depth > 0:
            u = rng.random()
            if u < 0.2:
                o = msrc(r, c, depth - 1)
                if o is not None: e = ("MAdd", e, o)
            elif u < 0.35:
                o = msrc(r, c, depth - 1)
                if o is not None: e = ("MBin", rng.choice(["BMul", "BMin", "BMax"]), e, o)
            elif u < 0.45: e = ("MScale", rng.choice([-2, 2, 3]), e)
            elif u < 0.6:
                ks = sorted(set(d[3] for d in g.mats if d[2] == r) & set(d[2] for d in g.mats if d[3] == c))
                if ks:
                    k = rng.choice(ks); a = msrc(r, k, 0); b = msrc(k, c, 0)
                    if a is not None and b is not None: e = ("MProd", 1, a, b)
        return e
    def vsrc(n, depth=1):
        cands = [vvar(d) for d in g.vecs if d[2] == n]
        for d in g.mats:
            if d[3] == n: cands.append(("VRow", mvar(d), rng.randrange(d[2])))
            if d[2] == n: cands.append(("VCol", mvar(d), rng.randrange(d[3])))
            if d[2] == n and depth > 0:
                v = vsrc(d[3], 0)
                if v is not None: cands.append(("VMv", 1, mvar(d), v))
            if d[3] == n and depth > 0:
                v = vsrc(d[2], 0)
                if v is not None: cands.append(("VMv", 1, ("MTrans", mvar(d)), v))
        for d in g.vecs:
            if d[2] > n: a = rng.randint(0, d[2] - n); cands.append(("VRange", vvar(d), a, a + n))
        if not cands: return None
        e = rng.choice(cands)
        if depth > 0 and rng.random() < 0.3:
            o = vsrc(n, 0)
            if o is not None: e = ("VAdd", e, o)
        return e
    op = rng.choice(["OpSet", "OpSet", "OpAdd", "OpAdd", "OpSub", "OpMul"])
    if rng.random() < 0.7:
        d = rng.choice(g.mats); tgt = mvar(d); r, c = d[2], d[3]
        u = rng.random()
        if u < 0.2: tgt = ("MTrans", tgt); r, c = c, r
        elif u < 0.4 and r > 2 and c > 2:
            a = rng.randint(0, 2); b = rng.randint(0, 2); tgt = ("MRange", tgt, a, r - 1, b, c - 1); r, c = r - 1 - a, c - 1 - b
        src = msrc(r, c)
        if src is None: return None
        noalias = rng.random() < 0.6 and ("m", d[1]) not in G.names_in(src)
        return ("SAssignM", noalias, op, tgt, src)
    d = rng.choice(g.vecs); tgt = vvar(d); n = d[2]
    src = vsrc(n)
    if src is None: return None
    noalias = rng.random() < 0.6 and ("v", d[1]) not in G.names_in(src)
    return ("SAssignV", noalias, op, tgt, src)


def long_inner_program(rng, name, above_tile):
    """matrix products with a LONG inner dimension (the fallback kernel of the CBLAS build, kernels/cblas/dense_gemm.hpp,
    copies operands without dense storage in tiles of 512 along the inner dimension): outer dimensions 1..3, inner
    dimension around and above the tile size, at least one operand an element-wise expression (sqr, abs, sum, difference),
    plain dense operands as control; forms =, noalias =, noalias +=; matrix-vector products alongside"""
    K = rng.choice([513, 700, 1030, 1100] if above_tile else [511, 512, 513, 700, 1030, 1100])
    r, c = rng.randint(1, 3), rng.randint(1, 3)
    shapes = [(r, K), (r, K), (K, c), (K, c), (r, c), (r, c), (c, r)]
    decls = [("v", 0, K), ("v", 1, r), ("v", 2, r), ("v", 3, c)] + [("m", i, a, b) for i, (a, b) in enumerate(shapes)]
    orient = {i: rng.random() < 0.5 for i in range(len(shapes))}
    init = []
    for d in decls:
        if d[0] == "v": init += [("SSetV", d[1], i, rng.randint(-2, 2)) for i in range(d[2])]
        else: init += [("SSetM", d[1], i, j, rng.randint(-2, 2)) for i in range(d[2]) for j in range(d[3])]
    A, A2, B, B2, C, C2, Ct = [("MVar", i, a, b) for i, (a, b) in enumerate(shapes)]
    x, y, y2, z = ("VVar", 0, K), ("VVar", 1, r), ("VVar", 2, r), ("VVar", 3, c)
    sq = lambda m: ("MUn", "FSqr", m); ab = lambda m: ("MUn", "FAbs", m)
    prods = [("MProd", 1, sq(A), B), ("MProd", 1, ("MAdd", A, A2), B), ("MProd", 1, A, sq(B)), ("MProd", 1, A, ("MMinus", B, B2)),
             ("MProd", 1, ab(A), ("MAdd", B, B2)), ("MProd", 1, ("MBin", "BMul", A, A2), B), ("MProd", 1, A, B), ("MProd", 1, A2, B2)]
    tprods = [("MProd", 1, ("MTrans", sq(B)), ("MTrans", A)), ("MProd", 1, ("MTrans", B), ("MTrans", ("MAdd", A, A2))), ("MProd", 1, ("MTrans", B2), ("MTrans", A))]
    vprods = [("VMv", 1, sq(A), x), ("VMv", 1, ("MAdd", A, A2), x), ("VMv", 1, A, ("VUn", "FSqr", x)), ("VMv", 1, A, x)]
    wprods = [("VMv", 1, ("MTrans", sq(B)), x), ("VMv", 1, ("MTrans", B), x)]
    forms = [(False, "OpSet"), (True, "OpSet"), (True, "OpAdd")]
    stmts = []
    for p in prods:
        na, o = rng.choice(forms); stmts.append(("SAssignM", na, o, rng.choice([C, C2]), p))
    for na, o in forms: stmts.append(("SAssignM", na, o, C, rng.choice(prods[:6])))      # every form with an expression operand
    for p in tprods: na, o = rng.choice(forms); stmts.append(("SAssignM", na, o, Ct, p))
    for p in vprods: na, o = rng.choice(forms); stmts.append(("SAssignV", na, o, rng.choice([y, y2]), p))
    for p in wprods: na, o = rng.choice(forms); stmts.append(("SAssignV", na, o, z, p))
    rng.shuffle(stmts)
    return Program(decls, orient, init + stmts, name, quiet=len(init))


def tri_program(rng, name, nstmts):
    """triangular_prod<lower|upper|unit_lower|unit_upper>(A, v) and (A, B) = prod(to_triangular(A, tag), .) of dense
    matrices of both orientations: alias-free compound forms with a scalar factor (`noalias(x) += c*T v`, `-=`, which
    introduces the factor -1), plain and noalias `=`, plain `+=` (also with the target as operand)"""
    ns = [1, 2, 3, 4, 6, 17]
    decls = []; orient = {}; vid = 0; mid = 0; sq = {}; rect = {}; vec = {}
    for n in ns:
        vec[n] = []
        for _ in range(3): decls.append(("v", vid, n)); vec[n].append(("VVar", vid, n)); vid += 1
        sq[n] = []
        for _ in range(2): decls.append(("m", mid, n, n)); orient[mid] = rng.random() < 0.5; sq[n].append(("MVar", mid, n, n)); mid += 1
        k = rng.choice([1, 2, 3, 5]); rect[n] = []
        for _ in range(2): decls.append(("m", mid, n, k)); orient[mid] = rng.random() < 0.5; rect[n].append(("MVar", mid, n, k)); mid += 1
    init = []
    for d in decls:
        if d[0] == "v": init += [("SSetV", d[1], i, rng.randint(-3, 3)) for i in range(d[2])]
        else: init += [("SSetM", d[1], i, j, rng.randint(-3, 3)) for i in range(d[2]) for j in range(d[3])]
    s = G.Env()
    for d in decls:
        if d[0] == "v": s.v[d[1]] = [0] * d[2]
        else: s.m[d[1]] = [[0] * d[3] for _ in range(d[2])]
    for st in init: G.wr(s, ("v", st[1], st[2]) if st[0] == "SSetV" else ("m", st[1], st[2], st[3]), st[-1])
    stmts = []; tries = 0
    while len(stmts) < nstmts and tries < 40 * nstmts:
        tries += 1
        n = rng.choice(ns); A = rng.choice(sq[n]); up, un = rng.random() < 0.5, rng.random() < 0.4
        if rng.random() < 0.15: A = ("MTrans", A)
        T3 = ("MTri", up, un, A); c = rng.choice([2, 3, -2, -3])
        if rng.random() < 0.7:
            t, v = rng.sample(vec[n], 2); P = ("VMv", 1, T3, v); sc = lambda e: ("VScale", c, e); H = "SAssignV"
            alias = ("VMv", 1, T3, t)
        else:
            t, v = rng.sample(rect[n], 2); P = ("MProd", 1, T3, v); sc = lambda e: ("MScale", c, e); H = "SAssignM"
            alias = ("MProd", 1, T3, t)
        u = rng.random()
        if u < 0.22: st = (H, True, "OpAdd", t, sc(P))
        elif u < 0.38: st = (H, True, "OpSub", t, P)
        elif u < 0.50: st = (H, True, "OpSub", t, sc(P))
        elif u < 0.60: st = (H, False, "OpSet", t, P)
        elif u < 0.70: st = (H, True, "OpSet", t, sc(P))
        elif u < 0.78: st = (H, False, "OpAdd", t, P)
        elif u < 0.86: st = (H, True, "OpAdd", t, P)
        elif u < 0.92: st = (H, False, "OpSub", t, sc(P))
        elif u < 0.96: st = (H, False, "OpSet", t, alias)
        else: st = (H, False, "OpAdd", t, sc(alias))
        try: s2, _ = G.exec_stmt(s, st)
        except G.Reject:
            # values grew too large: reset the target
            st = (H, False, "OpSet", t, ("VConst", t[2], rng.choice([-1, 1, 2])) if H == "SAssignV" else ("MConst", t[2], t[3], rng.choice([-1, 1, 2])))
            s2, _ = G.exec_stmt(s, st)
        s = s2; stmts.append(st)
    return Program(decls, orient, init + stmts, name, quiet=len(init))


def rejected_statements(prog, variant):
    """syntax-only compiler pass over a shard: indices of the statements the C++ type checker rejects (diagnostics that
    point into the generated file: `error` and `required from here` lines), None if diagnostics cannot be attributed"""
    full = compile_errors(prog, variant)
    if "error" not in full: return []
    src = prog.source().split("\n")
    ls = sorted(set(int(x) for x in re.findall(r"_[0-9a-f]{12}\.cpp:(\d+):\d+:\s+(?:error|required from here)", full)))
    ks = sorted(set(int(m.group(1)) for l in ls if l - 1 < len(src) for m in [re.search(r"P\(\); // (\d+)$", src[l - 1])] if m))
    return ks or None


def proxy_shard(ck, rng, name, vt, info):
    """one shard of the orientation-complete proxy layer (tools/c01_gen.py: ProxyLayer): one statement per stratum
    (proxy, matrix form, plain | trans).  A syntax-only compiler pass filters the members the type checker rejects
    (recorded); a rejected stratum is redrawn as its core member, which must compile - otherwise the stratum is
    reported with the concrete statement."""
    pl = G.ProxyLayer(rng); init = pl.init_statements(); strata = pl.strata()
    items = [[sx, pl.draw(sx), False] for sx in strata]
    mk = lambda its: Program(pl.decls, pl.orient, init + pl.settle(init, [it[1] for it in its]), name, quiet=len(init))
    cx = lambda st: G.Cxx(random.Random(7)).stmt(st)
    for rnd in range(4):
        prog = mk(items); ks = rejected_statements(prog, vt)
        if ks is None:
            ck.violation("compile:unknown", {"program": prog.to_json()}, "proxy shard does not compile and no statement could be blamed", no_input=True); return None
        if not ks: break
        keep = []
        for k, it in enumerate(items):
            if k + prog.quiet not in ks: keep.append(it); continue
            if not it[2]:
                if len(info["rejected_at_compile_time"]) < 60: info["rejected_at_compile_time"].append({"stratum": "%s(%s%s)" % (it[0][0], "trans " if it[0][2] else "", it[0][1]), "statement": cx(it[1])})
                info["rejected"] += 1
                keep.append([it[0], pl.draw(it[0], core=True), True])
            else:
                # the core member of a stratum is rejected: a concrete construct that has to compile does not
                one = Program(pl.decls, pl.orient, init + [it[1]], "core", quiet=len(init))
                bad, det = fails(one, vt)
                key = "proxy-layer:does-not-compile:%s(%s%s)" % (it[0][0], "trans " if it[0][2] else "", it[0][1])
                rp = dict(one.to_json()); rp.update({"variant": vt, "statement": cx(it[1]), "result": det})
                ck.violation(key, rp, "core member of proxy-layer stratum %s is rejected by the compiler: `%s` %s" % (key.split(":")[-1], cx(it[1]), str(det.get("detail", ""))[-300:]))
        items = keep
    prog = mk(items)
    for it in items:
        k = "%s(%s%s)" % (it[0][0], "trans " if it[0][2] else "", it[0][1]); info["strata"][k] = info["strata"].get(k, 0) + 1
    for k, v in pl.stats.items(): info["classes"][k] = info["classes"].get(k, 0) + v
    return prog


def main():
    ck = Check(PID)
    ck.trusted = DEFAULT_TRUSTED + ["Python reference evaluator of the documented meaning (tools/c01_gen.py: vden/mden/exec_stmt) used as spec monitor, cross-checked against the extracted Coq interpreter on every program",
                                    "modelled not verified: OpenBLAS kernels (only the binding's argument marshalling is exercised), SIMD/OpenCL paths (disabled)"]
    ck.assumptions = ["values are integers of magnitude < 2^24 (every intermediate of the documented formula), so long and double arithmetic are exact and the documented value is unique",
                      "statements are shape-correct (REMORA_SIZE_CHECK vanishes under NDEBUG); noalias forms only with the target's container absent from the right-hand side",
                      "max/min/norm_inf only of non-empty operands; integer `/=` only in long programs with non-zero divisors"]
    ck.proofs()
    # structural tie of the rewrite table
    try:
        import c01_rules
        miss_model, miss_cxx = c01_rules.compare(REPO, os.path.join(COQ, "theories", "C01Opt.v"))
        ck.oblige("rule table: specialisations of expression_optimizers.hpp == arms of C01Opt.v", not miss_model and not miss_cxx,
                  "only in C++: %s; only in model: %s" % (miss_model[:6], miss_cxx[:6]))
        ck.notes["rule_arms"] = len(c01_rules.scrape_model(os.path.join(COQ, "theories", "C01Opt.v")))
    except ImportError:
        ck.notes["rule_table"] = "tools/c01_rules.py not present"
    model = extract_model(PID, "C01Extract.v", "c01_driver.ml")
    os.makedirs(TMP, exist_ok=True)
    rule_body_mismatch = None
    # second tie of the rewrite table: the BODY of every specialisation (typedefs + create), translated from the header and
    # interpreted on instances of every rule (both orientations, non-square, pairwise different indices), must build the
    # same term as the extracted C01Opt.v functions (driver command O)
    try:
        rb = c01_rules.compare_bodies(REPO, model, TMP, seed=ck.seed, per_rule=30 if ck.tier == "thorough" else 10)
        nmis = len(rb["mismatches"])
        first = next((m for m in rb["mismatches"] if m), None)
        ck.oblige("rule bodies: create() of every specialisation of expression_optimizers.hpp, translated and run on %d instances of %d rules, builds the term the extracted C01Opt.v builds" % (rb["instances"], rb["rules"]),
                  rb["ok"], "mismatching instances: %d%s; untranslatable: %s; rules without instance: %s" % (
                      nmis, (" first: %s on %s: C++ body gives %s, model gives %s" % (first["rule"], first["instance"], first["translated_from_cxx"], first["extracted_model"])) if first else "",
                      rb["untranslatable"][:3], rb["not_exercised"][:5]))
        rule_body_mismatch = (first, [m for m in rb["mismatches"] if m]) if first else None      # reported after the streams (below)
        ck.notes["rule_bodies"] = {k: rb[k] for k in ("rules", "instances", "skipped_precondition", "orientation_index_functions") if k in rb}
        ck.notes["rule_bodies"]["least_exercised_rule_instances"] = min(rb.get("fired", {"-": 0}).values())
    except Exception as ex:        # the translator itself must not take the check down silently
        ck.oblige("rule bodies: translation of expression_optimizers.hpp", False, "%s: %s" % (type(ex).__name__, ex))
    nev = 0; samples = []; stats = {}
    if ck.replay and ck.replay.endswith(".txt"):      # a case file of the sparse stream
        nev += SP.replay(ck, ck.replay)
        ck.cov["evaluations"] = nev; ck.finish()
    if ck.replay:
        prog = Program.from_json(json.load(open(ck.replay)))
        prog.name = "replay"
        vs = [json.load(open(ck.replay)).get("variant")] if json.load(open(ck.replay)).get("variant") else list(VARIANTS)
        nev += check_program(ck, model, prog, vs, "replay")
        ck.cov["evaluations"] = nev; ck.finish()
    thorough = ck.tier == "thorough"
    shards = []
    nshards = 12 if thorough else 2
    for i in range(nshards):
        vt = "long" if i % 2 == 0 else "double"
        g = G.Gen(random.Random(ck.rng.getrandbits(48)), integer_div=(vt == "long"))
        stmts = g.program(150 if thorough else 110)
        # CBLAS only matters for floating point; long + REMORA_USE_CBLAS is exercised in the defect stream
        shards.append((Program(g.decls, g.orient, stmts, "shard%d" % i), [vt] if vt == "long" else [vt, vt + "_cblas"]))
        for k, v in g.stats.items(): stats[k] = stats.get(k, 0) + v
    # shapes around the 16x16 blocking of the dense kernels (sizes 16..33): the transposing / blocked assignment and
    # product kernels behave differently from the small-shape paths (partial last blocks)
    for i in range(4 if thorough else 1):
        vt = "double" if i % 2 == 0 else "long"
        g = G.Gen(random.Random(ck.rng.getrandbits(48)), integer_div=(vt == "long"), max_depth=3, big=True)
        g.statement = (lambda gg: (lambda: big_statement(gg)))(g)
        stmts = g.program(60 if thorough else 45)
        shards.append((Program(g.decls, g.orient, stmts, "bigshard%d" % i), [vt] if vt == "long" else [vt, vt + "_cblas"]))
        for k, v in g.stats.items(): stats[k] = stats.get(k, 0) + v
    # long inner dimension (tiles of the CBLAS fall-back gemm) and triangular products
    for i in range(6 if thorough else 2):
        prog = long_inner_program(random.Random(ck.rng.getrandbits(48)), "longshard%d" % i, above_tile=(i % 2 == 0))
        shards.append((prog, ["double", "double_cblas"]))
        stats["long-inner-dimension statements"] = stats.get("long-inner-dimension statements", 0) + len(prog.stmts) - prog.quiet
    for i in range(4 if thorough else 1):
        prog = tri_program(random.Random(ck.rng.getrandbits(48)), "trishard%d" % i, 90 if thorough else 70)
        shards.append((prog, ["long", "double", "double_cblas"]))
        stats["triangular_prod statements"] = stats.get("triangular_prod statements", 0) + len(prog.stmts) - prog.quiet
    # orientation-complete proxy layer: every proxy x every matrix form x plain / trans(form), nested in element-wise
    # expressions, off-diagonal / non-square / empty / full ranges (tools/c01_gen.py: ProxyLayer)
    pinfo = {"strata": {}, "classes": {}, "rejected": 0, "rejected_at_compile_time": [], "excluded_strata": sorted(set("%s(%s): %s" % (k[0], k[1], v) for k, v in G.EXCLUDED_STRATA.items()))}
    for i in range(6 if thorough else 2):
        vt = "long" if i % 2 == 0 else "double"
        # (own random stream derived from the seed: the other streams draw exactly what they drew before this layer existed)
        prog = proxy_shard(ck, random.Random(ck.seed * 7919 + 1009 * i + 17), "proxyshard%d" % i, vt, pinfo)
        if prog is not None:
            shards.append((prog, [vt])); stats["proxy-layer statements"] = stats.get("proxy-layer statements", 0) + len(prog.stmts) - prog.quiet
    # do the excluded strata still have no compiling member?  (information only: a stratum that starts to compile should
    # be taken out of EXCLUDED_STRATA)
    try:
        plx = G.ProxyLayer(random.Random(ck.seed + 5)); initx = plx.init_statements()
        exs = sorted(set((p, f, tr) for (p, f) in G.EXCLUDED_STRATA for tr in (False, True)))
        px = Program(plx.decls, plx.orient, initx + plx.settle(initx, [plx.draw(x, core=True) for x in exs]), "proxyexcluded", quiet=len(initx))
        rej = rejected_statements(px, "long") or []
        pinfo["excluded_strata_that_now_compile"] = ["%s(%s%s)" % (x[0], "trans " if x[2] else "", x[1]) for k, x in enumerate(exs) if k + px.quiet not in rej]
    except Exception as ex:
        pinfo["excluded_strata_that_now_compile"] = "not probed: %s" % ex
    want = set("%s(%s%s)" % (p, "trans " if tr else "", f) for (p, f, tr) in G.ProxyLayer(random.Random(0)).strata())
    ck.oblige("proxy layer: every stratum (proxy x matrix form x orientation) outside the documented exclusions is compiled and compared (%d strata)" % len(want),
              want <= set(pinfo["strata"]), "missing: %s" % sorted(want - set(pinfo["strata"]))[:8])
    ck.notes["proxy_layer"] = pinfo
    # compile all variants of all shards in parallel (4 jobs) before the sequential comparison
    from concurrent.futures import ThreadPoolExecutor
    with ThreadPoolExecutor(max_workers=4) as ex:
        list(ex.map(lambda pv: run_cxx(pv[0], pv[1]), [(p, v) for p, vs in shards for v in vs]))
    for prog, vs in shards:
        nev += check_program(ck, model, prog, vs, "main-stream" if not prog.quiet else ("long-inner-stream" if prog.name.startswith("long") else "proxy-layer" if prog.name.startswith("proxy") else "triangular-stream"))
        samples.append([G.Cxx(random.Random(7)).stmt(s) for s in prog.stmts[-3:]])
    # sparse stream: NOT ENABLED.  Probes show that on the unchanged tree `compressed_matrix = dense matrix`
    # (sparse.hpp:243) and `dense = compressed_vector + dense` do not compile and compressed containers have no
    # element access for printing, so a meaningful sparse grammar needs more work than this round allowed;
    # sparse_stream() is kept as the starting point.  Set C01_SPARSE=1 to try it.
    if os.environ.get("C01_SPARSE"):
        nev += sparse_stream(ck, model, random.Random(ck.rng.getrandbits(48)), 60 if thorough else 30)
    else:
        ck.rng.getrandbits(48)
    nev += defects_stream(ck)
    # sparse storage / kernel stream (tools/c01_sparse.py): command sequences on compressed_vector / compressed_matrix,
    # extracted model (C01SparseExec.v) vs harness/c01_sparse.cpp, values and stored index structure compared exactly
    nsp = SP.stream(ck, random.Random(ck.rng.getrandbits(48)), 3000 if thorough else 600)
    nev += nsp
    if rule_body_mismatch:
        # the smallest instance on which the rule body of the header and the proved rule differ (a disagreement of the two
        # descriptions of the rule, not by itself a failing program: the streams above supply that)
        mm, allmm = rule_body_mismatch
        ck.violation("rule-body:" + mm["rule"], {"first": mm, "all": allmm}, "rewrite rule %s: the body in the header builds %s for %s, the proved model rule builds %s" % (
            mm["rule"], mm["translated_from_cxx"], mm["instance"], mm["extracted_model"]), no_input=True)
    # corpus
    cdir = os.path.join(ROOT, "corpus", PID)
    if os.path.isdir(cdir):
        for f in sorted(os.listdir(cdir)):
            if f.endswith(".json"):
                prog = Program.from_json(json.load(open(os.path.join(cdir, f)))); prog.name = "corpus_" + f[:-5]
                nev += check_program(ck, model, prog, list(VARIANTS), "corpus")
    ck.cov["evaluations"] = nev
    ck.cov["distinct_nontrivial"] = len(set(G.sx(s) for p, _ in shards for s in p.stmts if s[0] in ("SAssignV", "SAssignM", "SReduce")))
    ck.cov["rule"] = ("random well-typed remora statement sequences (expression depth <= 5, container sizes 0..5 incl. 0x3, 1x0, 1x1, non-square, "
                      "row/column-major), every assignment form, deliberate aliasing patterns; each statement executed by compiled C++ (2 value types x 2 back-ends), "
                      "by the extracted Coq interpreter and by the reference evaluator; every container printed after every statement; non-trivial = assignment or reduction statements (element sets excluded)")
    ck.cov["rule"] += ("; proxy layer: %d strata (every proxy subrange/rows/columns/row/column/diag/trans x every matrix form x plain|trans(form)), one statement per stratum and shard, "
                       "element-wise wrappers, nested proxies, non-square operands, off-diagonal / non-square / empty / single-line / full ranges, = += -= *= plain and noalias, row- and column-major targets"
                       % len(pinfo["strata"]))
    ck.cov["rule"] += ("; sparse stream: %d command sequences on compressed_vector / compressed_matrix (storage operations, assignment kernels with 6 functors, "
                       "operator forms plain/noalias x = += -= *=, 9 shapes of sparse expressions, dense and compressed targets, both orientations, sizes 0..12), "
                       "each executed by harness/c01_sparse.cpp and by the extracted C01SparseExec.run_cmd, values + capacities + stored index sequences compared exactly, "
                       "element-wise meaning and storage invariant monitored on the implementation's output") % ck.notes.get("sparse_stream", {}).get("cases", 0)
    ck.cov["samples"] = samples
    ck.notes["construct_counts"] = stats
    ck.assumptions.append("sparse stream: operands of one statement have equal shapes, iterator positions passed to set_element/clear_range are legal, noalias forms without aliasing; statements that do not compile (compressed = expression, compressed_matrix = other orientation / dense matrix, x -= a*b of sparse operands) are never generated")
    ck.finish(explanation="proof over the models (dense assignment forms, reductions, rewrite rules; sparse storage, sparse kernels for every functor, sparse expression iterators) + exact correspondence on generated programs / command sequences; partial: the statement level of the sparse model (which kernel an operator form calls) is compared only; OpenBLAS internals and dense block-kernel internals are only compared")


if __name__ == "__main__":
    main()
