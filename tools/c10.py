#!/usr/bin/env python3
"""C10 — gradient-based optimisers report consistent solutions and make progress.

  proofs           Properties_C10.v (state consistency of every AbstractLineSearchOptimizer-derived class with ALL THREE
                   line searches - wolfecubic and dlinmin with their trial step lengths as an arbitrary oracle - and of
                   SteepestDescent; no line search increases the value along a non-ascent direction; points stay on the
                   search line / ray; exactly when wolfecubic reads unassigned memory; BFGS: the update keeps symmetry and
                   (y's > 0) positive definiteness, reset as coded, descent direction and monotone steps without hypothesis;
                   whole-run monotonicity for non-ascent direction rules, box feasibility for direction rules with x + d
                   feasible, save/restore completeness of the line-search base + CG + BFGS, repaired SteepestDescent list;
                   L-BFGS: history update rules, two-loop recursion = the matrix of the stored BFGS inverse updates, symmetric
                   positive definite, descent, monotone steps; box direction keeps x + d in the box for every input, box runs
                   feasible; Adam / Rprop: state consistency, step sizes positive and (unconstrained) in [minDelta, maxDelta],
                   iRprop+ takes back the sign-changed coordinates after an increase, member lists of L-BFGS / Adam / Rprop
                   complete; CG: exact characterisation of its ascent directions, monotone on objectives convex along rays;
                   trust-region Newton: state consistency for every number type and every answer of the sub-problem solver,
                   radius positive, what the acceptance rule guarantees, trustRegionCG as repaired stays inside the trust region
                   and predicts no increase, whole runs never increase the value; regression witnesses of the repaired
                   borderDistance defect), axiom-free over Q
  correspondence   extracted Q-model vs the real code compiled from /repo on generated dyadic quadratics: exact
                   equality while every floating-point operation of the objective was exact (harness: FE_INEXACT +
                   mantissa-length watch), 1e-9 relative afterwards.  Classes: harness subclass of
                   AbstractLineSearchOptimizer (direction -gradient), CG, BFGS (matrix included, 2-3 steps), L-BFGS with and
                   without box (history, m_bdiag, direction; while the exact rationals stay below 200 bits), SteepestDescent;
                   save/restore inside the histories.  One-step replays: every single step of every L-BFGS / Adam / Rprop
                   history is recomputed from the implementation's own previous (complete, private) state by the generic
                   model functions instantiated with doubles (L-BFGS direction 1e-10, history exact; Adam / Rprop bitwise or
                   1e-10; Rprop also by the rational instance).  Witness inputs of the `_refuted` Examples run on the C++.  Single LineSearch::operator() calls (Dlinmin / WolfeCubic / Backtracking) on a
                   hooked hash-valued objective: the code runs first, its evaluation log becomes the oracle of the
                   extracted model, point / value / derivative and the number of trials must agree exactly.
                   TrustRegionNewton (real class through the init-override shim of harness/c10_trn.cpp): every single step
                   replayed by the extracted tr_step (double instance 1e-9 + summation-order spread; rational instance 1e-9,
                   exactly where the harness saw no inexact floating-point operation in the whole step).
  spec monitors    every anchored class (SteepestDescent, Adam, CG, BFGS, L-BFGS, Rprop variants; line searches
                   Dlinmin/WolfeCubic/Backtracking; quadratics cond <= 1e4, Rosenbrock, box variants for L-BFGS and
                   Rprop): value == re-evaluated objective and derivative == re-evaluated gradient (bitwise), finite, feasible, line-search methods never
                   increase, minimiser of quadratics reached within the budget table, saved-at-k/restored-into-fresh
                   instance: complete state equal and continued iterates bitwise equal.  TrustRegionNewton after init and
                   after EVERY step: value == objective at the point, gradient / Hessian == derivatives at the point, finite,
                   never increases, trial point inside the trust region, minimiser of strictly convex quadratics (cond <= 1e4)
                   within 200 steps; histories continue hundreds of steps past convergence, start at the minimiser, etc.
"""
import os, sys, re, math, random
from fractions import Fraction
sys.path.insert(0, os.path.dirname(os.path.abspath(__file__)))
from vlib import *

PID = "C10"
SRC = ["src/Algorithms/GradientDescent/AbstractLineSearchOptimizer.cpp", "src/Algorithms/GradientDescent/LineSearch.cpp",
       "src/Algorithms/GradientDescent/BFGS.cpp", "src/Algorithms/GradientDescent/LBFGS.cpp",
       "src/Algorithms/GradientDescent/CG.cpp", "src/Algorithms/GradientDescent/Rprop.cpp", "src/Core/Random.cpp"]
LS_OPTS = ("CG", "BFGS", "LBFGS", "SDLS")
LIB_LS = ("CG", "BFGS", "LBFGS")
TOL = 1e-9
CONV_TOL = 1e-4     # max-norm distance to the minimiser, relative to 1 + |x*|


def budget(opt, ls, cond, hist=100, n=1):
    """step budget for reaching the minimiser of a strictly convex quadratic (condition <= 1e4, n <= 6) to CONV_TOL.
    Observed on the unchanged tree (probes over 150-160 problems per configuration, accuracy 1e-6 resp. 1e-4):
    Dlinmin <= 40, WolfeCubic <= 60, BFGS / L-BFGS (history >= n) with backtracking <= 40 steps;
    L-BFGS with a history shorter than n: Dlinmin <= 20, WolfeCubic <= 620 at cond 1e4 (~0.06 cond);
    CG with backtracking and short-history L-BFGS with backtracking behave like restarted steepest descent:
    <= 31 * cond resp. > 0.4 * cond steps."""
    short = opt == "LBFGS" and hist < n
    if (opt == "CG" or short) and ls == 2:
        return int(100 * cond) + 200
    if short:
        return 200 + int(cond / 5)
    return 200


# ------------------------------------------------------------------ small linear algebra (no numpy in this environment)
def spd(rng, n, cond):
    lam = [math.exp(rng.uniform(0, math.log(cond))) if cond > 1 else 1.0 for _ in range(n)]
    lam[0] = 1.0
    if n > 1: lam[-1] = float(cond)
    A = [[lam[i] if i == j else 0.0 for j in range(n)] for i in range(n)]
    for _ in range(3 * n):
        if n < 2: break
        i, j = rng.sample(range(n), 2); th = rng.uniform(0, 2 * math.pi); c, s = math.cos(th), math.sin(th)
        for k in range(n):
            a, b = A[i][k], A[j][k]; A[i][k], A[j][k] = c * a - s * b, s * a + c * b
        for k in range(n):
            a, b = A[k][i], A[k][j]; A[k][i], A[k][j] = c * a - s * b, s * a + c * b
    for i in range(n):
        for j in range(i):
            A[i][j] = A[j][i] = 0.5 * (A[i][j] + A[j][i])
    return A

def solve(A, b):
    """exact solution of A x = b (entries are doubles or Fractions), as floats; None if singular"""
    n = len(b); M = [[Fraction(x) for x in r] + [Fraction(y)] for r, y in zip(A, b)]
    for i in range(n):
        p = max(range(i, n), key=lambda r: abs(M[r][i]))
        if M[p][i] == 0: return None
        M[i], M[p] = M[p], M[i]
        for r in range(n):
            if r != i and M[r][i] != 0:
                f = M[r][i] / M[i][i]; M[r] = [x - f * y for x, y in zip(M[r], M[i])]
    return [float(M[i][n] / M[i][i]) for i in range(n)]


# ------------------------------------------------------------------ case syntax
def fq(x):
    x = Fraction(x)
    return str(x.numerator) if x.denominator == 1 else "%d/%d" % (x.numerator, x.denominator)

def hx(v):
    return float(v).hex()

def header(opt, ls, kind, n, A, b, x0, params=(), lower=(), upper=(), fmt=fq):
    return "I %s %d %s %d | %s | %s | %s | %s | %s | %s" % (
        opt, ls, kind, n, " ".join(fmt(v) for v in A), " ".join(fmt(v) for v in b), " ".join(fmt(v) for v in x0),
        " ".join(fmt(v) for v in params), " ".join(fmt(v) for v in lower), " ".join(fmt(v) for v in upper))

def parse_header(l):
    g = [x.split() for x in l[2:].split("|")]
    def num(t):
        if "/" in t:
            a, b = t.split("/"); return float(Fraction(int(a), int(b)))
        try: return float(int(t))
        except ValueError: return float.fromhex(t) if "x" in t.lower() else float(t)
    n = int(g[0][3])
    return {"opt": g[0][0], "ls": int(g[0][1]), "kind": g[0][2], "n": n, "A": [num(t) for t in g[1]], "b": [num(t) for t in g[2]],
            "x0": [num(t) for t in g[3]], "params": [num(t) for t in g[4]], "lower": [num(t) for t in g[5]], "upper": [num(t) for t in g[6]]}


# ------------------------------------------------------------------ generators
DY = [Fraction(k, 4) for k in range(-16, 17)]

# optimizer histories on a LINEAR objective (quad with A = 0: f = -b'x, exact): before the repair 1272c59f of wolfecubic
# the first step read the bracket uninitialised; now every state must be finite, consistent and monotone
REGRESSION_HISTORIES = [
    ["I BFGS 1 quad 1 | 0 | 1 | 0 |  |  | ", "S", "S", "W", "S"],
    ["I BFGS 1 quad 2 | 0 0 0 0 | 1 -1/2 | 1/2 2 |  |  | ", "S", "S", "S"],
    ["I CG 1 quad 2 | 0 0 0 0 | 4 1 | 0 0 |  |  | ", "S", "S"],
    ["I LBFGS 1 quad 1 | 0 | 1/4 | 3 | 5 |  | ", "S", "S"],
]
# witnesses of Properties_C10.v that the real code must reproduce (checked in main, and replayed step by step by the model):
# default iRprop+ on x^2 + 2y^2 - x - y/2 from (4, -2), initial step size 4: values 21, 7, 89, 36 (C10_ex_irprop_plus_stale_step);
# Rprop on -x in the box [0, 1] with minDelta = maxDelta = 1: step size 1/2 after one step (C10_ex_rprop_box_delta_below_min_refuted)
WITNESS_HISTORIES = [
    (["I RPROP 0 quad 2 | 2 0 0 4 | 1 1/2 | 4 -2 | 1 1 1 4 |  | ", "S", "S", "S"], "val", [[21.0], [7.0], [89.0], [36.0]], "C10_ex_irprop_plus_stale_step"),
    (["I RPROP 0 boxquad 1 | 0 | 1 | 1/2 | 1 1 1 1 1 1 | 0 | 1", "S"], "delta", [[1.0], [0.5]], "C10_ex_rprop_box_delta_below_min_refuted"),
    # CG, Backtracking, indefinite quadratic: g'd after init (descent) and after the first step (ASCENT: 993005/48224), 1e-12
    (["I CG 2 quad 2 | -1 1/2 1/2 -1/2 | -3/2 1/2 | 1/2 -4 |  |  | ", "S"], "gd", [[-4.0625], [round(993005 / 48224, 9)]], "C10_ex_cg_ascent_direction_refuted"),
]

def gen_exact(rng):
    """dyadic strictly convex quadratic; with probability 0.7 the l1-norm of the first gradient is a power of two, so that
    the initial step length min(1, 1/|g|_1) and then every operation of the run is exact in binary floating point"""
    n = rng.choice([1, 2, 2, 3, 3, 4])
    off = [Fraction(0), Fraction(0), Fraction(1, 2), Fraction(-1, 2), Fraction(1, 4), Fraction(1), Fraction(-1)]
    A = [[Fraction(0)] * n for _ in range(n)]
    for i in range(n):
        for j in range(i):
            A[i][j] = A[j][i] = rng.choice(off)
    for i in range(n):
        A[i][i] = rng.choice([Fraction(1, 2), Fraction(1), Fraction(2), Fraction(3), Fraction(4), Fraction(3, 2), Fraction(8)]) + sum(abs(A[i][j]) for j in range(n) if j != i)
    x0 = [Fraction(rng.randint(-8, 8), 2) for _ in range(n)]
    if rng.random() < 0.7:
        T = rng.choice([Fraction(1, 2), Fraction(1), Fraction(2), Fraction(4), Fraction(8), Fraction(16)])
        units = int(T / Fraction(1, 4)); parts = [0] * n
        for _ in range(units): parts[rng.randrange(n)] += 1
        g0 = [Fraction(p, 4) * rng.choice([-1, 1]) for p in parts]
    else:
        g0 = [rng.choice(DY) for _ in range(n)]
    b = [sum(A[i][j] * x0[j] for j in range(n)) - g0[i] for i in range(n)]
    r = rng.random()
    box = r < 0.3
    if box:
        opt = rng.choice(["LBFGS", "SDLS", "SDLS"])
        w = [Fraction(0), Fraction(1, 4), Fraction(1, 2), Fraction(1), Fraction(2), Fraction(8)]
        lower = [x - rng.choice(w) for x in x0]; upper = [x + rng.choice(w) for x in x0]
    else:
        opt = rng.choice(["SDLS", "SDLS", "CG", "CG", "BFGS", "LBFGS", "SD"]); lower = upper = ()
    params = ()
    if opt == "SD": params = (rng.choice([Fraction(1, 8), Fraction(1, 4), Fraction(1, 16), Fraction(1, 32)]), rng.choice([Fraction(0), Fraction(1, 2), Fraction(1, 4)]))
    if opt == "LBFGS": params = (rng.choice([1, 2, 5]),)
    hd = header(opt, rng.choice([0, 1, 2]) if box else 2, "boxquad" if box else "quad", n, [v for r_ in A for v in r_], b, x0, params, lower, upper)
    k = rng.randint(2, 7)
    if opt == "CG": k = min(k, 5 if n <= 2 else 4 if n == 3 else 3)      # the exact rationals of the model square in size with every beta
    if opt == "LBFGS": k = min(k, 4 if n <= 2 else 3)                     # ... and with every stored pair of L-BFGS (the whole history is compared: pairs, m_bdiag, direction)
    if opt == "BFGS": k = min(k, 3 if n <= 2 else 2)                      # ... and with every update of the inverse Hessian (two updates: the second one starts from a non-identity matrix)
    ops = ["S"] * k
    if rng.random() < 0.7: ops.insert(rng.randint(0, k), "W")
    if rng.random() < 0.2: ops.insert(rng.randint(0, len(ops)), "W")
    return [hd] + ops

def gen_float(rng, big=False):
    """float-regime monitor case: all library classes, all line-search types, quadratics of bounded condition,
    Rosenbrock-type, box-constrained variants"""
    kind = rng.choice(["quad", "quad", "quad", "rosen", "boxquad", "boxquad", "boxrosen"])
    box = kind.startswith("box")
    opt = rng.choice(["LBFGS", "LBFGS", "RPROP"]) if box else rng.choice(["CG", "BFGS", "LBFGS", "SD", "ADAM", "RPROP", "CG", "BFGS", "LBFGS"])
    ls = rng.choice([0, 1, 2])
    conv = False; lower = upper = (); cond = 1.0
    if kind.endswith("quad"):
        n = rng.randint(1, 6); cond = rng.choice([1, 10, 100, 1e3] + ([1e4] if big else [])) if n > 1 else 1
        # CG / short-history L-BFGS with backtracking need ~cond * 30 steps: keep those runs affordable
        if opt in ("CG", "LBFGS") and ls == 2: cond = min(cond, 100 if not big else 1000 if rng.random() < 0.9 else 1e4)
        A = spd(rng, n, cond); b = [rng.gauss(0, 3) for _ in range(n)]; x0 = [rng.uniform(-3, 3) for _ in range(n)]
        Af = [v for r in A for v in r]; lmax = float(cond)
    else:
        n = rng.randint(2, 4); p = rng.choice([1.0, 10.0, 100.0])
        Af = [p] + [0.0] * (n * n - 1); b = [0.0] * n; x0 = [rng.uniform(-1.5, 1.5) for _ in range(n)]; lmax = 1200.0 * p
    if box:
        lower = [x - (0.0 if rng.random() < 0.2 else rng.uniform(0, 2)) for x in x0]
        upper = [x + (0.0 if rng.random() < 0.2 else rng.uniform(0.01, 2)) for x in x0]
    params = ()
    if opt == "SD": params = (rng.choice([0.1, 0.5, 0.9]) / lmax, rng.choice([0.0, 0.0, 0.5, 0.9]))
    if opt == "ADAM": params = (rng.choice([0.001, 0.01, 0.1]),)
    if opt == "RPROP": params = (rng.choice([0, 1]), rng.choice([0, 1]), rng.choice([0, 1]), rng.choice([0.01, 0.1, 0.5]))
    if opt == "LBFGS": params = (rng.choice([1, 2, 3, 5, 100]),)
    hd = header(opt, ls, kind, n, Af, b, x0, params, lower, upper, fmt=hx)
    ops = []
    ops += ["S"] * rng.randint(0, 4)
    if rng.random() < 0.8: ops.append("W")
    ops += ["S"] * rng.randint(1, 3)
    ops.append("R %d" % rng.randint(3, 40))
    if rng.random() < 0.3: ops += ["W", "R %d" % rng.randint(2, 20)]
    if kind == "quad" and opt in LIB_LS and rng.random() < (0.7 if not (opt == "CG" and ls == 2) else 0.4):
        done = sum(1 if o == "S" else int(o.split()[1]) if o.startswith("R") else 0 for o in ops)
        ops.append("R %d" % max(1, budget(opt, ls, 1.1 * cond, params[0] if opt == "LBFGS" else 100, n) - done))
    return [hd] + ops


# ------------------------------------------------------------------ output parsing
def fh(s):
    if s in ("nan", "-nan"): return float("nan")
    if s == "inf": return float("inf")
    if s == "-inf": return float("-inf")
    return float.fromhex(s)

def kv(line):
    return dict(t.split("=", 1) for t in line.split() if "=" in t)

def fvec(s):
    return [fh(x) for x in s.split(",")] if s else []

def same_bits(a, b):
    """bitwise equality of two doubles given as C %a strings (0 and -0 count as equal values)"""
    if a == b: return True
    x, y = fh(a), fh(b)
    return x == y

def same_vec(a, b):
    xa, xb = a.split(","), b.split(",")
    return len(xa) == len(xb) and all(same_bits(p, q) for p, q in zip(xa, xb))

def steps_of(op):
    return 1 if op == "S" else int(op.split()[1]) if op.startswith("R") else 0


# ------------------------------------------------------------------ the spec monitor (implementation output only)
def monitor(case, out):
    """returns list of (key, message); key = predicate + call site + input shape"""
    h = parse_header(case[0]); opt, ls, kind, n = h["opt"], h["ls"], h["kind"], h["n"]
    box = kind.startswith("box"); lsopt = opt in LS_OPTS
    shape = "%s:%s:%s" % (opt, ("ls%d" % (2 if box else ls)) if lsopt else "-", kind)
    bad = []
    def fail(pred, idx, msg):
        # save/restore defects are per class (member lists); the other predicates are keyed by class + line search + objective
        key = "monitor:%s:%s" % (pred, opt if pred.startswith("saverestore") else shape)
        bad.append((key, "line %d `%s` of %s n=%d: %s" % (idx, case[idx] if idx else "I ...", shape, n, msg)))
    prev = None; restored = False; total = 0
    for idx, (l, o) in enumerate(zip(case, out)):
        if o.startswith("EXC"):
            if l == "W" and "fresh-instance-warmup" in o:
                fail("exception-internal-error" if "internal_error" in o else "exception", idx, "init/step of the fresh instance (other start %s) threw: %s" % ("inside the box" if box else "x0/2+1", o[4:200]))
            elif l == "W":
                pd = kv(out[idx - 1]) if idx else {}
                nanf = [k for k in ("pt", "val", "der", "sdir", "step", "lval") if k in pd and "nan" in pd[k]]
                fail("saverestore-exception" + ("-nan-" + "-".join(nanf) if nanf else ""), idx, "write()/read() of the optimizer state threw: %s%s" % (o[4:200], ("; the state before the save holds NaN in " + ",".join(nanf)) if nanf else ""))
            else:
                fail("exception-internal-error" if "internal_error" in o else "exception", idx, "the library threw: " + o[4:200])
            break
        if o in ("?", "BADLINE"):
            fail("harness", idx, "harness could not read the line"); break
        d = kv(o)
        if "pt" not in d:
            fail("harness", idx, "no state printed"); break
        total += steps_of(l)
        if not same_bits(d["val"], d["reval"]):
            fail("value-consistent", idx, "reported value %s != objective at the reported point %s (%r vs %r)" % (d["val"], d["reval"], fh(d["val"]), fh(d["reval"])))
        if "reder" in d and not same_vec(d["der"], d["reder"]):
            fail("derivative-consistent", idx, "stored derivative %s != gradient at the reported point %s" % (fvec(d["der"]), fvec(d["reder"])))
        if d["fin"] != "1":
            fail("finite", idx, "reported point/value not finite: %s / %s" % (d["pt"], d["val"]))
        if box and opt != "SDLS" and d["feas"] != "1":
            fail("feasible", idx, "reported point %s is outside the box [%s, %s]" % (fvec(d["pt"]), h["lower"], h["upper"]))
        v = fh(d["val"])
        if lsopt and prev is not None and l[0] in "SR" and not (v <= prev):
            fail("monotone", idx, "line-search step increased the objective: %r -> %r" % (prev, v))
        if l.startswith("R"):
            if lsopt and fh(d["maxinc"]) > 0:
                fail("monotone", idx, "line-search step %s of this block increased the objective by %r" % (d["incat"], fh(d["maxinc"])))
            if d["ncons"] != "0":
                fail("value-consistent", idx, "%s steps of this block (first: %s) report a value different from the objective at the reported point" % (d["ncons"], d["consat"]))
            if box and opt != "SDLS" and d["nfeas"] != "0":
                fail("feasible", idx, "%s steps of this block (first: %s) report an infeasible point" % (d["nfeas"], d["feasat"]))
            if d["nfin"] != "0":
                fail("finite", idx, "%s steps of this block report non-finite point/value" % d["nfin"])
            if restored and d["ndiff"] != "0":
                fail("saverestore-continue", idx, "restored instance and original differ in %s steps of this block, first at step %s" % (d["ndiff"], d["diffat"]))
        if l == "W":
            restored = True
            for k in sorted(d):
                if k.startswith("B") and k[1:] in d and k[1:] not in ("reval", "reder", "feas", "fin"):
                    eq = same_vec(d[k], d[k[1:]]) if k[1:] not in ("lstype", "cnt") else d[k] == d[k[1:]]
                    # members that init leaves uninitialised are written and read back all the same
                    if not eq:
                        fail("saverestore-state", idx, "after read(): %s of the restored instance = %s, of the saved one = %s" % (k[1:], d[k], d[k[1:]])); break
        elif restored and l[0] in "SR" and "Bpt" in d:
            if not (same_vec(d["Bpt"], d["pt"]) and same_bits(d["Bval"], d["val"])):
                fail("saverestore-continue", idx, "restored instance continues at %s (value %r), the saved one at %s (value %r)" % (fvec(d["Bpt"]), fh(d["Bval"]), fvec(d["pt"]), v))
        prev = v
        if bad: break
    if not bad and kind == "quad" and opt in LIB_LS and len(out) == len(case) and out:
        A = [h["A"][i * n:(i + 1) * n] for i in range(n)]
        cond = cond_of(case[0], A)
        hist = h["params"][0] if opt == "LBFGS" and h["params"] else 100
        bud = budget(opt, ls, cond, hist, n) if math.isfinite(cond) else None      # indefinite quadratics (L-BFGS case splits): no minimiser
        if bud is not None and total >= bud:
            xs = solve(A, h["b"]); pt = fvec(kv(out[-1])["pt"])
            err = max(abs(a - b) for a, b in zip(pt, xs)); ref = 1 + max(abs(x) for x in xs)
            if not (err <= CONV_TOL * ref):
                bad.append(("monitor:converge:%s" % shape, "%s n=%d cond=%g: after %d steps (budget %d) |x - x*|_inf = %.3g > %g * (1 + |x*|_inf)" % (shape, n, cond, total, bud, err, CONV_TOL)))
    return bad

def eigs(A):
    """eigenvalues of a symmetric matrix (cyclic Jacobi iteration)"""
    n = len(A); M = [list(r) for r in A]
    for _ in range(60):
        offd = sum(M[i][j] ** 2 for i in range(n) for j in range(n) if i != j)
        if offd <= 1e-28 * sum(M[i][i] ** 2 for i in range(n)): break
        for p in range(n):
            for q in range(p + 1, n):
                if M[p][q] == 0.0: continue
                th = 0.5 * math.atan2(2 * M[p][q], M[q][q] - M[p][p]); c, s_ = math.cos(th), math.sin(th)
                for k in range(n):
                    a, b = M[k][p], M[k][q]; M[k][p], M[k][q] = c * a - s_ * b, s_ * a + c * b
                for k in range(n):
                    a, b = M[p][k], M[q][k]; M[p][k], M[q][k] = c * a - s_ * b, s_ * a + c * b
    return [M[i][i] for i in range(n)]

_COND = {}
def cond_of(hd, A):
    """condition number of a symmetric positive definite matrix (cyclic Jacobi eigenvalue iteration), cached per header"""
    if hd in _COND: return _COND[hd]
    n = len(A); M = [list(r) for r in A]
    for _ in range(60):
        offd = sum(M[i][j] ** 2 for i in range(n) for j in range(n) if i != j)
        if offd <= 1e-28 * sum(M[i][i] ** 2 for i in range(n)): break
        for p in range(n):
            for q in range(p + 1, n):
                if M[p][q] == 0.0: continue
                th = 0.5 * math.atan2(2 * M[p][q], M[q][q] - M[p][p]); c, s_ = math.cos(th), math.sin(th)
                for k in range(n):
                    a, b = M[k][p], M[k][q]; M[k][p], M[k][q] = c * a - s_ * b, s_ * a + c * b
                for k in range(n):
                    a, b = M[p][k], M[q][k]; M[p][k], M[q][k] = c * a - s_ * b, s_ * a + c * b
    ev = [M[i][i] for i in range(n)]
    _COND[hd] = max(ev) / min(ev) if min(ev) > 0 else float("inf")
    return _COND[hd]


# ------------------------------------------------------------------ model vs implementation
def qfrac(s):
    a, b = s.split("/")
    return Fraction(int(a, 16), int(b, 16))

def is_double(p):
    """is the rational p exactly representable as a (normal, finite) IEEE double?"""
    try: f = float(p)
    except OverflowError: return False
    return math.isfinite(f) and Fraction(f) == p

def EXACT_ULPS(n):
    """bound (in ulps of the implementation's value) for a non-representable model value in the exact regime: m_bdiag = y'y / y's,
    2 inner products of n terms (2n - 1 operations each) and 1 division, half an ulp each, rounded up"""
    return 2 * n + 1

def compare(case, mo, io, stats):
    """None if the model's lines agree with the implementation's, else a message.  Exact while the harness reports ex=1."""
    stepped = False
    for idx, (l, a, b) in enumerate(zip(case, mo, io)):
        if l[0] in "SR": stepped = True
        if a == "-" or a == "?": continue
        if a == "RESTOREFAIL": return "line %d: model restore failed" % idx
        if b.startswith("EXC"): return "line %d: implementation threw, model has a state" % idx
        da, db = kv(a), kv(b)
        exact = db.get("ex") == "1"
        # inexact regime at / next to the minimiser: only the continuous quantities are determined by the exact model
        # (the direction rules branch on gg == 0 and on a divisor threshold)
        degenerate = (not exact) and "der" in da and max(abs(float(qfrac(t))) for t in da["der"].split(",")) ** 2 <= 1e-9 * max(1.0, abs(float(qfrac(da["val"]))))
        for k, va in da.items():
            if degenerate and k not in ("pt", "val", "der"): continue
            if not stepped and k in ("lpt", "lder", "lval"): continue      # left uninitialised by init()
            if k not in db: return "line %d: implementation prints no %s" % (idx, k)
            if k in ("cnt", "lstype", "hk", "nh"):
                if va != db[k]: return "line %d: %s model %s, implementation %s" % (idx, {"cnt": "CG counter", "lstype": "line-search type", "hk": "L-BFGS history length", "nh": "L-BFGS m_numHist"}[k], va, db[k])
                continue
            xa = [qfrac(t) for t in va.split(",")] if va else []
            xb = fvec(db[k])
            if len(xa) != len(xb): return "line %d: %s has %d entries in the model, %d in the implementation" % (idx, k, len(xa), len(xb))
            if exact:
                # exact regime: a model value that IS a double must be hit exactly.  A model value that is not representable
                # (only m_bdiag = y'y / y's of L-BFGS gets here: it is not part of the harness' mantissa watch, every other
                # number of such a line is a short dyadic) must be the rounded model value up to EXACT_ULPS(n) ulps: the two
                # inner products (n products + n - 1 additions each, exact for the short dyadic operands of this regime but
                # bounded as if each rounded) and the one division of that path
                nd = max(1, len(da.get("pt", "").split(",")))
                for p, q in zip(xa, xb):
                    if math.isnan(q) or math.isinf(q): return "line %d `%s` (exact regime): %s model %s, implementation %r" % (idx, l[:20], k, p, q)
                    if is_double(p):
                        if Fraction(q) != p: return "line %d `%s` (exact regime): %s model %s = %r, implementation %r" % (idx, l[:20], k, p, float(p), q)
                    else:
                        if k != "bdiag" or abs(Fraction(q) - p) > EXACT_ULPS(nd) * Fraction(math.ulp(q)):
                            return "line %d `%s` (exact regime): %s model %s = %r is not a double, implementation %r differs by more than %d ulps" % (idx, l[:20], k, p, float(p), q, EXACT_ULPS(nd))
                        stats["exact_regime_rounded_values"] = stats.get("exact_regime_rounded_values", 0) + 1
            else:
                sc = max([1.0] + [abs(float(p)) for p in xa])
                for p, q in zip(xa, xb):
                    if not abs(float(p) - q) <= TOL * sc:
                        return "line %d `%s`: %s model %r, implementation %r (tolerance %g * %g)" % (idx, l[:20], k, float(p), q, TOL, sc)
        stats["exact" if exact else "tol"] += 1
        if degenerate:
            # the decrease tested by the Armijo condition (~ |gradient|^2) is within reach of the rounding noise of the
            # objective (~1e-16 |value|): the accepted step length is no longer determined by the exact model
            stats["stopped_near_minimiser"] = stats.get("stopped_near_minimiser", 0) + 1
            return None
        if "der" in da and all(qfrac(t) == 0 for t in da["der"].split(",")):
            # the model sits on the exact minimiser (zero gradient): from here on the Armijo test of the C++ compares
            # values that differ by rounding noise only, so its branches are no longer determined by the exact model
            stats["stopped_at_minimiser"] = stats.get("stopped_at_minimiser", 0) + 1
            return None
    return None



# ------------------------------------------------------------------ single line-search calls on the hooked objective
LS_NAME = {0: "dlinmin", 1: "wolfecubic", 2: "backtracking"}

def me(x):
    """double -> 'm@e' (m * 2^e, exact), the number syntax of the model driver for arbitrary doubles"""
    x = float(x)
    if x == 0: return "0@0"
    m, e = math.frexp(x); m = int(m * (1 << 53)); e -= 53
    while m % 2 == 0: m //= 2; e += 1
    return "%d@%d" % (m, e)

def gen_ls(rng, big=False):
    """L line: one LineSearch::operator() call.  point[i] = 0 wherever d[i] != 0 and d[i] = +-2^k, so that every evaluated
    point p + t*d is computed without rounding: the model (exact rationals) sees the very same points"""
    ls = rng.choice([0, 1, 1, 1, 2]); n = rng.randint(1, 4)
    while True:
        d = [rng.choice([Fraction(0), Fraction(1, 2), Fraction(1), Fraction(2), Fraction(4), Fraction(-1, 2), Fraction(-1), Fraction(-2)]) for _ in range(n)]
        if any(d): break
    point = [Fraction(0) if di else Fraction(rng.randint(-8, 8), 4) for di in d]
    t0 = rng.choice([Fraction(1), Fraction(1), Fraction(1, 2), Fraction(1, 4), Fraction(1, 8), Fraction(2), Fraction(1, 64)])
    if rng.random() < 0.03: t0 = Fraction(0)
    if rng.random() < 0.7: fk, slope, thr = "H", Fraction(1), Fraction(0)
    else: fk, slope, thr = "M", rng.choice([Fraction(1, 4), Fraction(1), Fraction(4)]), rng.choice([Fraction(1, 2), Fraction(5), Fraction(50), Fraction(5000), Fraction(10) ** 7])
    seed = rng.randint(1, 10 ** 6)
    if rng.random() < 0.8: val, g = "auto", "auto"
    else: val, g = fq(Fraction(rng.randint(-64, 64), 16)), " ".join(fq(Fraction(rng.randint(-16, 16), 8)) for _ in range(n))
    return "L %d %d %s %d %s %s | %s | %s | %s | %s | %s" % (ls, n, fk, seed, fq(slope), fq(thr), " ".join(fq(v) for v in point), " ".join(fq(v) for v in d), fq(t0), val, g)

def ls_model_line(line, out):
    """the model's input: the harness line + the values it started from + the ORACLE read from the evaluation log"""
    d = kv(out); g = [x.strip() for x in line[2:].split("|")]
    ls = int(g[0].split()[0])
    log = [(t.split(":")[0], fh(t.split(":")[1])) for t in d["log"].split(",")] if d.get("log") else []      # kind:t:value:gtd
    wl, x0, us = [], [], []
    if ls == 1: wl = [t for k, t in log if k == "D"]
    if ls == 0:
        fd = next((i for i, (k, _) in enumerate(log) if k == "D"), None)
        if fd is not None:
            x0 = [log[fd][1]]; us = [t for k, t in log[fd + 1:] if k == "E"]
    h = g[0].split(); h[4] = me(float(Fraction(h[4]))); h[5] = me(float(Fraction(h[5]))); g[0] = " ".join(h)
    return "L %s | %s | %s | %s | %s | %s | %s | %s | %s" % (g[0], g[1], g[2], g[3], me(fh(d["val0"])), " ".join(me(v) for v in fvec(d["g0"])),
                                                         " ".join(me(t) for t in wl), " ".join(me(t) for t in x0), " ".join(me(t) for t in us))

def judge_ls(line, out, mout):
    """(monitor messages [(key, msg)], correspondence difference or None, class)"""
    g = [x.strip() for x in line[2:].split("|")]; ls = int(g[0].split()[0]); name = LS_NAME.get(ls, str(ls))
    if out.startswith("EXC") or out in ("?", "BADLINE"): return [("monitor:ls-exception:" + name, "line search threw / unreadable: " + out[:200])], None, "exc"
    d = kv(out)
    if d["nf"] == "1": return [], None, "nonfinite"
    if g[0].split()[2] == "P":
        # floating-point objective: only the observation that the search went backwards along a descent direction
        j = next(i for i, t in enumerate(g[2].split()) if Fraction(t) != 0)
        tnew = fvec(d["pt"])[j] / float(Fraction(g[2].split()[j])); gtd0 = sum(a * float(Fraction(b)) for a, b in zip(fvec(d["g0"]), g[2].split()))
        return [], None, ("backward-step-along-descent-direction" if tnew < 0 and gtd0 < 0 else "float-objective")
    mon = []
    auto = g[4] == "auto" and g[5] == "auto"
    dd = [float(Fraction(t)) for t in g[2].split()]; t0 = float(Fraction(g[3]))
    gtd = sum(a * b for a, b in zip(fvec(d["g0"]), dd))
    if d["ub"] == "1":
        mon.append(("monitor:ls-uninitialised-read:" + name, "the result depends on the previous contents of the stack: after filling it with 0xFF bytes point=%s value=%r derivative=%s, after filling it with -1e300: point=%s value=%r derivative=%s (evaluations: %d)" % (
            fvec(d["pt"]), fh(d["val"]), fvec(d["der"]), fvec(d.get("pt2", "")), fh(d["val2"]) if d.get("val2") else None, fvec(d.get("der2", "")), d["log"].count(",") + 1)))
    if auto or ls == 0:
        if not same_bits(d["val"], d["reval"]): mon.append(("monitor:ls-value-consistent:" + name, "value %r != objective at the new point %r" % (fh(d["val"]), fh(d["reval"]))))
        if auto and not same_vec(d["der"], d["reder"]): mon.append(("monitor:ls-derivative-consistent:" + name, "derivative %s != gradient at the new point %s" % (fvec(d["der"]), fvec(d["reder"]))))
    if auto and (ls == 0 or (gtd <= 0 and t0 >= 0)) and not fh(d["val"]) <= fh(d["val0"]):
        mon.append(("monitor:ls-monotone:" + name, "value increased %r -> %r along a non-ascent direction" % (fh(d["val0"]), fh(d["val"]))))
    if mout == "UNDEF": return mon, None, "undefined"
    if mon: return mon, None, "monitor"
    # the two comparisons of the library that involve an always-inexact product (c1*t*gtd, c2*gtd): where the rounded
    # and the exact evaluation decide differently the exact model cannot follow the code (ties of the few-valued objective)
    if ls in (1, 2):
        C1, C2 = Fraction(1e-4), Fraction(0.9); v0 = fh(d["val0"])
        for t_ in d["log"].split(","):
            k_, tt, ff, gg = t_.split(":"); tt, ff, gg = fh(tt), fh(ff), fh(gg)
            rhs_f = v0 + 1e-4 * tt * gtd; rhs_q = Fraction(v0) + C1 * Fraction(tt) * Fraction(gtd)
            if (ff < rhs_f) != (Fraction(ff) < rhs_q) or (ff > rhs_f) != (Fraction(ff) > rhs_q): return mon, None, "rounding-sensitive"
            if ls == 1 and (abs(gg) <= -0.9 * gtd) != (abs(Fraction(gg)) <= -C2 * Fraction(gtd)): return mon, None, "rounding-sensitive"
    m = kv(mout)
    if "pt" not in m: return mon, "model printed `%s`" % mout[:100], "diff"
    if m.get("flags"): return mon, "oracle replay: " + m["flags"], "diff"
    for k in ("pt", "val", "der"):
        xa = [qfrac(t) for t in m[k].split(",")] if m[k] else []; xb = fvec(d[k])
        if len(xa) != len(xb) or any(math.isnan(q) or math.isinf(q) or Fraction(q) != p_ for p_, q in zip(xa, xb)):
            return mon, "%s: model %s, implementation %s" % (k, [float(x) for x in xa], xb), "diff"
    return mon, None, "exact"

# ------------------------------------------------------------------ one-step replays from the implementation's own previous state
REPLAY_TOL = 1e-10

def gen_lbfgs(rng, big=False):
    """L-BFGS histories for the case splits of updateHist / multBInv / getBoxConstrainedDirection: history shorter than,
    equal to and longer than the memory; y's tiny (objective scaled by 2^-k so that y's crosses the 1e-10 threshold) or
    negative (indefinite quadratic); small boxes with the start on a bound (fixed coordinates, Cauchy and dog-leg branch)"""
    stream = rng.choice(["memory", "memory", "tiny", "negative", "box", "box", "box", "boxrosen"])
    n = rng.randint(2, 6); hist = rng.choice([1, 2, 3, 5]); ls = rng.choice([0, 1, 2]); lower = upper = ()
    kind = "quad"
    if stream == "boxrosen":
        kind = "boxrosen"; n = rng.randint(2, 4); p_ = rng.choice([1.0, 10.0, 100.0]); Af = [p_] + [0.0] * (n * n - 1); b = [0.0] * n
        x0 = [rng.uniform(-1.5, 1.5) for _ in range(n)]
    else:
        A = spd(rng, n, rng.choice([1, 10, 100])); b = [rng.gauss(0, 3) for _ in range(n)]; x0 = [rng.uniform(-3, 3) for _ in range(n)]
        if stream == "tiny":
            c = 2.0 ** -rng.randint(8, 16); A = [[v * c for v in r] for r in A]; b = [v * c for v in b]
        if stream == "negative":
            j = rng.randrange(n); lam = -rng.choice([0.25, 1.0, 3.0]); ls = 2
            for i in range(n): A[i][j] = A[j][i] = 0.0
            A[j][j] = lam
        Af = [v for r in A for v in r]
        if stream == "box": kind = "boxquad"
    if kind.startswith("box"):
        lower = [x - (0.0 if rng.random() < 0.3 else rng.uniform(0, 1.5)) for x in x0]
        upper = [x + (0.0 if rng.random() < 0.3 else rng.uniform(0.01, 1.5)) for x in x0]
    hd = header("LBFGS", ls, kind, n, Af, b, x0, (hist,), lower, upper, fmt=hx)
    k = hist + rng.randint(1, 4) if stream != "negative" else rng.randint(2, 4)
    ops = ["S"] * k
    if rng.random() < 0.4: ops.insert(rng.randint(1, k), "W")
    return [hd] + ops

def gen_rprop(rng, big=False):
    """Rprop / Adam histories of single steps (every step is replayed by the model).  Rprop case splits: the four variants
    (freezing / backtracking / old-value flags), sign changes of the partial derivatives (large initial step size on a
    quadratic: overshoots), step-size clamps (minDelta / maxDelta next to the initial step size), box-constrained
    objectives with the start on a bound (infeasible candidate steps)"""
    if rng.random() < 0.25:
        kind = rng.choice(["quad", "rosen"]); opt = "ADAM"
    else:
        kind = rng.choice(["quad", "quad", "rosen", "boxquad", "boxquad", "boxrosen"]); opt = "RPROP"
    box = kind.startswith("box"); lower = upper = ()
    if kind.endswith("quad"):
        n = rng.randint(1, 5); A = spd(rng, n, rng.choice([1, 10, 100])); b = [rng.gauss(0, 3) for _ in range(n)]; x0 = [rng.uniform(-3, 3) for _ in range(n)]
        Af = [v for r in A for v in r]
    else:
        n = rng.randint(2, 4); p_ = rng.choice([1.0, 10.0, 100.0]); Af = [p_] + [0.0] * (n * n - 1); b = [0.0] * n; x0 = [rng.uniform(-1.5, 1.5) for _ in range(n)]
    if box:
        lower = [x - (0.0 if rng.random() < 0.3 else rng.uniform(0, 1.0)) for x in x0]
        upper = [x + (0.0 if rng.random() < 0.3 else rng.uniform(0.01, 1.0)) for x in x0]
    if opt == "ADAM": params = (rng.choice([0.001, 0.01, 0.1, 0.5]),)
    else:
        variant = rng.choice([(0, 0, 0), (1, 0, 0), (1, 1, 0), (1, 1, 1), (1, 1, 1), (0, 1, 1), (0, 1, 0)])      # Rprop-, iRprop-, Rprop+, iRprop+ (default), two unnamed combinations
        d0 = rng.choice([0.01, 0.1, 0.5, 1.0, 2.0])
        params = variant + (d0,)
        if rng.random() < 0.5: params += (d0 * rng.choice([1.0, 0.5, 0.25, 0.01]), d0 * rng.choice([1.0, 1.2, 1.5, 2.0, 100.0]))
    hd = header(opt, 0, kind, n, Af, b, x0, params, lower, upper, fmt=hx)
    k = rng.randint(4, 14)
    ops = ["S"] * k
    if rng.random() < 0.4: ops.insert(rng.randint(1, k), "W")
    return [hd] + ops

def build_replays(cases, io):
    """[(case index, line index, model line, previous state, new state)] for every single step S of an L-BFGS history
    whose predecessor printed a state: the step is replayed by the model's updateHist + direction rule from the
    IMPLEMENTATION's own previous history; y and s are recomputed here with the same two floating-point subtractions"""
    reps = []
    for ci, c in enumerate(cases[:len(io)]):      # (the search after a broken correspondence appends cases that were run separately)
        t = c[0].split()
        if t[0] != "I" or t[1] not in ("LBFGS", "ADAM", "RPROP"): continue
        out, rc, _ = io[ci]
        h = None
        for idx in range(1, min(len(c), len(out))):
            if c[idx] != "S" or out[idx].startswith("EXC") or out[idx - 1].startswith("EXC"): continue
            pre, post = kv(out[idx - 1]), kv(out[idx])
            if t[1] in ("ADAM", "RPROP"):
                if ("m1" if t[1] == "ADAM" else "delta") not in pre or pre.get("fin") != "1" or post.get("fin") != "1" or "nan" in out[idx]: continue
                if h is None: h = parse_header(c[0])
                H = lambda k_: " ".join(hx(v) for v in fvec(k_))
                if t[1] == "ADAM":
                    line = "A %d | %s | %s | %s | %s | %s | %s %s %s %s | %s | %s" % (h["n"], H(pre["m1"]), H(pre["m2"]), pre["cnt"], H(pre["der"]), H(pre["pt"]),
                                                                              pre["b1"], pre["b2"], pre["eps"], pre["eta"], post["val"], H(post["der"]))
                else:
                    box = h["kind"].startswith("box")
                    line = "P %d %d | %s | %s | %s | %s | %s %s %s %s | %s | %s | %s | %s %s %s | %s | %s | %s | %s" % (
                        h["n"], 1 if box else 0, H(pre["delta"]), H(pre["deltaw"]), H(pre["oder"]), pre["oval"], pre["inc"], pre["dec"], pre["dmax"], pre["dmin"],
                        H(pre["pt"]), pre["val"], H(pre["der"]), pre["frz"], pre["bt"], pre["ov"],
                        " ".join(hx(v) for v in h["lower"]) if box else "", " ".join(hx(v) for v in h["upper"]) if box else "", post["val"], H(post["der"]))
                prev2 = kv(out[idx - 2]) if idx >= 2 and c[idx - 1] == "S" and not out[idx - 2].startswith("EXC") else None
                reps.append((ci, idx, line, pre, post, (t[1], h, prev2)))
                continue
            if "hs" not in pre or "hs" not in post or pre.get("fin") != "1" or post.get("fin") != "1": continue
            if h is None: h = parse_header(c[0])
            n = h["n"]; box = h["kind"].startswith("box")
            g = fvec(post["der"]); y = [a - b_ for a, b_ in zip(g, fvec(post["lder"]))]; st = [a - b_ for a, b_ in zip(fvec(post["pt"]), fvec(post["lpt"]))]
            if not all(math.isfinite(v) for v in g + y + st): continue
            M = lambda vs: " ".join(hx(v) for v in vs)
            line = "B %d %s %d | %s %s | %s | %s | %s | %s | %s | %s | %s | %s" % (
                n, pre["nh"], 1 if box else 0, hx(fh(pre["bdiag"])), hx(fh(pre["thres"])), M(fvec(pre["hs"])), M(fvec(pre["hy"])),
                M(y), M(st), M(g), M(h["lower"]) if box else "", M(h["upper"]) if box else "", M(fvec(post["pt"])) if box else "")
            reps.append((ci, idx, line, pre, post, (y, st, g, h)))
    return reps

def judge_lbfgs_replay(mout, pre, post, aux):
    """(class, difference or None, monitor messages).  Monitor (implementation only): the stored direction is a descent
    direction (g'd < 0 unless the gradient vanishes; box: g'd <= 0) and, with a box, point + direction is feasible."""
    y, st, g, h = aux
    d_impl = fvec(post["sdir"]); mon = []
    gd = sum(Fraction(a) * Fraction(b_) for a, b_ in zip(g, d_impl)); box = h["kind"].startswith("box")
    gmax = max([abs(v) for v in g] + [0.0])
    if gd > 0 or (not box and gd == 0 and gmax > 0):
        mon.append(("monitor:lbfgs-descent:" + ("box" if box else "free"), "the L-BFGS direction %s is not a descent direction at gradient %s: g'd = %r" % (d_impl, g, float(gd))))
    if box:
        x = fvec(post["pt"])
        for i in range(len(x)):
            if x[i] + d_impl[i] + 1e-13 < h["lower"][i] or x[i] + d_impl[i] - 1e-13 > h["upper"][i]:
                mon.append(("monitor:lbfgs-box-direction", "point + direction leaves the box in coordinate %d: %r + %r not in [%r, %r]" % (i, x[i], d_impl[i], h["lower"][i], h["upper"][i]))); break
    m = kv(mout)
    if "dir" not in m: return "diff", "model printed `%s`" % mout[:100], mon
    ys = sum(Fraction(a) * Fraction(b_) for a, b_ in zip(y, st)); thres = Fraction(fh(pre["thres"]))
    noise = sum(abs(Fraction(a) * Fraction(b_)) for a, b_ in zip(y, st)) * Fraction(1, 10 ** 13)
    if abs(ys - thres) <= noise: return "threshold-rounding-sensitive", None, mon
    nh, k0, k1 = int(pre["nh"]), int(pre["hk"]), int(m["hk"])
    cls = (("stored-" + ("history-short" if k1 < nh else "history-reaches-memory" if k0 < nh else "oldest-dropped")) if m["stored"] == "1"
           else "skipped-tiny" if ys > 0 else "skipped-nonpositive") + "/" + m["branch"]
    if m["hk"] != post["hk"] or post["hk"] != post["hky"]: return cls, "history length: model %s, implementation %s (steps) / %s (gradient differences)" % (m["hk"], post["hk"], post["hky"]), mon
    if m["nh"] != post["nh"]: return cls, "m_numHist: model %s, implementation %s" % (m["nh"], post["nh"]), mon
    for k in ("hs", "hy"):
        xa = fvec(m[k]); xb = fvec(post[k])
        if len(xa) != len(xb) or any(p_ != q for p_, q in zip(xa, xb)):
            return cls, "history %s: model %s, implementation %s" % (k, xa, xb), mon
    bm, bi = fh(m["bdiag"]), fh(post["bdiag"])
    if not abs(bm - bi) <= REPLAY_TOL * abs(bm): return cls, "m_bdiag: model %r, implementation %r" % (bm, bi), mon
    dm = fvec(m["dir"])
    if len(dm) != len(d_impl): return cls, "direction has %d entries in the model, %d in the implementation" % (len(dm), len(d_impl)), mon
    # scale of the rounding errors of the two-loop recursion: the largest entry of the result and of the input scaled by 1/bdiag
    sc = max([abs(float(v)) for v in dm] + [gmax / abs(bm) if bm else 0.0])
    err = max([abs(float(p_) - q) for p_, q in zip(dm, d_impl)] + [0.0])
    if not err <= REPLAY_TOL * sc: return cls, "direction: model %s, implementation %s (max difference %.3g > %g * %.3g)" % ([float(v) for v in dm], d_impl, err, REPLAY_TOL, sc), mon
    return cls, None, mon

def vec_close(a, b, tol=REPLAY_TOL):
    """(bitwise equal, within tol relative to the largest entry)"""
    if len(a) != len(b): return False, False
    bit = all(x == y or (x != x and y != y) for x, y in zip(a, b))
    sc = max([abs(x) for x in a] + [1e-300])
    return bit, all(abs(x - y) <= tol * sc for x, y in zip(a, b))

def judge_adam_replay(mout, pre, post, aux):
    m = kv(mout); mon = []
    if "pt" not in m: return "diff", "model printed `%s`" % mout[:100], mon
    if m["cnt"] != post["cnt"]: return "adam", "m_counter: model %s, implementation %s" % (m["cnt"], post["cnt"]), mon
    if any(v < 0 for v in fvec(post["m2"])): mon.append(("monitor:adam-second-moment-negative", "second moment estimate %s has a negative entry" % fvec(post["m2"])))
    allbit = True
    for k_, name in (("m1", "m_avgGrad"), ("m2", "m_secondMoment"), ("pt", "point")):
        bit, close = vec_close(fvec(m[k_]), fvec(post[k_])); allbit = allbit and bit
        if not close: return "adam", "%s: model %s, implementation %s" % (name, fvec(m[k_]), fvec(post[k_])), mon
    return "adam/" + ("bitwise" if allbit else "1e-10"), None, mon

def judge_rprop_replay(mout, pre, post, aux):
    """Monitor (implementation only): step sizes positive; within [minDelta, maxDelta] on unconstrained objectives when they
    started there; iRprop+ (all three flags, unconstrained): after a step that increased the value every coordinate whose
    partial derivative changed sign is back at its previous position."""
    opt, h, prev2 = aux; m = kv(mout); mon = []
    box = h["kind"].startswith("box")
    delta = fvec(post["delta"]); dmin, dmax = fh(post["dmin"]), fh(post["dmax"])
    variant = {"000": "Rprop-", "100": "iRprop-", "110": "Rprop+", "111": "iRprop+"}.get(pre["frz"] + pre["bt"] + pre["ov"], "flags" + pre["frz"] + pre["bt"] + pre["ov"])
    if any(not d > 0 for d in delta): mon.append(("monitor:rprop-delta-positive", "step sizes %s are not all positive" % delta))
    start_in = all(dmin <= d <= dmax for d in fvec(pre["delta"]))
    obs = ""
    if start_in and any(not (dmin <= d <= dmax) for d in delta):
        if box: obs = "/delta-below-minDelta-after-infeasible-step"
        else: mon.append(("monitor:rprop-delta-range", "step sizes %s left [minDelta, maxDelta] = [%r, %r] (before the step: %s)" % (delta, dmin, dmax, fvec(pre["delta"]))))
    if variant == "iRprop+" and not box and prev2 is not None and fh(pre["val"]) > fh(prev2["val"]):
        g, og = fvec(pre["der"]), fvec(pre["oder"]); p0, p2 = fvec(prev2["pt"]), fvec(post["pt"])
        for i in range(len(g)):
            if g[i] * og[i] < 0 and not abs(p2[i] - p0[i]) <= 1e-12 * max(1.0, abs(p0[i])):
                mon.append(("monitor:irprop-plus-undo", "the step before increased the value (%r -> %r) and the partial derivative %d changed sign, but the coordinate is at %r instead of back at %r" % (fh(prev2["val"]), fh(pre["val"]), i, p2[i], p0[i]))); break
    if "pt" not in m: return "diff", "model printed `%s`" % mout[:100], mon
    g, og = fvec(pre["der"]), fvec(pre["oder"])
    signs = "".join(sorted(set("+" if a * b_ > 0 else "-" if a * b_ < 0 else "0" for a, b_ in zip(g, og))))
    dwp = fvec(pre["deltaw"])
    if pre["bt"] == "1" and pre["ov"] == "1" and not fh(pre["oval"]) < fh(pre["val"]) and any(a * b_ < 0 and w != 0 for a, b_, w in zip(g, og, dwp)):
        obs += "/stale-step-repeated"
    clamp = ("/clamp-max" if any(d == dmax for d in delta) else "") + ("/clamp-min" if dmin > 0 and any(d == dmin for d in delta) else "")
    allbit = True
    for k_, name in (("pt", "point"), ("delta", "m_delta"), ("deltaw", "m_deltaw"), ("oder", "m_oldDerivative")):
        bit, close = vec_close(fvec(m[k_]), fvec(post[k_])); allbit = allbit and bit
        if not close: return "rprop", "%s: model (double instance) %s, implementation %s" % (name, fvec(m[k_]), fvec(post[k_])), mon
    if fh(m["oval"]) != fh(post["oval"]): return "rprop", "m_oldValue: model %s, implementation %s" % (m["oval"], post["oval"]), mon
    qok = all(vec_close(fvec(m["q" + k_]), fvec(post[k_]))[1] for k_ in ("pt", "delta", "deltaw", "oder"))
    if not qok:
        # the rational instance decides the feasibility test and the sign of a product exactly; the doubles round
        x = fvec(post["pt"]); near = box and any(min(abs(x[i] + 1e-13 - h["lower"][i]), abs(x[i] - 1e-13 - h["upper"][i])) <= 1e-9 for i in range(len(x)))
        if not near:
            return "rprop", "rational instance: point %s delta %s, implementation point %s delta %s" % (fvec(m["qpt"]), fvec(m["qdelta"]), fvec(post["pt"]), delta), mon
        return "rprop/%s/rational-instance-rounding-sensitive" % variant, None, mon
    return "rprop/%s/signs%s%s%s%s/%s" % (variant, signs, clamp, "/box" if box else "", obs, "bitwise" if allbit else "1e-10"), None, mon

def read_cases(path):
    cases = []
    for l in open(path).read().split("\n"):
        if not l.strip() or l.startswith("#"): continue
        if l.startswith("I ") or l.startswith("L ") or l.startswith("N "): cases.append([l])
        elif cases: cases[-1].append(l)
    return cases


# ------------------------------------------------------------------ trust-region Newton (harness/c10_trn.cpp)
TRN_SRC = ["src/Algorithms/GradientDescent/TrustRegionNewton.cpp", "src/Core/Random.cpp"]
TRN_RAT_N, TRN_RAT_BITS = 4, 32      # the rational instance replays quadratics up to this dimension whose state numbers have at most that many significant bits
TRN_CONV_COND = 1.1e4   # the convergence predicate is judged on quadratics up to this condition number (the bound of the property), counted beyond
TRN_OBS = {}
TRN_SPREAD = 256       # multiple of the model's own summation-order spread added to the 1e-9 tolerance of a replayed CG step (ratios up to 36 were seen)
TRN_BUDGET = 200      # steps within which the minimiser of a strictly convex quadratic (cond <= 1e8, radius 1e-3..1e3) must be reached

def trn_header(kind, n, A, b, x0, params, stream="replay", fmt=hx):
    return "N %s %d %s | %s | %s | %s | %s" % (kind, n, stream, " ".join(fmt(v) for v in A), " ".join(fmt(v) for v in b), " ".join(fmt(v) for v in x0),
                                          " ".join(p if isinstance(p, str) else fmt(p) for p in params))

def parse_trn_header(l):
    g = [x.split() for x in l[2:].split("|")]
    def num(t):
        if "/" in t:
            a, b = t.split("/"); return float(Fraction(int(a), int(b)))
        try: return float(int(t))
        except ValueError: return float.fromhex(t) if "x" in t.lower() else float(t)
    return {"kind": g[0][0], "n": int(g[0][1]), "A": [num(t) for t in g[1]], "b": [num(t) for t in g[2]], "x0": [num(t) for t in g[3]],
            "delta0": 0.1 if g[4][0] == "default" else num(g[4][0]), "ratio": num(g[4][1]) if len(g[4]) > 1 else 0.1, "stream": g[0][2] if len(g[0]) > 2 else "replay"}

TRN_RADII = ["default", "default", 0.1, 1e-3, 0.01, 0.5, 1.0, 2.0, 10.0, 100.0, 1e3]

def gen_trn(rng, big=False):
    """TrustRegionNewton histories aimed at the case splits of step / trustRegionCG:
       spd     strictly convex quadratics (condition 1 .. 1e8), random start: CG exits by tolerance, border hits for small radii
       axis    axis-parallel quadratics with power-of-two curvatures and integer minimiser, start on the integer / half-integer
               grid, AT the minimiser, or one exact Newton step away from it: the gradient becomes EXACTLY zero (0/0 in borderDistance)
       rosen   Rosenbrock-type, random start, start at the optimum, start in the region of negative curvature (normH <= 0);
               large radii: rho below 0.25 / negative / between the thresholds; other minImprovementRatio values
       exact   multiples 2^k of the identity, integer minimiser, start c + s u with |gradient| the square of a dyadic number and
               the radius a power of two (times |u|^2): Newton steps, border steps and the forcing tolerance are computed
               without any rounding (the harness reports ex=1), the rational instance must be hit exactly
       indef   indefinite, singular (normH == 0) and linear (A = 0) quadratics: border steps along non-positive curvature, few steps
    every history continues well past convergence (blocks R k after the step budget)."""
    stream = rng.choice(["spd", "spd", "spd", "axis", "axis", "rosen", "rosen", "indef", "exact", "exact"])
    params = [rng.choice(TRN_RADII)]
    conv = False
    if stream == "exact":
        n = rng.randint(1, 3); a = 2.0 ** rng.randint(-2, 3)
        u0 = rng.choice({1: [[1], [-1]], 2: [[1, 0], [0, -1], [3, 4], [4, -3], [-3, 4]], 3: [[0, 0, 1], [1, 2, 2], [-2, 1, 2], [2, 3, 6], [0, 3, -4]]}[n])
        r = round(math.sqrt(sum(v * v for v in u0))); sc = r * 4.0 ** rng.randint(-1, 1) / a
        c = [float(rng.randint(-4, 4)) for _ in range(n)]; x0 = [ci + sc * ui for ci, ui in zip(c, u0)]
        Af = [a if i == j else 0.0 for i in range(n) for j in range(n)]; b = [a * ci for ci in c]
        params = [rng.choice([1, r * r]) * 2.0 ** rng.randint(-3, 4)]; kind = "quad"; conv = True
    elif stream == "spd":
        n = rng.randint(1, 6); cond = rng.choice([1, 10, 100, 1e3, 1e4, 1e6, 1e8]) if n > 1 else 1
        A = spd(rng, n, cond); b = [rng.gauss(0, 3) for _ in range(n)]; x0 = [rng.uniform(-3, 3) for _ in range(n)]
        if rng.random() < 0.15:
            sc = 2.0 ** rng.choice([-20, -10, 10, 20]); A = [[v * sc for v in r] for r in A]; b = [v * sc for v in b]      # badly scaled objective
        Af = [v for r in A for v in r]; kind = "quad"; conv = True
    elif stream == "axis":
        n = rng.randint(1, 5); diag = [2.0 ** rng.randint(-3, 4) for _ in range(n)]
        if rng.random() < 0.4: diag = [diag[0]] * n           # multiple of the identity: one CG iteration, the Newton step is exact
        c = [float(rng.randint(-4, 4)) for _ in range(n)]
        Af = [diag[i] if i == j else 0.0 for i in range(n) for j in range(n)]; b = [diag[i] * c[i] for i in range(n)]
        r = rng.random()
        if r < 0.25: x0 = list(c)                                                               # exactly the minimiser
        elif r < 0.5:                                                                           # reaches the minimiser after finitely many steps
            x0 = list(c); j = rng.randrange(n); x0[j] += rng.choice([-1, 1]) * 2.0 ** rng.randint(-6, 3)
        elif r < 0.8: x0 = [ci + rng.randint(-6, 6) / 2.0 for ci in c]
        else: x0 = [rng.uniform(-5, 5) for _ in range(n)]
        if rng.random() < 0.5: params = [rng.choice([2.0 ** k for k in range(-6, 6)])]
        kind = "quad"; conv = True
    elif stream == "rosen":
        n = rng.randint(2, 4); p = rng.choice([1.0, 10.0, 100.0]); Af = [p]; b = [0.0] * n; kind = "rosen"
        r = rng.random()
        if r < 0.15: x0 = [1.0] * n
        elif r < 0.45: x0 = [rng.uniform(-1, 1) for _ in range(n - 1)] + [rng.uniform(1, 3)]; x0[-1] += 3 * x0[-2] ** 2      # negative curvature in coordinate n-2
        else: x0 = [rng.uniform(-1.5, 1.5) for _ in range(n)]
        if rng.random() < 0.4: params = [rng.choice([10.0, 100.0, 1e3, 3.0])]
        if rng.random() < 0.3: params.append(rng.choice([0.01, 0.25, 0.3, 0.5, 0.75, 0.9]))
    else:
        n = rng.randint(1, 4); r = rng.random(); kind = "quad"
        if r < 0.25: Af = [0.0] * (n * n)                                                        # linear objective
        else:
            A = spd(rng, n, rng.choice([1, 10, 100])); j = rng.randrange(n); lam = rng.choice([0.0, 0.0, -0.25, -1.0, -3.0])
            if rng.random() < 0.5:
                for i in range(n): A[i][j] = A[j][i] = 0.0
                A[j][j] = lam
            else:
                s = max(abs(A[i][i]) for i in range(n))
                for i in range(n): A[i][i] -= 1.5 * s * rng.random()
            Af = [v for r_ in A for v in r_]
        b = [rng.choice([0.0, 1.0, -1.0, rng.gauss(0, 2)]) for _ in range(n)]; x0 = [rng.choice([0.0, 0.0, 1.0, rng.uniform(-2, 2)]) for _ in range(n)]
    hd = trn_header(kind, n, Af, b, x0, params, stream)
    ops = ["S"] * rng.randint(2, 8)
    if stream == "indef": ops.append("R %d" % rng.randint(1, 20))
    else:
        ops.append("R %d" % rng.randint(5, 40))
        done = sum(steps_of(o) for o in ops)
        if conv or rng.random() < 0.5: ops.append("R %d" % max(1, TRN_BUDGET - done))
        ops += ["S"] * rng.randint(1, 3)                 # single (replayed) steps after convergence
        ops.append("R %d" % rng.choice([10, 50, 100, 300, 700] if not big else [10, 100, 700, 1500]))
    return [hd] + ops

def monitor_trn(case, out):
    """spec monitor of the trust-region Newton histories (implementation output only): [(key, message)]"""
    h = parse_trn_header(case[0]); n = h["n"]; kind = h["kind"]; stream = h["stream"]
    A = [h["A"][i * n:(i + 1) * n] for i in range(n)] if kind == "quad" else None
    convex = kind == "quad" and stream in ("spd", "axis", "exact")
    shape = "TRN:%s:%s" % (kind, stream)
    bad = []
    def fail(pred, idx, msg):
        bad.append(("monitor:%s:%s" % (pred, shape), "line %d `%s` of %s n=%d delta0=%r minImprovementRatio=%r: %s" % (idx, case[idx] if idx else "N ...", shape, n, h["delta0"], h["ratio"], msg)))
    prev = None; prevd = None; total = 0
    for idx, (l, o) in enumerate(zip(case, out)):
        if o.startswith("EXC"):
            fail("exception", idx, "the library threw: " + o[4:200]); break
        if o in ("?", "BADLINE"):
            fail("harness", idx, "harness could not read the line"); break
        d = kv(o)
        if "pt" not in d:
            fail("harness", idx, "no state printed"); break
        total += steps_of(l)
        if not same_bits(d["val"], d["reval"]):
            fail("value-consistent", idx, "reported value %s != objective at the reported point %s = %s (%r vs %r)" % (d["val"], fvec(d["pt"]), d["reval"], fh(d["val"]), fh(d["reval"])))
        if l == "S" and prevd is not None and d.get("ntrial") == "1" and "nan" not in d["tpt"]:
            # the point evaluated by the step (point + CG step, also when rejected) lies inside the trust region of the step, up to
            # the rounding of the addition point + step (half an ulp per coordinate) and 1e-9 relative for the CG arithmetic
            p0 = fvec(prevd["pt"]); tp = fvec(d["tpt"]); d0 = fh(prevd["delta"])
            moved = math.sqrt(sum((a - b) ** 2 for a, b in zip(tp, p0))); slack = math.sqrt(n) * 2.220446049250313e-16 * max(abs(v) for v in p0 + tp)
            if not moved <= d0 * (1 + 1e-9) + slack:
                fail("trust-region", idx, "the step evaluated the objective at %s, %r away from the point %s: outside the trust region of radius %r" % (tp, moved, p0, d0))
        if d["fin"] != "1":
            fail("finite", idx, "reported point/value not finite: %s / %s" % (d["pt"], d["val"]))
        if not (same_vec(d["grad"], d["regrad"]) and same_vec(d["hess"], d["rehess"])):
            fail("derivative-consistent", idx, "stored gradient / Hessian %s / %s != derivatives at the reported point %s / %s" % (fvec(d["grad"]), fvec(d["hess"]), fvec(d["regrad"]), fvec(d["rehess"])))
        v = fh(d["val"])
        if prev is not None and l[0] in "SR" and not (v <= prev):
            fail("monotone", idx, "the step increased the objective: %r -> %r" % (prev, v))
        if l.startswith("R"):
            if not fh(d["maxinc"]) <= 0:
                fail("monotone", idx, "step %s of this block increased the objective by %r" % (d["incat"], fh(d["maxinc"])))
            if d["ncons"] != "0":
                fail("value-consistent", idx, "%s steps of this block (first: %s) report a value different from the objective at the reported point" % (d["ncons"], d["consat"]))
            if d["nder"] != "0":
                fail("derivative-consistent", idx, "%s steps of this block (first: %s) keep a gradient / Hessian that is not the one of the reported point" % (d["nder"], d["derat"]))
            if d["nfin"] != "0":
                fail("finite", idx, "%s steps of this block report non-finite point/value" % d["nfin"])
            if d["nout"] != "0":
                fail("trust-region", idx, "%s steps of this block (first: %s) evaluated the objective outside the trust region: |trial point - point| up to %r times the radius" % (d["nout"], d["outat"], fh(d["maxout"])))
        prev = v; prevd = d
        if bad: break
    if not bad and convex and len(out) == len(case) and total >= TRN_BUDGET:
        xs = solve(A, h["b"])
        if xs is not None:
            pt = fvec(kv(out[-1])["pt"])
            err = max(abs(a - b) for a, b in zip(pt, xs)); ref = 1 + max(abs(x) for x in xs)
            if not (err <= CONV_TOL * ref):
                cond = cond_of(case[0], A)
                if cond <= TRN_CONV_COND:
                    bad.append(("monitor:converge:%s" % shape, "%s n=%d cond=%.3g delta0=%r: after %d steps (budget %d) |x - x*|_inf = %.3g > %g * (1 + |x*|_inf)" % (shape, n, cond, h["delta0"], total, TRN_BUDGET, err, CONV_TOL)))
                else:
                    # beyond the bounded condition of the property: counted, not judged (the evaluation noise of the objective, ~2^-53 lambda_max |x|^2,
                    # exceeds the decrease predicted for the short step the forcing tolerance 0.5 |g| accepts: every step is rejected, the radius only shrinks)
                    TRN_OBS["not converged within the budget, condition > %g" % TRN_CONV_COND] = TRN_OBS.get("not converged within the budget, condition > %g" % TRN_CONV_COND, 0) + 1
            elif kind == "quad": TRN_OBS["converged within the budget"] = TRN_OBS.get("converged within the budget", 0) + 1
    return bad


def sigbits_py(v):
    if v == 0 or not math.isfinite(v): return 0 if v == 0 else 64
    m, _ = math.frexp(abs(v)); k = int(m * (1 << 53)); tz = (k & -k).bit_length() - 1
    return 53 - tz

def build_trn_replays(cases, io):
    """[(case index, line index, model line, state before, state after, header)] for every single step S of a trust-region
    Newton history: the step is replayed by the extracted tr_step (double instance; rational instance on short-mantissa
    quadratics, n <= 4) from the state the C++ reported before it"""
    reps = []
    H = lambda k_: " ".join(hx(v) for v in fvec(k_))
    for ci, c in enumerate(cases[:len(io)]):
        out, rc, _ = io[ci]; h = None
        for idx in range(1, min(len(c), len(out))):
            if c[idx] != "S" or out[idx].startswith("EXC") or out[idx - 1].startswith("EXC") or out[idx] in ("?", "BADLINE"): continue
            pre, post = kv(out[idx - 1]), kv(out[idx])
            if "pt" not in pre or "pt" not in post or pre.get("fin") != "1": continue
            if h is None: h = parse_trn_header(c[0])
            n = h["n"]
            nums = h["A"] + h["b"] + fvec(pre["pt"]) + [fh(pre["val"]), fh(pre["delta"])] + fvec(pre["grad"])
            rat = 1 if h["kind"] == "quad" and n <= TRN_RAT_N and all(math.isfinite(v) for v in nums) and max(sigbits_py(v) for v in nums) <= TRN_RAT_BITS and max(abs(v) for v in nums) < 2.0 ** 40 else 0
            line = "T %d %s %d | %s | %s | %s | %s %s %s | %s | %s | %s | %s | %s | %s" % (
                n, h["kind"], rat, " ".join(hx(v) for v in h["A"]), " ".join(hx(v) for v in h["b"]), H(pre["pt"]), pre["val"], pre["delta"], pre["ratio"],
                H(pre["grad"]), H(pre["hess"]), post["tval"] if post.get("ntrial") == "1" else "-", post["val"], H(post["grad"]), H(post["hess"]))
            reps.append((ci, idx, line, pre, post, h))
    return reps

def judge_trn_replay(mout, pre, post, h):
    """(class, difference or None, monitor messages).  Monitors (implementation only): the radius stays positive and finite,
    changes only by the factors 1/4, 1, 2; operator() is called at most once and evalDerivative exactly when the point moved."""
    m = kv(mout); mon = []
    d0, d1 = fh(pre["delta"]), fh(post["delta"])
    if d0 > 1e-290 and d1 not in (d0 / 4, d0, d0 * 2): mon.append(("monitor:trn-radius-factor", "the trust-region radius went from %r to %r: not one of the factors 1/4, 1, 2" % (d0, d1)))
    if "pt" not in m: return "diff", "model printed `%s`" % mout[:100], mon
    moved = not same_vec(pre["pt"], post["pt"]); acc_impl = post["nderiv"] == "1"
    if moved and not acc_impl: mon.append(("monitor:trn-accept-without-derivative", "the point changed without an evalDerivative call"))
    zero_grad = all(v == 0 for v in fvec(pre["grad"]))
    cls = "%s/%s/%s/%s" % (m["exit"] + ("(zero-gradient)" if zero_grad else "") + ("@it%s" % (m["iters"] if int(m["iters"]) < 3 else "3+") if m["exit"] in ("border", "negcurv") else ""),
                           "done" if post["ntrial"] == "0" else "nan" if "nan" in post.get("tval", "") else ("rho<0" if fh(m["rho"]) < 0 else "rho<ratio" if fh(m["rho"]) < fh(pre["ratio"]) else "rho<.25" if fh(m["rho"]) < 0.25 else "rho<=.75" if fh(m["rho"]) <= 0.75 else "rho>.75"),
                           "shrink" if d1 < d0 else "grow" if d1 > d0 else "keep", "accept" if acc_impl else "reject")
    if "nan" in post.get("tval", "") or "nan" in mout.split(" q=")[0]:
        # NaN step (0/0 in borderDistance at an exactly zero gradient): the double instance follows IEEE, the state must not change
        same = same_vec(m["pt"], post["pt"]) and same_bits(m["val"], post["val"]) and same_bits(m["delta"], post["delta"])
        return cls, (None if same else "NaN step: model state %s / %s / %s, implementation %s / %s / %s" % (m["pt"], m["val"], m["delta"], post["pt"], post["val"], post["delta"])), mon
    # near ties of the rounded comparisons (rho against 0.25 / 0.75 / the ratio; |step|^2 against 0.99 delta^2): not determined by the model
    rho = fh(m["rho"]); sol = fvec(m["sol"]); ns = sum(v * v for v in sol)
    if post["ntrial"] == "1" and (any(abs(rho - t) <= 1e-6 * max(1.0, abs(rho)) for t in (0.25, 0.75, fh(pre["ratio"]))) or abs(ns - 0.99 * d0 * d0) <= 1e-6 * d0 * d0):
        return cls + "/threshold-rounding-sensitive", None, mon
    # double instance.  The CG iterates of the code (BLAS summation order, fused multiply-adds inside BLAS) and of the model differ by
    # rounding errors that the conjugate-gradient recurrences amplify (2e-8 was seen at condition 1e3, 1e-4 at condition 1e8).  The
    # driver therefore solves every sub-problem seven times: with the coordinates reversed / rotated (the same problem, every sum
    # accumulated in another order) and four times with every entry of gradient and Hessian moved by at most one unit in the last
    # place: [spread] is the largest distance of these six steps from the model's step, i.e. the sensitivity of the sub-problem
    # to perturbations of the size of single rounding errors.  Two steps agree when they differ by at most 1e-9 (relative to max(1, |point|))
    # + TRN_SPREAD * spread (well-conditioned steps: spread ~ 1e-16, the tolerance stays 1e-9); a step whose spread exceeds 1e-3 of
    # its length, or whose model runs leave the CG through different exits, is counted as order-sensitive and not compared
    spread = fh(m["spread"]); slen = max([abs(v) for v in sol] + [1e-300])
    if not spread <= 1e-3 * slen or m["rexit"] != m["exit"] or m["riters"] != m["iters"]: return cls + "/summation-order-sensitive-not-compared", None, mon
    def close(a, b):
        sc_ = max([1.0] + [abs(v) for v in b])
        if all(abs(x - y) <= TOL * sc_ for x, y in zip(a, b)): return 1
        if all(abs(x - y) <= TOL * sc_ + TRN_SPREAD * spread for x, y in zip(a, b)): return 2
        return 0
    metric = 1
    if post["ntrial"] == "1":
        tp = fvec(post["tpt"]); tm = fvec(m["trial"])
        metric = close(tm, tp)
        if not metric:
            # beyond the bounded condition of the property the tolerance test of the CG loop itself can go the other way in the code
            # (seen at condition 1e8: another number of iterations): such a step is counted, not judged; up to condition 1.1e4 it is a disagreement
            n_ = h["n"]; hs = fvec(pre["hess"]); ev = [abs(x) for x in eigs([hs[i_ * n_:(i_ + 1) * n_] for i_ in range(n_)])]
            if not (min(ev) > 0 and max(ev) / min(ev) <= TRN_CONV_COND): return cls + "/ill-conditioned-not-compared", None, mon
            return cls, "trial point (point + CG step): model (double instance) %s, implementation %s" % (tm, tp), mon
    elif m["pred"] not in ("0x0p+0", "-0x0p+0"):
        return cls, "the implementation evaluated nothing (solution.first == 0), the model's predicted change is %s" % m["pred"], mon
    if (m["acc"] == "1") != acc_impl: return cls, "acceptance: model %s (rho = %r), implementation %s" % (m["acc"], rho, acc_impl), mon
    if fh(m["delta"]) != d1: return cls, "radius: model %r, implementation %r (rho = %r)" % (fh(m["delta"]), d1, rho), mon
    pm = fvec(m["pt"]); pi = fvec(post["pt"]); sc = max([1.0] + [abs(v) for v in pi])
    if not close(pm, pi): return cls, "point: model (double instance) %s, implementation %s" % (pm, pi), mon
    if not abs(fh(m["val"]) - fh(post["val"])) <= TOL * max(1.0, abs(fh(post["val"]))): return cls, "value: model %r, implementation %r" % (fh(m["val"]), fh(post["val"])), mon
    dbl = "/double-1e-9" if metric == 1 else "/double-within-summation-order-spread"
    # rational instance
    if m.get("q") == "1":
        exact = post["ex"] == "1" and m["sqex"] == "1"
        qrho = fh(m["qrho"])
        if not exact and post["ntrial"] == "1" and any(abs(qrho - t) <= 1e-6 * max(1.0, abs(qrho)) for t in (0.25, 0.75, fh(pre["ratio"]))):
            return cls + "/threshold-rounding-sensitive", None, mon
        if (m["qacc"] == "1") != acc_impl: return cls, "acceptance: rational model %s (rho = %r), implementation %s" % (m["qacc"], qrho, acc_impl), mon
        if exact:
            xp = [qfrac(t) for t in m["xpt"].split(",")]
            if len(xp) != len(pi) or any(Fraction(q) != p_ for p_, q in zip(xp, pi)): return cls, "exact regime: point of the rational model %s, implementation %s" % ([float(x) for x in xp], pi), mon
            if Fraction(fh(post["val"])) != qfrac(m["xval"]): return cls, "exact regime: value of the rational model %s, implementation %r" % (m["xval"], fh(post["val"])), mon
            if Fraction(d1) != qfrac(m["xdelta"]): return cls, "exact regime: radius of the rational model %s, implementation %r" % (m["xdelta"], d1), mon
            return cls + "/rational-exact", None, mon
        qp = fvec(m["qpt"])
        if not close(qp, pi): return cls, "point: rational model %s, implementation %s" % (qp, pi), mon
        if fh(m["qdelta"]) != d1: return cls, "radius: rational model %r, implementation %r" % (fh(m["qdelta"]), d1), mon
        if not abs(fh(m["qval"]) - fh(post["val"])) <= TOL * max(1.0, abs(fh(post["val"]))): return cls, "value: rational model %r, implementation %r" % (fh(m["qval"]), fh(post["val"])), mon
        return cls + "/rational-1e-9", None, mon
    return cls + dbl, None, mon


def main():
    ck = Check(PID)
    ck.trusted = DEFAULT_TRUSTED + [
        "harness/c10_opt.cpp: objective functions (quadratic, Rosenbrock, box variants via BoxConstraintHandler), a 4-line subclass of AbstractLineSearchOptimizer with direction -gradient, read access to protected members through pointers to members",
        "exact regime, model value not representable as a double (L-BFGS m_bdiag only): implementation within 2n+1 ulps of the exact rational instead of equality (see coverage.exact_regime_values_not_representable_as_double)",
        "exact-regime detection: FE_INEXACT around every objective evaluation + at most 40 significant bits in every printed state number; the one always-inexact library operation (c1*t*gtd in the Armijo test, c1 = 1e-4) can only matter when the decrease equals 1e-4 of the linear prediction to 1e-16",
        "not modelled: the numerics of Dlinmin / WolfeCubic (interpolation, Brent and golden-section steps are an oracle replayed from the code's evaluation log)",
        "harness/c10_opt.cpp reads the private members of LBFGS / Adam / Rprop through explicit template instantiations (struct Rob) and prints them; tools/c10.py recomputes y = derivative - lastDerivative and s = point - lastPoint of an L-BFGS step with the same two double subtractions",
        "one-step replays: ocaml/c10_driver.ml instantiates the extracted generic functions (C10Gen.v, C10AdamRprop.v: ops record) with OCaml doubles (+. -. *. /. sqrt **, comparisons) and, for Rprop, also runs the rational instance on the exactly converted doubles; the objective oracles of a replayed step return the value / derivative the implementation printed after that step (their consistency with the objective is the job of the monitors); multB's sqrt normalisation of the rows of A is not modelled (it cancels in A'A)",
        "tolerance of the replayed L-BFGS direction: 1e-10 * max(|d|_inf, |g|_inf / m_bdiag); steps with |y's - 1e-10| <= 1e-13 sum|y_i s_i| are counted as threshold-rounding-sensitive and skipped; Rprop steps where only the rational instance differs and the new point is within 1e-9 of a widened bound are counted as rounding-sensitive",
        "hooked objective of the single line-search calls: value/gradient = hash of the bit patterns of the evaluated point, implemented twice (harness/c10_opt.cpp struct Hooked, ocaml/c10_driver.ml hooked); points are 0 + t*d with d[i] = +-2^k, hence computed without rounding; the step length of an evaluation is read as x[j]/d[j]",
        "rounded comparisons of the library with an always-inexact product (c1*t*gtd, c2*gtd) are recomputed in Python in floating point and exactly; calls where the two disagree are skipped (counted under rounding-sensitive)",
        "stack-content dependence is exposed by running every single line-search call twice after filling 64 KiB of stack with 0xFF bytes resp. the double -1e300",
        "exact rational linear solve in Python for the minimiser of the quadratics",
        "harness/c10_trn.cpp: objective with second derivatives (quadratic with Hessian A, Rosenbrock-type with its analytic Hessian; the evaluation order of value and gradient is the one of harness/c10_opt.cpp), evaluation log (trial point / value of the operator() call of a step), FE_INEXACT cleared before and tested after every single step() call (exact-regime detection for the whole step incl. BLAS calls and std::sqrt)",
        "TrustRegionNewton replays: the double instance of the extracted tr_step gets the objective values the implementation's objective returned (trial value, evalDerivative result after acceptance) as oracles, so it checks trustRegionCG / borderDistance / errorDifference / the radius and acceptance rules, not the objective; tolerance 1e-9 max(1, |point|) + 256 x spread, spread = largest distance between the model's CG step and six more runs of the model's CG (coordinates reversed, rotated: every sum accumulated in another order; four times every entry of gradient and Hessian moved by <= 1 ulp); ~1e-16 for well-conditioned steps, so the tolerance is 1e-9 there; steps with spread > 1e-3 |step| or different CG exits of the perturbed runs are counted as summation-order-sensitive and not compared; a step that still differs while its Hessian has |lambda|max / |lambda|min > 1.1e4 (beyond the bounded condition of the property; seen at 1e8: the tolerance test of the CG loop goes the other way) is counted as ill-conditioned-not-compared, up to 1.1e4 it is a disagreement; steps with |rho - threshold| <= 1e-6 or |step|^2 within 1e-6 radius^2 of 0.99 radius^2 are counted as threshold-rounding-sensitive and not compared",
        "TrustRegionNewton rational instance: ocaml/c10_driver.ml converts the doubles exactly, evaluates 1/2 x'Ax - b'x in exact arithmetic and uses for std::sqrt the rounded double root of the (62-bit truncated) argument converted back exactly; sqex = 1 iff every root taken was exact; run for quadratics n <= 4 whose state numbers have at most 32 significant bits"]
    ck.assumptions = [
        "single line-search calls: n <= 4, directions with entries 0, +-1/2, +-1, +-2, 4, start 0 in the moving coordinates, t0 in {0, 1/64, 1/8, 1/4, 1/2, 1, 2}, objective = hash (values k/16 in [-8, 8), gradient entries k/8 in [-4, 4)) or -slope*t up to a threshold <= 1e7 and the hash beyond; 20% of the calls start from a value / derivative that is not the objective's",
        "harness/c10_findings.txt: regression inputs of the repaired wolfecubic defect (fix 1272c59f: linear objectives, all 25 expansions succeed) and the dlinmin backward-step demonstration are part of every run; REGRESSION_HISTORIES: BFGS / CG / L-BFGS with WolfeCubic on the linear objective -b'x",
        "objectives from the generated family: strictly convex quadratics 0.5x'Ax-b'x (n <= 6, condition <= 1e4; dyadic entries n <= 4 for the exact comparison), Rosenbrock-type sum p(x[i+1]-x[i]^2)^2+(1-x[i])^2 with p in {1,10,100}, box-constrained variants (BoxConstraintHandler, start inside or on the boundary)",
        "box-constrained objectives only with the optimizers that announce CAN_SOLVE_CONSTRAINED (LBFGS, Rprop); the others reject them in checkFeatures",
        "L-BFGS case-split streams (gen_lbfgs): n <= 6, m_numHist in {1,2,3,5}, histories of m_numHist + 1..4 single steps, quadratics of condition <= 100 scaled by 2^-8..2^-16 (tiny y's) or with one negative eigenvalue (y's < 0; 2-4 backtracking steps), boxes of width <= 3 around the start with 30% of the coordinates on a bound, box-Rosenbrock; Rprop / Adam streams (gen_rprop): n <= 5, 4-14 single steps, initial step size 0.01..2, minDelta / maxDelta within a factor 100 of it in half of the cases, all flag combinations, Adam eta <= 0.5; m_numHist and the Rprop parameters are not changed between two steps",
        "SteepestDescent learning rate <= 0.9/lambda_max (otherwise plain gradient descent diverges by design); Adam eta <= 0.1",
        "fresh instance of save/restore = default-constructed object of the same class, init-ed on the same objective at another point and stepped twice (LineSearch keeps a pointer to the objective that cannot be archived)",
        "minimiser reached = max-norm error <= 1e-4 (1 + |x*|) within budget(): 200 steps; L-BFGS with history < n: 200 + cond/5; CG or short-history L-BFGS with the backtracking line search: 100*cond+200 (they degenerate to restarted steepest descent)",
        "box feasibility with the 1e-13 slack of BoxConstraintHandler::isFeasible is modelled in exact rationals (x + eps < l); the C++ rounds x + eps",
        "TrustRegionNewton is abstract in this tree (its two-argument init takes the objective by non-const reference and does not override the pure virtual init): the harness drives the real class (src/Algorithms/GradientDescent/TrustRegionNewton.cpp of the working tree) through a subclass that only adds `void init(ObjectiveFunctionType const& f, SearchPointType const& s){ TrustRegionNewton::init(f, s, 0.1); }` and read access to m_delta / m_derivatives",
        "TrustRegionNewton histories (gen_trn): strictly convex quadratics n <= 6 of condition 1..1e8 (15% scaled by 2^+-10, 2^+-20), axis-parallel quadratics with power-of-two curvatures and integer minimiser (start at the minimiser / one exact Newton step away / on the half-integer grid / random), multiples 2^k of the identity with |gradient| the square of a dyadic number (exact regime), Rosenbrock-type n <= 4 with p in {1,10,100} (random start, optimum, region of negative curvature), indefinite / singular / linear quadratics (<= 28 steps); initial radius default 0.1 through the optimizer interface or 1e-3..1e3, minImprovementRatio 0.1 (30% of the Rosenbrock cases: 0.01..0.9); 2-8 single steps, blocks up to the budget of 200 steps, 1-3 single steps after it, then 10..700 more steps",
        "TrustRegionNewton convergence predicate: max-norm error <= 1e-4 (1 + |x*|) after 200 steps, judged for condition <= 1.1e4 (the bounded condition of the property), counted beyond (coverage.trn_convergence)",
        "TrustRegionNewton trust-region predicate: |trial point - point|_2 <= radius (1 + 1e-9) + sqrt(n) 2^-52 max|coordinate| (rounding of the addition point + step)"]
    for f_ in os.listdir(ck.replay_dir):
        if re.match(r"viol_\d+\.json$", f_) or f_.startswith("case_"):
            if not (ck.replay and os.path.abspath(ck.replay) == os.path.join(ck.replay_dir, f_)): os.remove(os.path.join(ck.replay_dir, f_))
    ck.proofs()
    model = extract_model(PID, "C10Extract.v", "c10_driver.ml")
    exe, err = cxx_build("c10_opt", [os.path.join(ROOT, "harness", "c10_opt.cpp")] + repo_src(*SRC))
    if exe is None:
        ck.oblige("harness builds against /repo", False, err); ck.finish()
    tmpd = os.path.join(BUILD, "tmp", PID + ("_" + hashlib.sha256(REPO.encode()).hexdigest()[:6] if REPO != "/repo" else "")); os.makedirs(tmpd, exist_ok=True)
    big = ck.tier == "thorough"
    rng = ck.rng

    # TrustRegionNewton: abstract at the pinned tree (its two-argument init does not override the pure virtual one); the
    # harness drives the real class through a subclass that supplies the override
    trn = os.path.join(tmpd, "c10_trn.cpp")
    src = "#include <shark/Algorithms/GradientDescent/TrustRegionNewton.h>\nint main(){ shark::TrustRegionNewton o; return 0; }\n"
    if not os.path.exists(trn) or open(trn).read() != src: open(trn, "w").write(src)
    rc, _, e = sh([CXX] + CXXFLAGS + repo_includes() + ["-fsyntax-only", trn], timeout=600)
    ck.notes["TrustRegionNewton"] = ("instantiable" if rc == 0 else "abstract in this tree (" + (re.search(r"error: ([^\n]*abstract[^\n]*)", e).group(1)[:200] if re.search(r"error: ([^\n]*abstract[^\n]*)", e) else e[-200:]) + ")") + "; checked through the override shim of harness/c10_trn.cpp"
    trn_exe, err = cxx_build("c10_trn", [os.path.join(ROOT, "harness", "c10_trn.cpp")] + repo_src(*TRN_SRC))
    ck.oblige("TrustRegionNewton (src/Algorithms/GradientDescent/TrustRegionNewton.cpp of the working tree) builds with the harness subclass that supplies the missing init override", trn_exe is not None, err[-1500:] if trn_exe is None else "")
    if trn_exe is None: ck.finish()

    if ck.replay:
        cases = read_cases(ck.replay)
    else:
        cases = []
        cdir = os.path.join(ROOT, "corpus", PID)
        if os.path.isdir(cdir):
            for f in sorted(os.listdir(cdir)): cases += read_cases(os.path.join(cdir, f))
        cases += [list(c) for c in REGRESSION_HISTORIES]
        cases += [list(w[0]) for w in WITNESS_HISTORIES]
        cases += [gen_exact(rng) for _ in range(700 if not big else 6000)]
        cases += [gen_float(rng, big) for _ in range(900 if not big else 6000)]
        cases += [gen_lbfgs(rng, big) for _ in range(400 if not big else 4000)]
        cases += [gen_rprop(rng, big) for _ in range(400 if not big else 4000)]


    trn_cases = [c for c in cases if c[0].startswith("N ")]
    cases = [c for c in cases if not c[0].startswith("N ")]
    if not ck.replay:
        trng = random.Random(ck.seed * 7919 + 10)      # its own generator: the other streams of a seed stay what they were
        trn_cases += [gen_trn(trng, big) for _ in range(1500 if not big else 12000)]

    # ------------------------------------------------------------------ single line-search calls: implementation first, its trial
    # step lengths (the oracle of the model) are read back from the evaluation log of the hooked objective
    def run_ls(lines, tag):
        io_ = run_cases(exe, [[l] for l in lines], os.path.join(tmpd, tag + "_impl.txt"), timeout=3000)
        # nf=1: the code evaluated a non-finite point (NaN step length from the 0/0 of wlsCubicInterp on equal values with
        # opposite slopes): no rational oracle exists, the call is counted under "nonfinite"
        ml = [ls_model_line(l, o[0][0]) if (o[0] and " log=" in o[0][0] and " nf=0" in o[0][0]) else "?" for l, o in zip(lines, io_)]
        mo_ = run_cases(model, [[l] for l in ml], os.path.join(tmpd, tag + "_model.txt"))
        res = []
        for l, o, m, mline in zip(lines, io_, mo_, ml):
            if m[1] != 0: raise RuntimeError("model driver failed: %s on %s" % (m[2], mline[:300]))
            if o[1] != 0 or not o[0]: res.append(([("monitor:ls-crash", "implementation crashed (rc=%s) %s" % (o[1], o[2][-200:]))], None, "crash", "", "", mline)); continue
            res.append(judge_ls(l, o[0][0], m[0][0]) + (o[0][0], m[0][0], mline))
        return res

    fixed_ls = []
    ff = os.path.join(ROOT, "harness", "c10_findings.txt")
    if os.path.exists(ff): fixed_ls = [l for l in open(ff).read().split("\n") if l.startswith("L ")]
    if ck.replay:
        ls_lines = [c[0] for c in cases if c[0].startswith("L ")]
        cases = [c for c in cases if not c[0].startswith("L ")]
    else:
        ls_lines = fixed_ls + [gen_ls(rng, big) for _ in range(2500 if not big else 40000)]
    ls_res = run_ls(ls_lines, "ls")
    ls_stats = {}; ls_mon = {}; ls_dis = []
    for i, (msgs, diff, cls, o_, m_, ml_) in enumerate(ls_res):
        k_ = "%s/%s" % (LS_NAME.get(int(ls_lines[i].split()[1]), "?"), cls); ls_stats[k_] = ls_stats.get(k_, 0) + 1
        for key, msg in msgs[:1]: ls_mon.setdefault(key, []).append((i, msg))
        if diff: ls_dis.append((i, diff))
    def ls_replay(i, key):
        msgs, diff, cls, o_, m_, ml_ = ls_res[i]
        cf = ck.write_replay("case_%s_%d.txt" % (re.sub(r"[^A-Za-z0-9]+", "_", key)[:60], i), ls_lines[i] + "\n")
        return {"case_file": cf, "case": ls_lines[i], "implementation_output": o_, "model_input_with_oracle": ml_, "model_output": m_,
                "monitor": [m for _, m in msgs], "difference": diff, "replay_cmd": "python3 tools/c10.py --replay %s" % cf}
    for key in sorted(ls_mon):
        i, msg = ls_mon[key][0]
        ck.violation(key, ls_replay(i, key), "spec monitor fails on a single line-search call (%d cases): %s" % (len(ls_mon[key]), msg))
    n_unknown_ls = sum(len(v) for k, v in ls_mon.items() if ck.match_known(k) is None)
    ck.oblige("spec monitors on %d single line-search calls (value/derivative = objective/gradient at the new point, value not increased, result independent of stack contents)" % len(ls_lines),
              n_unknown_ls == 0, "" if n_unknown_ls == 0 else "keys %s" % sorted(ls_mon)[:4])
    if ls_dis:
        i, diff = ls_dis[0]; rp = ls_replay(i, "correspondence-linesearch")
        rp["broken"] = "correspondence C10LsModel (linesearch: dlinmin / wolfecubic / backtracking state handling) vs LineSearch.cpp"
        ck.violation("correspondence-linesearch", rp, "correspondence of the line-search model no longer checks (%d of %d calls differ, first: %s); the spec monitors pass on every explored input" % (len(ls_dis), len(ls_lines), diff), no_input=True)
    ck.oblige("correspondence C10LsModel.linesearch vs LineSearch::operator() on %d calls with the oracle read from the code's evaluation order (%s)" % (
        len(ls_lines), ", ".join("%s %d" % kv_ for kv_ in sorted(ls_stats.items()))), not ls_dis, "" if not ls_dis else "%d disagreements, first: %s" % (len(ls_dis), ls_dis[0][1]))
    ck.cov["linesearch_calls"] = ls_stats

    def run_both(cs, tag):
        mo = run_cases(model, cs, os.path.join(tmpd, tag + "_model.txt"))
        io = run_cases(exe, cs, os.path.join(tmpd, tag + "_impl.txt"), timeout=3000)
        return mo, io

    def judge(c, mo_c, io_c, stats):
        (a, rca, ea), (b, rcb, eb) = mo_c, io_c
        if rca != 0: raise RuntimeError("model driver failed: %s on %s" % (ea, c[0]))
        if rcb != 0:
            h = parse_header(c[0])
            return [("monitor:crash:%s:%s" % (h["opt"], h["kind"]), "implementation crashed/stopped after %d of %d lines (rc=%s) %s" % (len(b), len(c), rcb, eb.strip()[-200:]))], None
        msgs = monitor(c, b)
        return msgs, (None if msgs else compare(c, a, b, stats))

    stats = {"exact": 0, "tol": 0}
    mo, io = run_both(cases, "all")
    if not ck.replay:
        for wc, key_, want, name_ in WITNESS_HISTORIES:
            ci = next(i for i, c in enumerate(cases) if c == list(wc))
            if key_ == "gd": got = [[round(sum(a * b_ for a, b_ in zip(fvec(kv(o)["der"]), fvec(kv(o)["sdir"]))), 9)] for o in io[ci][0]]
            else: got = [fvec(kv(o)[key_]) if key_ in kv(o) else None for o in io[ci][0]]
            ck.oblige("the C++ reproduces the witness %s of Properties_C10.v (%s along `%s`: %s)" % (name_, key_, wc[0][:60], want), got == want,
                      "" if got == want else "the implementation gives %s: the code changed, the model and the Example must follow" % got)
    mon = {}      # key -> list of (case index, message)
    dis = []
    for ci, c in enumerate(cases):
        msgs, diff = judge(c, mo[ci], io[ci], stats)
        for key, msg in msgs[:1]: mon.setdefault(key, []).append((ci, msg))
        if diff: dis.append((ci, diff))

    def one(lines):
        m_, i_ = run_both([lines], "shrink")
        st = {"exact": 0, "tol": 0}
        return judge(lines, m_[0], i_[0], st) + (m_[0][0], i_[0][0])

    def report(ci, key, is_mon):
        c = cases[ci]; small = c
        if len(c) > 2:
            if is_mon: pred = lambda ops: any(k == key for k, _ in one([c[0]] + ops)[0])
            else: pred = lambda ops: (lambda r: bool(r[1]) and not r[0])(one([c[0]] + ops))
            small = [c[0]] + ddmin(c[1:], pred, max_runs=60)
        msgs, diff, xa, xb = one(small)
        cf = ck.write_replay("case_%s_%d.txt" % (re.sub(r"[^A-Za-z0-9]+", "_", key)[:60], ci), "\n".join(small) + "\n")
        return {"case_file": cf, "case": small, "model_output": xa, "implementation_output": xb, "monitor": [m for _, m in msgs], "difference": diff,
                "replay_cmd": "python3 tools/c10.py --replay %s" % cf}, msgs, diff

    n_unknown = 0
    for key in sorted(mon)[:8]:
        ci, msg = mon[key][0]
        known = ck.match_known(key) is not None
        if not known: n_unknown += len(mon[key])
        rp, msgs, _ = report(ci, key, True)
        rp["cases_failing_with_this_key"] = len(mon[key])
        m = next((m for k, m in msgs if k == key), msg)
        ck.violation(key, rp, "spec monitor fails on the implementation (%d cases): %s" % (len(mon[key]), m))
    for key in sorted(mon)[8:]:
        if ck.match_known(key) is None: n_unknown += len(mon[key])
    ck.oblige("spec monitors (value = objective, finite, feasible, monotone line search, minimiser within budget, save/restore) on %d optimizer histories" % len(cases),
              n_unknown == 0, "" if n_unknown == 0 else "%d cases fail under keys %s" % (n_unknown, sorted(k for k in mon if ck.match_known(k) is None)[:6]))

    if dis:
        # broken correspondence without failing input: search around the disagreeing cases (same objective, other histories / optimizers)
        extra = []
        for ci, _ in dis[:6]:
            hd = cases[ci][0]
            for _ in range(40):
                g = gen_exact(rng); t = hd.split(" ", 4)
                for o2 in (["CG", "BFGS", "LBFGS", "SDLS"] if "box" not in hd else [t[1]]):
                    ops = g[1:] if o2 not in ("CG", "BFGS") else g[1:4] if o2 == "CG" else g[1:3]      # the model's rationals square in size with every CG beta / BFGS update
                    extra.append([" ".join([t[0], o2] + t[2:])] + ops + ["R 30"])
        emo, eio = run_both(extra, "search")
        found = False
        for c, m_, i_ in zip(extra, emo, eio):
            msgs, _ = judge(c, m_, i_, {"exact": 0, "tol": 0})
            msgs = [(k, m) for k, m in msgs if ck.match_known(k) is None]
            if msgs:
                cases.append(c); rp, ms, _ = report(len(cases) - 1, msgs[0][0], True)
                ck.violation(msgs[0][0], rp, "spec monitor fails on the implementation (found by search after the correspondence broke): " + msgs[0][1])
                found = True; break
        ck.notes["search_cases"] = len(extra)
        if not found:
            ci, diff = dis[0]
            rp, _, d2 = report(ci, "correspondence", False)
            rp["broken"] = "correspondence C10Model (ls_init/ls_step/backtracking/cg_dir/sd_step) vs AbstractLineSearchOptimizer/LineSearch/CG/SteepestDescent"
            ck.violation("correspondence", rp, "correspondence model vs implementation no longer checks (%d cases differ, first: %s); the spec monitor passes on every explored input" % (len(dis), d2 or diff), no_input=True)
    ck.oblige("correspondence C10Model vs AbstractLineSearchOptimizer/backtracking/CG/SteepestDescent on %d histories (%d state lines exact, %d at 1e-9)" % (
        sum(1 for m_ in mo if any(x not in ("-", "?") for x in m_[0])), stats["exact"], stats["tol"]), not dis,
        "" if not dis else "%d disagreements, first: %s" % (len(dis), dis[0][1]))

    # ------------------------------------------------------------------ one-step replays of the model's direction rules from the
    # implementation's own previous state (L-BFGS: updateHist + multBInv / getBoxConstrainedDirection)
    reps = build_replays(cases, io)
    rout = run_cases(model, [[r[2]] for r in reps], os.path.join(tmpd, "replay_model.txt"))
    RK = {"B": ("lbfgs", "C10LbfgsModel (lb_update_hist / lb_mult_binv / lb_box_dir) vs LBFGS.cpp (updateHist / multBInv / getBoxConstrainedDirection)",
                "L-BFGS directions (descent direction; point + direction inside the box)"),
          "A": ("adam", "C10AdamRprop (g_adam_step) vs Adam.h (step)", "Adam steps (second-moment estimate not negative)"),
          "P": ("rprop", "C10AdamRprop (g_rprop_step: double and rational instance) vs Rprop.cpp (step)",
                "Rprop steps (step sizes positive, inside [minDelta, maxDelta] on unconstrained objectives; iRprop+ takes back the coordinates whose derivative changed sign after an increase)")}
    rstats = {k_: {} for k_ in RK}; rdis = {k_: [] for k_ in RK}; rmon = {k_: {} for k_ in RK}; rcount = {k_: 0 for k_ in RK}
    for ri, ((ci, idx, line, pre, post, aux), (o_, rc_, e_)) in enumerate(zip(reps, rout)):
        if rc_ != 0 or not o_: raise RuntimeError("model driver failed on the replay line %s: %s" % (line[:300], e_))
        kind_ = line[0]; rcount[kind_] += 1
        cls, diff, msgs = (judge_lbfgs_replay if kind_ == "B" else judge_adam_replay if kind_ == "A" else judge_rprop_replay)(o_[0], pre, post, aux)
        rstats[kind_][cls] = rstats[kind_].get(cls, 0) + 1
        for key, msg in msgs[:1]: rmon[kind_].setdefault(key, []).append((ri, msg))
        if diff: rdis[kind_].append((ri, diff))
    def replay_obj(ri, key):
        ci, idx, line, pre, post, aux = reps[ri]
        cf = ck.write_replay("case_%s_%d.txt" % (re.sub(r"[^A-Za-z0-9]+", "_", key)[:60], ri), "\n".join(cases[ci][:idx + 1]) + "\n")
        return {"case_file": cf, "case": cases[ci][:idx + 1], "step_replayed": "line %d" % idx, "implementation_state_before": io[ci][0][idx - 1], "implementation_state_after": io[ci][0][idx],
                "model_input": line, "model_output": rout[ri][0][0], "replay_cmd": "python3 tools/c10.py --replay %s" % cf}
    for kind_, (nm, what, monwhat) in RK.items():
        for key in sorted(rmon[kind_]):
            ri, msg = rmon[kind_][key][0]
            ck.violation(key, replay_obj(ri, key), "spec monitor fails on the implementation (%d steps): %s" % (len(rmon[kind_][key]), msg))
        n_unknown_r = sum(len(v) for k, v in rmon[kind_].items() if ck.match_known(k) is None)
        ck.oblige("spec monitors on %d %s" % (rcount[kind_], monwhat), n_unknown_r == 0, "" if n_unknown_r == 0 else "keys %s" % sorted(rmon[kind_])[:4])
        if rdis[kind_] and n_unknown_r == 0:
            ri, diff = rdis[kind_][0]; rp = replay_obj(ri, "correspondence-" + nm); rp["difference"] = diff
            rp["broken"] = "correspondence " + what
            ck.violation("correspondence-" + nm, rp, "correspondence %s no longer checks (%d of %d replayed steps differ, first: %s); the spec monitors pass on every explored input" % (what, len(rdis[kind_]), rcount[kind_], diff), no_input=True)
        ck.oblige("correspondence %s on %d steps replayed from the implementation's own previous state (%s)" % (
            what, rcount[kind_], ", ".join("%s %d" % kv_ for kv_ in sorted(rstats[kind_].items()))[:1500]), not rdis[kind_],
            "" if not rdis[kind_] else "%d disagreements, first: %s" % (len(rdis[kind_]), rdis[kind_][0][1]))
        ck.cov[nm + "_replayed_steps"] = rstats[kind_]

    # ------------------------------------------------------------------ trust-region Newton: monitors on whole histories, every
    # single step replayed by the extracted tr_step (trustRegionCG + radius / acceptance rule) from the state the C++ reports
    tio = run_cases(trn_exe, trn_cases, os.path.join(tmpd, "trn_impl.txt"), timeout=3000)
    def trn_one(lines):
        o_, rc_, e_ = run_cases(trn_exe, [lines], os.path.join(tmpd, "trn_shrink.txt"), timeout=600)[0]
        if rc_ != 0: return [("monitor:crash:TRN", "implementation crashed/stopped after %d of %d lines (rc=%s) %s" % (len(o_), len(lines), rc_, e_.strip()[-200:]))], o_
        return monitor_trn(lines, o_), o_
    def trn_report(ci, key):
        c = trn_cases[ci]; small = c
        if len(c) > 2: small = [c[0]] + ddmin(c[1:], lambda ops: any(k == key for k, _ in trn_one([c[0]] + ops)[0]), max_runs=60)
        # turn the last block R k into the single steps up to the first failing one
        if small[-1].startswith("R "):
            k_ = int(small[-1].split()[1])
            for j in range(1, min(k_, 400) + 1):
                cand = small[:-1] + ["S"] * j
                if any(k == key for k, _ in trn_one(cand)[0]): small = cand; break
        msgs, o_ = trn_one(small)
        cf = ck.write_replay("case_%s_%d.txt" % (re.sub(r"[^A-Za-z0-9]+", "_", key)[:60], ci), "\n".join(small) + "\n")
        h_ = parse_trn_header(small[0])
        return {"case_file": cf, "case": small, "objective": ("0.5 x'Ax - b'x" if h_["kind"] == "quad" else "sum p (x[i+1]-x[i]^2)^2 + (1-x[i])^2, p = A[0]"), "A": h_["A"], "b": h_["b"], "start": h_["x0"],
                "initial_radius": h_["delta0"], "minImprovementRatio": h_["ratio"], "implementation_output": o_[-3:], "monitor": [m for _, m in msgs],
                "replay_cmd": "python3 tools/c10.py --replay %s" % cf}, msgs
    tmon = {}
    for ci, c in enumerate(trn_cases):
        o_, rc_, e_ = tio[ci]
        msgs = ([("monitor:crash:TRN", "implementation crashed/stopped after %d of %d lines (rc=%s) %s" % (len(o_), len(c), rc_, e_.strip()[-200:]))] if rc_ != 0 else monitor_trn(c, o_))
        for key, msg in msgs[:1]: tmon.setdefault(key, []).append((ci, msg))
    n_unknown_t = 0
    for key in sorted(tmon)[:8]:
        ci, msg = tmon[key][0]
        if ck.match_known(key) is None: n_unknown_t += len(tmon[key])
        rp, msgs = trn_report(ci, key); rp["cases_failing_with_this_key"] = len(tmon[key])
        ck.violation(key, rp, "spec monitor fails on the implementation (TrustRegionNewton, %d histories): %s" % (len(tmon[key]), next((m for k, m in msgs if k == key), msg)))
    for key in sorted(tmon)[8:]:
        if ck.match_known(key) is None: n_unknown_t += len(tmon[key])
    trn_steps = sum(steps_of(l) for c in trn_cases for l in c[1:])
    ck.oblige("spec monitors (value = objective at the point, gradient / Hessian = derivatives at the point, finite, never increases, trial point inside the trust region, minimiser of strictly convex quadratics within %d steps) after init and after every one of %d steps of %d TrustRegionNewton histories" % (TRN_BUDGET, trn_steps, len(trn_cases)),
              n_unknown_t == 0, "" if n_unknown_t == 0 else "%d histories fail under keys %s" % (n_unknown_t, sorted(k for k in tmon if ck.match_known(k) is None)[:6]))

    treps = build_trn_replays(trn_cases, tio)
    trout = run_cases(model, [[r[2]] for r in treps], os.path.join(tmpd, "trn_model.txt"))
    tstats = {}; tdis = []; trmon = {}
    for ri, ((ci, idx, line, pre, post, h_), (o_, rc_, e_)) in enumerate(zip(treps, trout)):
        if rc_ != 0 or not o_: raise RuntimeError("model driver failed on the replay line %s: %s" % (line[:300], e_))
        cls_, diff, msgs = judge_trn_replay(o_[0], pre, post, h_)
        tstats[cls_] = tstats.get(cls_, 0) + 1
        for key, msg in msgs[:1]: trmon.setdefault(key, []).append((ri, msg))
        if diff: tdis.append((ri, diff))
    def trn_replay_obj(ri):
        ci, idx, line, pre, post, h_ = treps[ri]
        cf = ck.write_replay("case_trn_step_%d.txt" % ri, "\n".join(trn_cases[ci][:idx + 1]) + "\n")
        return {"case_file": cf, "case": trn_cases[ci][:idx + 1], "step_replayed": "line %d" % idx, "implementation_state_before": tio[ci][0][idx - 1], "implementation_state_after": tio[ci][0][idx],
                "model_input": line, "model_output": trout[ri][0][0], "replay_cmd": "python3 tools/c10.py --replay %s" % cf}
    for key in sorted(trmon):
        ri, msg = trmon[key][0]
        ck.violation(key, trn_replay_obj(ri), "spec monitor fails on the implementation (TrustRegionNewton, %d steps): %s" % (len(trmon[key]), msg))
    n_unknown_tr = sum(len(v) for k, v in trmon.items() if ck.match_known(k) is None)
    ck.oblige("spec monitors on %d single TrustRegionNewton steps (trial point inside the trust region; evalDerivative exactly when the point moves; radius changes by 1/4, 1 or 2)" % len(treps),
              n_unknown_tr == 0, "" if n_unknown_tr == 0 else "keys %s" % sorted(trmon)[:4])
    what_t = "C10TrustRegion (tr_step: tr_cg = trustRegionCG / borderDistance / errorDifference, radius update, acceptance rule; double and rational instance) vs TrustRegionNewton.cpp (step)"
    if tdis and n_unknown_tr == 0 and n_unknown_t == 0:
        ri, diff = tdis[0]; rp = trn_replay_obj(ri); rp["difference"] = diff; rp["broken"] = "correspondence " + what_t
        ck.violation("correspondence-trn", rp, "correspondence %s no longer checks (%d of %d replayed steps differ, first: %s); the spec monitors pass on every explored input" % (what_t, len(tdis), len(treps), diff), no_input=True)
    ck.oblige("correspondence %s on %d steps replayed from the implementation's own previous state (%s)" % (what_t, len(treps), ", ".join("%s %d" % kv_ for kv_ in sorted(tstats.items()))[:3000]),
              not tdis, "" if not tdis else "%d disagreements, first: %s" % (len(tdis), tdis[0][1]))
    if not ck.replay:
        # every case split of step / trustRegionCG must have been exercised by the run
        need = {"zero gradient (0/0 in borderDistance, NaN step rejected)": r"\(zero-gradient\)", "CG stops at the tolerance": r"^tol/", "border reached in the first CG iteration": r"^border@it0",
                "border reached in a later CG iteration (z != 0)": r"^border@it[123]", "non-positive curvature (normH <= 0)": r"^negcurv@", "rho < 0.25 (radius / 4)": r"/shrink/",
                "rho > 0.75 on the border (radius * 2)": r"/grow/", "rho between the thresholds (radius kept)": r"/rho<=\.75/keep/accept", "rejected step (rho < minImprovementRatio)": r"/reject",
                "accepted with a shrunk radius (ratio <= rho < 0.25)": r"/rho<\.25/shrink/accept", "rejected with the radius kept (0.25 <= rho < ratio)": r"/rho<ratio/keep/reject",
                "exact regime (no rounding in the whole step, rational instance hit exactly)": r"/rational-exact"}
        missing = [k_ for k_, pat in need.items() if not any(re.search(pat, c_) for c_ in tstats)]
        ck.oblige("the replayed TrustRegionNewton steps exercise every case split of step / trustRegionCG (%d classes)" % len(need), not missing, "not exercised: %s" % missing if missing else "")
    ck.cov["trn_replayed_steps"] = tstats
    ck.cov["trn_histories"] = len(trn_cases); ck.cov["trn_steps"] = trn_steps
    tcls = {}
    for c in trn_cases: k_ = "TRN/" + " ".join(c[0].split()[1:4:2]); tcls[k_] = tcls.get(k_, 0) + 1
    ck.cov["trn_convergence"] = dict(TRN_OBS)
    ck.cov["trn_histories_ending_with_radius_squared_underflow"] = sum(1 for c, (o_, rc_, e_) in zip(trn_cases, tio) if o_ and "delta=" in o_[-1] and fh(kv(o_[-1])["delta"]) ** 2 == 0.0)
    ck.cov["trn_histories_ending_with_nonpositive_radius"] = sum(1 for c, (o_, rc_, e_) in zip(trn_cases, tio) if o_ and "delta=" in o_[-1] and not fh(kv(o_[-1])["delta"]) > 0)

    # ------------------------------------------------------------------ coverage
    steps = sum(steps_of(l) for c in cases for l in c[1:])
    lines = sum(len(c) for c in cases)
    cls = {}
    for c in cases:
        h = c[0].split(); k = "%s/%s/%s" % (h[1], h[2] if h[1] in LS_OPTS else "-", h[3]); cls[k] = cls.get(k, 0) + 1
    ck.cov["evaluations"] = lines + len(ls_lines) + sum(len(c) for c in trn_cases) + len(treps)
    ck.cov["distinct_nontrivial"] = len(set("\n".join(c) for c in cases if sum(steps_of(l) for l in c[1:]) >= 3))
    ck.cov["rule"] = ("optimizer histories: header (optimizer, line-search type, objective, start) + steps S / step blocks R k / save-restore points W; "
                      "evaluations = state lines judged (each line: value==objective, finite, feasible, monotone, restored==original; R lines aggregate the per-step predicates of k steps, "
                      "%d optimizer steps in total); non-trivial = at least 3 steps; distinct = distinct case text. Exact-regime generator: dyadic SPD matrices n<=4, |g0|_1 a power of two in 70%%" % steps)
    ck.cov["samples"] = [cases[0][:4], cases[-1][:4]] if cases else []
    ck.cov["optimizer_steps"] = steps
    ck.cov["state_lines_compared_exactly"] = stats["exact"]; ck.cov["state_lines_compared_1e-9"] = stats["tol"]
    ck.cov["exact_regime_values_not_representable_as_double"] = {"count": stats.get("exact_regime_rounded_values", 0),
        "rule": "only L-BFGS m_bdiag = y'y / y's; the implementation's double must lie within 2n+1 ulps (n = dimension: 2 inner products of n terms + 1 division, half an ulp per operation, rounded up) of the exact rational; every model value that is a double is compared for equality"}
    ck.cov["comparisons_stopped_at_exact_minimiser"] = stats.get("stopped_at_minimiser", 0)
    ck.cov["comparisons_stopped_near_minimiser_inexact_regime"] = stats.get("stopped_near_minimiser", 0)
    cls.update(tcls)
    ck.cov["classes"] = cls
    ck.cov["save_restore_points"] = sum(1 for c in cases for l in c if l == "W")
    ck.cov["convergence_runs"] = sum(1 for c in cases if c[0].split()[3] == "quad" and c[0].split()[1] in LIB_LS and "x" in c[0] and sum(steps_of(l) for l in c[1:]) >= 200)
    ck.cov["disagreements_checked"] = len(dis) + sum(len(v) for v in mon.values())
    ck.finish()


if __name__ == "__main__":
    main()
