#!/bin/sh
# usage: tools/seedsweep.sh "<seeds>" [ids...]   — runs every quick check with several VERIF_SEED values (false-alarm hunt)
# evidence goes to build/ (VERIF_EVIDENCE_DIR) so that committed evidence is not overwritten by sweep runs
seeds=$1; shift
cd "$(dirname "$0")/.."
[ -d coq/theories ] || exit 2
ids=${*:-"C01 C02 C03 C04 C05 C06 C07 C08 C09 C10 C11 C12 C13 C14 C15 C16 C17 C18 C19 C20"}
mkdir -p build/sweep
for s in $seeds; do for id in $ids; do
  cmd=$(python3 -c "import json;print([c['quick_cmd'] for c in json.load(open('MANIFEST.json'))['checks'] if c['property_id']=='$id'][0])")
  echo "$id $s $cmd"
done; done | xargs -P ${SWEEP_PAR:-3} -L 1 sh -c 'id=$0; s=$1; shift; t0=$(date +%s); VERIF_SEED=$s VERIF_SWEEP=1 "$@" > build/sweep/$id.$s.log 2>&1; rc=$?; echo "$id seed=$s rc=$rc wall=$(( $(date +%s)-t0 )) $(grep -c VIOLATION build/sweep/$id.$s.log) violations"'
