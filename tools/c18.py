#!/usr/bin/env python3
"""C18 — serialization round-trips preserve behaviour.

  1. proofs: Properties_C18.v (codec round trip, sequence/class round trip, mismatch diagnostics; nested descriptions:
     round trip and member coverage by structural induction, Data<T> layout; text/binary vector stream alignment);
  2. translator self-test: synthetic classes under harness/c18_selftest/*.cpp (never linked: source-level translation,
     coqc of the generated obligations, clang AST dump): read()/write() that delegate to one helper are translated by
     inlining the helper; a member lost in such a refactoring is the only thing reported;
  3. tie (translator, every run): tools/translate_serial.py re-reads the read/write/serialize bodies and
     the data members of every serializable class from the CURRENT tree and emits one small Coq file
     per class (coq/gen/c18/C18_<X>.v) with the obligations rw_X / cover_X / stale_X / nrw_X / rebuild_X (derived state:
     every transient member is re-established by read() at or after the last streaming statement, or exempt with a
     reason; the source-level reading is confirmed on clang's AST; key transient-not-rebuilt:<Class>::<member>); each file is
     compiled on its own, so one broken class does not hide the others; coq/gen/C18NestedAll.v then plugs the nested
     descriptions together (member classes first) and instantiates the nested round-trip theorem per class, and
     coq/gen/C18DataTie.v ties the regenerated description of Data/LabeledData/Shape to the modelled layout;
  4. tie of the vector-stream model (C18Text.v, extracted, ocaml/c18_driver.ml): the words / bytes Boost's text / binary
     archive contains for consecutive vectors (harness class VectorStream) equal the model's stream;
  5. monitor (always) and search (when an obligation of a class fails): the C++ round-trip harness
     harness/c18_*.cpp, text and binary archives, fresh instance differing in all streamed state; every model / kernel
     case also compares ALL advertised behaviours (harness/c18_behave.h: eval batch / with state / single, and where the
     flags advertise them weightedParameterDerivative, weightedInputDerivative, weightedDerivatives on a fixed probe batch
     and coefficient matrix) of the object restored into a default-constructed and into a differently structured /
     parameterised object, before any setter is called; key roundtrip:<Class>:<behaviour>.
"""
import os, sys, re, json, shutil
from concurrent.futures import ThreadPoolExecutor
sys.path.insert(0, os.path.dirname(os.path.abspath(__file__)))
from vlib import *
import translate_serial as TS

PID = "C18"

HARNESS_SRC = ["c18_roundtrip.cpp", "c18_rt_models.cpp", "c18_rt_kernels.cpp", "c18_rt_data.cpp", "c18_rt_opt.cpp"]
REPO_SRC = []   # filled from harness/c18_sources.txt (one /repo-relative path per line)

# harness CLASS names -> translated class names whose obligations they exercise
HARNESS_TO_CLASSES = {
    "Data": ["Data", "SharedContainer", "Shape"], "LabeledData": ["LabeledData", "Data", "SharedContainer", "Shape"],
    "LinearModelTanh": ["LinearModel"], "Classifier": ["Classifier", "LinearModel"],
    "BFGS": ["BFGS", "AbstractLineSearchOptimizer", "LineSearch"], "LBFGS": ["LBFGS", "AbstractLineSearchOptimizer", "LineSearch"],
    "CG": ["CG", "AbstractLineSearchOptimizer", "LineSearch"],
    "CMA": ["CMA", "MultiVariateNormalDistribution"], "CMSA": ["CMSA", "MultiVariateNormalDistribution"],
    "ElitistCMA": ["ElitistCMA", "CMAChromosome", "Individual", "MultiVariateNormalDistributionCholesky"],
    "BinaryRBM": ["RBM", "BinaryLayer"], "ModelKernel": ["ModelKernel", "ModelKernelImpl"],
    "RealVector": ["vector"], "RealMatrix": ["matrix"], "CompressedRealMatrix": ["compressed_matrix", "compressed_matrix_impl", "MatrixStorage"],
    "CARTree": ["CARTree", "Node"], "SimplexDownhill": ["SimplexDownhill"],
}
_HV = ["IndicatorBasedSelection", "HypervolumeIndicator", "HypervolumeContribution", "HypervolumeContributionApproximator"]
_IND = ["Individual", "ResultSet"]
_CMAIND = _IND + ["CMAChromosome", "MultiVariateNormalDistributionCholesky", "cholesky_decomposition"]
_VAR = ["SimulatedBinaryCrossover", "PolynomialMutator"]
HARNESS_TO_CLASSES.update({
    "SMSEMOA": ["SMSEMOA"] + _HV + _VAR + _IND,
    "MOCMA": ["IndicatorBasedMOCMA"] + _HV + _CMAIND,
    "EpsilonMOCMA": ["IndicatorBasedMOCMA", "IndicatorBasedSelection", "AdditiveEpsilonIndicator"] + _CMAIND,
    "SteadyStateMOCMA": ["IndicatorBasedSteadyStateMOCMA"] + _HV + _CMAIND,
    "RealCodedNSGAII": ["IndicatorBasedRealCodedNSGAII"] + _HV + _VAR + _IND,
    "EpsRealCodedNSGAII": ["IndicatorBasedRealCodedNSGAII", "IndicatorBasedSelection", "AdditiveEpsilonIndicator"] + _VAR + _IND,
    "CrowdingRealCodedNSGAII": ["IndicatorBasedRealCodedNSGAII", "IndicatorBasedSelection", "CrowdingDistance"] + _VAR + _IND,
    "RealCodedNSGAIII": ["IndicatorBasedRealCodedNSGAII", "IndicatorBasedSelection", "NSGA3Indicator"] + _VAR + _IND,
    "HypervolumeIndicator": _HV[1:], "IndicatorBasedSelection": _HV,
    "CMAIndividual": _CMAIND,
    "WeightedUnlabeledData": ["BaseWeightedDataset", "Data", "SharedContainer", "Shape"],
    "WeightedLabeledData": ["BaseWeightedDataset", "LabeledData", "Data", "SharedContainer", "Shape"],
    "HardClusteringModel": ["ClusteringModel", "Centroids", "Data", "SharedContainer", "Shape"],
    "ValidatedSingleObjectiveResultSet": ["ValidatedSingleObjectiveResultSet", "ResultSet"],
    "Conv2DModel": ["Conv2DModel"], "PoolingLayer": ["PoolingLayer", "Shape"], "ResizeLayer": ["ResizeLayer", "Shape"],
    "CMACMap": ["CMACMap", "Shape"], "VectorStream": ["vector"],
})


# Classes whose archive is EMPTY by construction: the translator finds no read()/write() that Boost or ISerializable would
# ever call.  Their harness failures are reported under the stable key roundtrip:<Class>:state-not-streamed (registered by
# the lead as known findings C18-MOOSER / C18-NOSTATE for the five classes of the unchanged tree; any further class of this
# kind is an ordinary VIOLATION).
STATE_NOT_STREAMED_WHY = {
    "RVEA": "RVEA declares `template<class Archive> void serialize(Archive&)` (ONE parameter) instead of read()/write(): Boost never calls it, "
            "it hides ISerializable::serialize so that `archive << rvea` does not compile, and through an ISerializable&/AbstractOptimizer& "
            "reference the empty default read()/write() run: nothing is written, the restored optimizer keeps the fresh object's state",
    "MOEAD": "MOEAD: same as RVEA (one-parameter serialize(Archive&) that nothing calls; empty inherited read()/write())",
}
ONE_PARAMETER_SERIALIZE = ("RVEA", "MOEAD")      # optimizers among translate_serial.EXCLUDED ("one-parameter serialize(Archive&) that nothing calls")


def state_key(cls):
    return "roundtrip:%s:state-not-streamed" % cls


def unstreamed_optimizers(classes, texts):
    """concrete-looking descendants of AbstractOptimizer with own data members whose effective write() is
    ISerializable's empty default"""
    out = []
    for name, cs in sorted(classes.items()):
        c = TS.resolve(classes, name)
        anc = [a.name for a in TS.ancestors(classes, c)]
        if "AbstractOptimizer" not in anc or name.startswith("Abstract") or not c.members: continue
        f, owner, _ = TS.effective_func(classes, texts, c, "write")
        g, gowner, _ = TS.effective_func(classes, texts, c, "read")
        if (owner is None or owner.name == "ISerializable") and (gowner is None or gowner.name == "ISerializable"):
            out.append(name)
    return out


def gen_dir():
    if os.path.realpath(REPO) == os.path.realpath("/repo"):
        return os.path.join(COQ, "gen"), os.path.join(COQ, "gen", "c18")
    # a scratch tree must not overwrite the shared generated files
    h = hashlib.sha256(os.path.realpath(REPO).encode()).hexdigest()[:10]
    g = os.path.join(BUILD, "gen_c18_" + h)
    return g, os.path.join(g, "c18")


def write_if_changed(p, s):
    if os.path.exists(p) and open(p).read() == s: return False
    open(p, "w").write(s); return True


def coqc_class(gen_root, path, outdir=None):
    """compile one generated file; returns (ok, failing theorem names, log)"""
    failed = []
    src = open(path).read()
    cur = src; tmp = path
    for it in range(8):
        cmd = ["coqc", "-Q", os.path.join(COQ, "theories"), "SharkV", "-Q", gen_root, "SharkGen", tmp]
        rc, out, err = sh(cmd, timeout=300)
        if rc == 0:
            break
        m = re.search(r'line (\d+), characters', err)
        if not m:
            return False, ["<coqc error>"], err[-1500:]
        ln = int(m.group(1))
        lines = cur.split("\n")
        # theorem enclosing this line
        k = ln - 1
        while k >= 0 and not lines[k].startswith("Theorem "): k -= 1
        if k < 0:
            return False, ["<coqc error>"], err[-1500:]
        name = re.match(r"Theorem (\w+)", lines[k]).group(1)
        failed.append(name)
        # drop that theorem (statement line + proof line) and try the rest, in a scratch copy
        del lines[k:k + 2]
        cur = "\n".join(lines)
        td = os.path.join(BUILD, "tmp", PID, "coq"); os.makedirs(td, exist_ok=True)
        tmp = os.path.join(td, os.path.basename(path))
        open(tmp, "w").write(cur)
    return not failed, failed, ""


def run_translator(ck):
    results, classes = TS.translate(REPO)
    results = [r for r in results if r["name"] not in TS.EXCLUDED]
    groot, gdir = gen_dir()
    os.makedirs(gdir, exist_ok=True)
    keep = set()
    for r in results:
        fn = "C18_%s.v" % TS.ident(r["uid"])
        keep.add(fn)
        write_if_changed(os.path.join(gdir, fn), r["coq"])
    for f in os.listdir(gdir):
        if f.endswith(".v") and f not in keep:
            for ext in (".v", ".vo", ".vok", ".vos", ".glob"):
                q = os.path.join(gdir, f[:-2] + ext)
                if os.path.exists(q): os.remove(q)
    # the model must be compiled first
    ok, lg = coq_build(["theories/C18NestedProofs.vo"])
    if not ok:
        ck.oblige("C18Model.v / C18Nested*.v compile", False, lg[-1500:])
        return results, {}
    with ThreadPoolExecutor(max_workers=6) as ex:
        outs = list(ex.map(lambda r: coqc_class(groot, os.path.join(gdir, "C18_%s.v" % TS.ident(r["uid"]))), results))
    status = {}
    for r, (ok, failed, lg) in zip(results, outs):
        status[r["uid"]] = (ok, failed, lg)
    # index file: requires every class whose obligations hold
    good = [r for r in results if status[r["uid"]][0]]
    bad = [r for r in results if not status[r["uid"]][0]]
    idx = ["(* GENERATED by tools/c18.py: index of the per-class obligation files (coq/gen/c18/C18_<X>.v).",
           "   Classes whose obligations currently FAIL are not required here:"]
    idx += ["     %s : %s" % (r["uid"], ", ".join(status[r["uid"]][1])) for r in bad]
    idx += ["*)"]
    idx += ["From SharkGen.c18 Require Export C18_%s." % TS.ident(r["uid"]) for r in good]
    write_if_changed(os.path.join(groot, "C18Classes.v"), "\n".join(idx) + "\n")
    rc, out, err = sh(["coqc", "-Q", os.path.join(COQ, "theories"), "SharkV", "-Q", groot, "SharkGen", os.path.join(groot, "C18Classes.v")], timeout=300)
    ck.oblige("gen/C18Classes.v (index of %d class files) compiles" % len(good), rc == 0, err[-800:])
    nested_compose(ck, groot, results, status)
    return results, status


def nested_compose(ck, groot, results, status):
    """gen/C18NestedAll.v: plug the per-class nested descriptions together (member classes first) and instantiate the
    nested round-trip / coverage theorem of C18NestedProofs.v for every class whose own obligations and those of all
    classes nested in it hold.  rw of a class USES rw of its member classes (rewrite deep_rw_<Y>; apply nrw_<X>)."""
    byuid = {r["uid"]: r for r in results}
    okcls = {u for u, r in byuid.items() if status.get(u, (False,))[0] and not r["problems"]}
    blocked = {}
    for u, r in byuid.items():
        if u not in okcls: blocked[u] = "own obligations fail"
        elif r["nested"]["loops"]: blocked[u] = "loop over constructor-fixed structure (described per iteration count, not composed)"
        elif r["nested"]["read"] != r["nested"]["write"]: blocked[u] = "member classes differ between read and write"
    order = []; state = {}
    def visit(u, path):
        if u in blocked: return False
        if state.get(u) == "done": return True
        if u in path:
            blocked[u] = "recursive type"; return False
        for y in byuid[u]["nested"]["write"]:
            if y not in byuid or not visit(y, path + [u]):
                blocked.setdefault(u, "member class %s: %s" % (y, blocked.get(y, "not translated")))
                return False
        state[u] = "done"; order.append(u); return True
    for u in sorted(byuid): visit(u, [])
    L = ["(* GENERATED by tools/c18.py -- do not edit.  Nested descriptions of %d classes composed from the per-class files;" % len(order),
         "   not composed (%d):" % len(blocked)]
    L += ["     %s : %s" % (u, w) for u, w in sorted(blocked.items())]
    L += ["*)", "From Coq Require Import List String.", "From SharkV Require Import C18Model C18Nested C18NestedProofs."]
    L += ["From SharkGen.c18 Require Import C18_%s." % TS.ident(u) for u in order]
    L += ["Import ListNotations.", "Open Scope list_scope."]
    for u in order:
        X = TS.ident(u); ns = byuid[u]["nested"]["write"]
        L.append("Definition W_%s : desc := wdesc_%s%s." % (X, X, "".join(" W_" + TS.ident(y) for y in ns)))
        L.append("Definition R_%s : desc := rdesc_%s%s." % (X, X, "".join(" R_" + TS.ident(y) for y in ns)))
        rw = " ".join("rewrite ?deep_rw_%s." % TS.ident(y) for y in ns)
        L.append("Theorem deep_rw_%s : R_%s = W_%s.\nProof. unfold R_%s, W_%s. %s apply nrw_%s. Qed." % (X, X, X, X, X, rw, X))
        L.append("Theorem deep_wf_%s : wfd W_%s = true.\nProof. vm_compute. reflexivity. Qed." % (X, X))
        L.append("Theorem deep_cover_%s : ncovers W_%s = true.\nProof. vm_compute. reflexivity. Qed." % (X, X))
        L.append("Theorem roundtrip_%s : forall x fresh rest, ntyped W_%s x = true ->\n  exists x', nread R_%s fresh (nwrite W_%s x ++ rest) = Some (x', rest) /\\ streq W_%s x x' /\\ restored W_%s x x'.\n"
                 "Proof. exact (nested_class_roundtrip R_%s W_%s deep_rw_%s deep_wf_%s deep_cover_%s). Qed." % ((X,) * 11))
    deep = [u for u in order if byuid[u]["nested"]["write"]]
    for u in deep[:3] + order[-1:]: L.append("Print Assumptions roundtrip_%s." % TS.ident(u))
    fn = os.path.join(groot, "C18NestedAll.v")
    write_if_changed(fn, "\n".join(L) + "\n")
    rc, out, err = sh(["coqc", "-Q", os.path.join(COQ, "theories"), "SharkV", "-Q", groot, "SharkGen", fn], timeout=600)
    closed = out.count("Closed under the global context")
    ck.oblige("gen/C18NestedAll.v: nested round-trip theorem instantiated for %d classes (%d of them with member classes; rw/cover of a class use those of its member classes), axiom-free" % (len(order), len(deep)),
              rc == 0 and closed == len(set(deep[:3] + order[-1:])), (err[-800:] + " | Print Assumptions: " + out[-300:]) if rc != 0 or closed == 0 else "")
    # tie of the hand-written Data<T> layout (C18Nested.v: data_desc_prim / shape_desc, for which the Data<T> theorems are
    # proved) to the description regenerated from Dataset.h / Dataset.inl / Shape.h on this run
    if rc == 0 and all(c in order for c in ("Data", "SharedContainer", "Shape", "LabeledData")):
        T = ["(* GENERATED by tools/c18.py -- do not edit. *)", "From Coq Require Import List String.",
             "From SharkV Require Import C18Model C18Nested C18NestedProofs.", "From SharkGen Require Import C18NestedAll.",
             "Import ListNotations.", "Open Scope string_scope.", "Open Scope list_scope.",
             "Theorem data_layout_tie : exists tag, W_Data = data_desc_prim (KAtom tag).\nProof. eexists. reflexivity. Qed.",
             "Theorem shape_layout_tie : W_Shape = shape_desc.\nProof. reflexivity. Qed.",
             "Theorem labeled_data_layout_tie : exists tag, W_LabeledData = DObj [\"m_data\"; \"m_label\"] [] (FCons \"m_data\" \"m_data\" \"\" (data_desc_prim (KAtom tag)) (FCons \"m_label\" \"m_label\" \"\" (data_desc_prim (KAtom tag)) FNil)).\nProof. eexists. reflexivity. Qed."]
        tf = os.path.join(groot, "C18DataTie.v")
        write_if_changed(tf, "\n".join(T) + "\n")
        rc2, out2, err2 = sh(["coqc", "-Q", os.path.join(COQ, "theories"), "SharkV", "-Q", groot, "SharkGen", tf], timeout=300)
        ck.oblige("gen/C18DataTie.v: regenerated descriptions of Data / LabeledData / Shape equal the modelled layout (data_desc_prim, shape_desc) the Data<T> theorems are about",
                  rc2 == 0, err2[-800:])
    else:
        ck.oblige("gen/C18DataTie.v: Data / SharedContainer / Shape / LabeledData composed", False,
                  "; ".join("%s: %s" % (c, blocked.get(c, "?")) for c in ("Data", "SharedContainer", "Shape", "LabeledData") if c not in order))
    ck.notes["nested_composed"] = {"classes": order, "with_member_classes": {u: byuid[u]["nested"]["write"] for u in deep}, "not_composed": blocked}
    log("[C18] nested: %d classes composed (%d with member classes), %d not composed" % (len(order), len(deep), len(blocked)))


def explain(r, failed):
    """human-readable reason per failing obligation, computed from the translator's data"""
    msgs = []
    wf = r["fields"]["write"]; rf = r["fields"]["read"]
    for th in failed:
        if th.startswith("rw_"):
            wn = [(f["name"], f["guard"]) for f in wf]; rn = [(f["name"], f["guard"]) for f in rf]
            i = 0
            while i < min(len(wn), len(rn)) and wn[i] == rn[i]: i += 1
            w = wn[i][0] if i < len(wn) else "<end>"; rd = rn[i][0] if i < len(rn) else "<end>"
            only_w = [n for n, _ in wn if n not in [x for x, _ in rn]]
            only_r = [n for n, _ in rn if n not in [x for x, _ in wn]]
            if only_w or only_r:
                d = "; ".join((["written but not read: " + ", ".join(only_w)] if only_w else []) + (["read but not written: " + ", ".join(only_r)] if only_r else []))
            else:
                d = "order/guard differs"
            msgs.append(("rw", "read/write mismatch at position %d (write streams %s, read streams %s); %s" % (i, w, rd, d), (w if w != "<end>" else rd)))
        elif th.startswith("cover_"):
            roots = set(f["root"] for f in wf); tr = set(m for m, _ in r["transient"])
            unc = [m for m in r["members"] if m not in roots and m not in tr]
            for m in unc:
                msgs.append(("cover", "member %s (%s, declared in %s) is neither streamed by write nor listed as transient" % (m, r["member_types"].get(m, "?"), r["member_decl"].get(m, "?")), m))
        elif th.startswith("stale_"):
            msgs.append(("stale", "transient table entry no longer matches the class (member gone or now streamed)", "transient"))
        elif th.startswith("rebuild_"):
            for m, d in sorted(r.get("rebuild", {}).items()):
                if d["status"] == "untouched":
                    msgs.append(("rebuild", "transient member %s (%s, declared in %s; transient because: %s) is derived state that read() does not re-establish: %s" % (
                        m, r["member_types"].get(m, "?"), r["member_decl"].get(m, "?"), dict(r["transient"]).get(m, "?"), d["how"]), m))
        elif th.startswith("nrw_"):
            if any(t.startswith("rw_") for t in failed): continue        # the same mismatch, already explained by rw_X
            msgs.append(("rw", "nested read/write descriptions differ (member-class references)", "nested"))
        elif th.startswith("translator_ok_"):
            msgs.append(("translator", "; ".join(r["problems"]), "translator"))
        else:
            msgs.append(("coqc", th, th))
    return msgs


def run_selftest(ck, tmpd):
    """translator self-test on the synthetic classes of harness/c18_selftest/*.cpp (never linked; source-level
    translation + coqc of the generated obligations + clang AST dump).  Every file states what must come out:
        // EXPECT <Class>: ok                      all obligations of the class hold
        // EXPECT <Class>: cover m_x[, rw m_y ...]  exactly these obligations fail, naming exactly these members
    This pins the translator's behaviour on helper delegation: a read()/write() pair that delegates to one helper is
    translated by inlining the helper, and a member lost in such a refactoring is the ONLY thing reported."""
    sdir = os.path.join(ROOT, "harness", "c18_selftest")
    files = sorted(os.path.join(sdir, f) for f in os.listdir(sdir) if f.endswith(".cpp")) if os.path.isdir(sdir) else []
    expect = {}; where = {}
    for f in files:
        for m in re.finditer(r"^// EXPECT (\w+):\s*(.+)$", open(f).read(), re.M):
            expect[m.group(1)] = sorted(x.strip() for x in m.group(2).split(",")) if m.group(2).strip() != "ok" else []
            where[m.group(1)] = os.path.basename(f)
    saved = (TS.REPO_FOR_REL[0], TS.ALL_CLASSES[0], TS.ALL_TEXTS[0])
    try:
        results, _ = TS.translate(sdir, files=files + [os.path.join(sdir, "c18_st_common.h")])
    finally:
        TS.REPO_FOR_REL[0], TS.ALL_CLASSES[0], TS.ALL_TEXTS[0] = saved
    results = [r for r in results if r["name"] in expect]
    groot = os.path.join(tmpd, "selftest_gen"); gdir = os.path.join(groot, "c18"); os.makedirs(gdir, exist_ok=True)
    for r in results:
        write_if_changed(os.path.join(gdir, "C18_%s.v" % TS.ident(r["uid"])), r["coq"])
    with ThreadPoolExecutor(max_workers=4) as ex:
        outs = list(ex.map(lambda r: coqc_class(groot, os.path.join(gdir, "C18_%s.v" % TS.ident(r["uid"]))), results))
    rep = []
    got = {}
    for r, (ok, failed, lg) in zip(results, outs):
        if failed == ["<coqc error>"]:
            got[r["name"]] = ["coqc " + lg[-200:]]; continue
        g = []
        for kind, msg, member in explain(r, failed):
            g.append(kind if kind in ("translator", "stale") else "%s %s" % (kind, member))
        got[r["name"]] = sorted(set(g))
    for c in sorted(expect):
        if c not in got: rep.append((c, False, "class not found by the translator (%s)" % where[c])); continue
        rep.append((c, got[c] == expect[c], "expected failing obligations %s, got %s" % (expect[c] or "none", got[c] or "none")))
    # independent reading: clang's AST of the same snippets must give the same member sequences (helpers followed)
    tus = {c: where[c] for c in expect if "translator" not in expect[c]}
    ast = TS.ast_crosscheck(sdir, results, repo_includes() + ["-I" + sdir], os.path.join(tmpd, "selftest_ast"), jobs=4, tus=tus)
    # derived state: clang's reading of the rebuild obligations must agree with the source-level one on the same snippets
    for cname, m, st, touched, msg in TS.ast_rebuild_check(sdir, results, repo_includes() + ["-I" + sdir], os.path.join(tmpd, "selftest_ast_rb"), jobs=4, tus=dict(where)):
        ast.append(("%s::%s(rebuild)" % (cname, m), None if touched is None else ((st == "rebuilt") == touched), "source-level: %s; clang: %s" % (st, msg)))
    return rep, ast, results


def stream_tie(ck, hres, tmpd):
    """VectorStream cases: the archive content the C++ harness reports (note=...) must be the stream the extracted model
    produces for the same vectors -- size item then elements, an empty vector = the size item alone -- up to Boost's
    object-id records (one id per saved object when object tracking is on for the type in this program), which are not
    part of the model; and the model's loader must accept its own stream into stale targets."""
    sc = [h for h in hres if h["cls"] == "VectorStream"]
    if not sc: return
    try:
        exe = extract_model(PID, "C18Extract.v", "c18_driver.ml")
    except Exception as ex:
        ck.oblige("extracted vector-stream model builds", False, repr(ex)[-800:]); return
    mf = os.path.join(tmpd, "stream_model.txt")
    open(mf, "w").write("".join("S %s %s %s\n" % (h["fmt"], h["seed"], h["var"]) for h in sc))
    rc, out, err = sh([exe, mf], timeout=300)
    model = {}
    for l in out.split("\n"):
        t = l.split()
        if len(t) >= 8 and t[0] == "S":
            model[(t[1], t[2], t[3])] = dict(x.split("=", 1) for x in t[4:])
    nbad = 0; ncmp = 0; tracked = set(); sens = 0
    for h in sc:
        m = model.get((h["fmt"], h["seed"], h["var"]))
        nm = re.search(r"note=(\S+)", h["rest"])
        if h["status"] != "OK" or m is None or nm is None:
            continue            # a failing round trip is reported by the monitor below
        ncmp += 1
        groups = m["stream"].split("|")
        actual = nm.group(1)
        if h["fmt"] == "text":
            plain = ",".join(groups)
            withid = ",".join("%d,%s" % (i, g) for i, g in enumerate(groups))
        else:
            plain = "".join(groups)
            withid = "".join("%02x000000%s" % (i, g) for i, g in enumerate(groups))
        ok = actual in (plain, withid) and m.get("loaded") == "1" and m.get("lex") in ("1", "-")
        if actual == withid and actual != plain: tracked.add(h["fmt"])
        if m.get("early") == "0": sens += 1
        if not ok:
            nbad += 1
            if nbad == 1:
                case = "VectorStream %s %s %s" % (h["fmt"], h["seed"], h["var"])
                cf = ck.write_replay("case_VectorStream_stream.txt", case + "\n")
                ck.violation("serial:VectorStream:stream layout", {"case_file": cf, "case": case, "implementation_stream": actual,
                              "model_stream": plain, "model_stream_with_object_ids": withid, "model": m,
                              "expected": "archive content = size item then elements per vector (empty vector: the size item alone)",
                              "replay_cmd": "python3 tools/c18.py --replay %s" % cf},
                             "archive stream of consecutive vectors differs from the model: %s -> implementation %s, model %s (loaded=%s lex=%s)" % (
                                 case, actual[:200], plain[:200], m.get("loaded"), m.get("lex")))
    ck.oblige("vector-stream model (C18Text.v, extracted) = archive content of the C++ harness on %d VectorStream cases (text words and binary bytes)" % ncmp,
              ncmp > 0 and nbad == 0, "%d differ" % nbad)
    ck.notes["stream_tie"] = {"cases": ncmp, "object_ids_present_in": sorted(tracked), "cases_with_empty_vector_into_nonempty_target": sens}


def read_sources():
    p = os.path.join(ROOT, "harness", "c18_sources.txt")
    if not os.path.exists(p): return []
    return [l.strip() for l in open(p) if l.strip() and not l.startswith("#")]


def run_harness(exe, lines, tmp):
    """run case lines; one output line per input line; a crash is attributed to the first line without output"""
    outs = []; start = 0; guard = 0
    while start < len(lines) and guard < 40:
        guard += 1
        open(tmp, "w").write("\n".join(lines[start:]) + "\n")
        rc, out, err = sh([exe, tmp], timeout=900)
        ol = [l for l in out.split("\n") if l.strip()]
        outs += ol[:len(lines) - start]
        start += len(ol)
        if start < len(lines) and (rc != 0 or len(ol) == 0):
            outs.append(lines[start] + " CRASH rc=%s %s" % (rc, err.strip()[-120:].replace("\n", " ")))
            start += 1
        elif rc == 0:
            break
    return outs


def classify(line):
    t = line.split()
    if len(t) < 5: return None
    cls, fmt, seed, var, st = t[0], t[1], t[2], t[3], t[4]
    return dict(cls=cls, fmt=fmt, seed=seed, var=var, status=st, rest=" ".join(t[5:]), case=" ".join(t[:4]))


def main():
    ck = Check(PID)
    ck.trusted = DEFAULT_TRUSTED + [
        "tools/translate_serial.py: source-level reading of read/write/serialize bodies and of class-body declarations (comments/strings blanked, brace matching; member-function helpers that are handed the archive are inlined, anything else that is handed the archive is a failing obligation); what it ignores is listed in each generated file",
        "ocaml/c18_driver.ml: element codecs of the vector-stream model (C printf %.17e for text, IEEE bytes for binary); Boost's archive prefix and object-id records are stripped / accounted for in tools/c18.py (stream_tie)",
        "the hand-kept TRANSIENT / ACCESSORS / EXCLUDED / REBUILD_NOT_REQUIRED tables in tools/translate_serial.py (every entry with its reason is copied into the evidence file)",
        "rebuild obligation: 'read() refers to the member, or calls a non-const member function that does, at or after the last streaming statement' is taken as 're-establishes it'; that the recomputed value is the right one is what the harness compares (all advertised behaviours)",
        "modelled not verified: Boost.Serialization (record structure, versions, pointer tracking), remora storage serialization"]
    ck.assumptions = ["behaviour of an object is a function of its non-transient data members and of the structure the user supplies on construction (kernel/layer pointers, objective function, rng)",
                      "the fresh instance is legitimately constructed with the same user-supplied structure (KernelExpansion kernel, ConcatenatedModel layers, optimizer init on the same objective)"]
    ck.proofs()
    tmpd = os.path.join(BUILD, "tmp", PID); os.makedirs(tmpd, exist_ok=True)

    # ---- translator self-test (synthetic classes, helper delegation)
    st_rep, st_ast, st_res = run_selftest(ck, tmpd)
    bad_st = [(c, m) for c, ok, m in st_rep if not ok]
    ck.oblige("translator self-test: %d synthetic classes (helper delegation followed; a dropped member is the only thing reported)" % len(st_rep),
              bool(st_rep) and not bad_st, "; ".join("%s: %s" % x for x in bad_st)[:1500])
    bad_ast = [(c, m) for c, ok, m in st_ast if ok is False]
    ck.oblige("translator self-test: clang AST (helper calls followed) agrees on %d synthetic classes" % sum(1 for _, ok, _ in st_ast if ok),
              not bad_ast, "; ".join("%s: %s" % x for x in bad_ast)[:1500])
    ck.notes["selftest"] = {"classes": {c: m for c, ok, m in st_rep}, "ast_agree": [c for c, ok, _ in st_ast if ok],
                            "ast_skipped": [(c, m) for c, ok, m in st_ast if ok is None]}
    if os.environ.get("C18_SELFTEST_ONLY"):
        for c, ok, m in st_rep: log("[C18] selftest %-12s %s  %s" % (c, "ok  " if ok else "FAIL", m))
        for c, ok, m in st_ast: log("[C18] selftest-ast %-12s %s  %s" % (c, {True: "agree", False: "DISAGREE", None: "skipped"}[ok], m))
        sys.exit(0 if (st_rep and not bad_st and not bad_ast) else 1)     # partial run: no evidence file is written

    # ---- tie: translator obligations
    results, status = run_translator(ck)
    byname = {}
    for r in results: byname.setdefault(r["name"], []).append(r)
    missing = [c for c in TS.REQUIRED if c not in byname]
    ck.oblige("translator finds every anchored class", not missing, "missing: " + ", ".join(missing))
    dead = TS.dead_transient_entries(TS.ALL_CLASSES[0])
    ck.oblige("transient table has no dead entries", not dead, "no such member: " + ", ".join(dead))
    failing = {}      # class name -> list of (kind, message, member)
    nob = 0
    for r in results:
        ok, failed, lg = status.get(r["uid"], (False, ["<not compiled>"], ""))
        nob += 4
        if not ok:
            failing.setdefault(r["name"], []).extend(explain(r, failed) if failed != ["<coqc error>"] else [("coqc", lg[-400:], "coqc")])
    ck.notes["classes_translated"] = [r["uid"] for r in results]
    ck.notes["classes_excluded"] = TS.EXCLUDED
    ck.notes["transient_table"] = {"%s::%s" % k: v for k, v in TS.TRANSIENT.items()}
    ck.notes["rebuild_not_required_table"] = {"%s::%s" % k: v for k, v in TS.REBUILD_NOT_REQUIRED.items()}
    ck.notes["class_obligations"] = {"total": nob, "failing_classes": sorted(failing)}
    log("[C18] translator: %d classes, %d with failing obligations: %s" % (len(results), len(failing), ", ".join(sorted(failing))))

    # ---- second, independent reading of the source: clang's AST for the anchored classes
    rep = TS.ast_crosscheck(REPO, results, repo_includes(), os.path.join(tmpd, "ast"), jobs=4)
    dis = [(c, m) for c, ok, m in rep if ok is False]
    skp = [(c, m) for c, ok, m in rep if ok is None]
    ck.oblige("translator agrees with the clang AST (data members, read/write member sequences) on %d anchored classes" % sum(1 for _, ok, _ in rep if ok),
              not dis, "; ".join("%s: %s" % x for x in dis)[:1500])
    ck.notes["ast_crosscheck"] = {"agree": [c for c, ok, _ in rep if ok], "disagree": dis, "skipped": skp}
    if skp: log("[C18] AST cross-check skipped for: " + "; ".join("%s (%s)" % x for x in skp)[:600])

    # ---- derived state: the rebuild obligations read from clang's AST (authoritative); the source-level reading feeds rebuild_X
    dead_rb = TS.dead_rebuild_entries(TS.ALL_CLASSES[0])
    ck.oblige("rebuild allow-list (REBUILD_NOT_REQUIRED) has no dead entries", not dead_rb, "exempts nothing: " + ", ".join(dead_rb))
    rbrep = TS.ast_rebuild_check(REPO, results, repo_includes(), os.path.join(tmpd, "ast_rebuild"), jobs=4)
    rb_dis = []
    for cname, m, st, touched, msg in rbrep:
        if touched is None:
            log("[C18] AST rebuild check skipped for %s::%s (%s)" % (cname, m, msg[:200])); continue
        if (st == "rebuilt") != touched:
            rb_dis.append("%s::%s: source-level reading says %s, clang: %s" % (cname, m, st, msg))
        if not touched:
            ms = failing.setdefault(cname, [])
            old = [x for x in ms if x[0] == "rebuild" and x[2] == m]
            if old:
                ms[ms.index(old[0])] = ("rebuild", old[0][1] + " | confirmed on clang's AST", m)
            else:
                r0 = byname[cname][0]
                ms.append(("rebuild", "transient member %s (declared in %s; transient because: %s) is derived state that read() does not re-establish: %s" % (
                    m, r0["member_decl"].get(m, "?"), dict(r0["transient"]).get(m, "?"), msg), m))
    ck.oblige("derived state: clang's AST confirms the source-level reading of %d rebuild obligations (%s)" % (
        sum(1 for x in rbrep if x[3] is not None), ", ".join("%s::%s" % (x[0], x[1]) for x in rbrep)), not rb_dis, "; ".join(rb_dis)[:1500])
    ck.notes["rebuild_obligations"] = {"%s::%s" % (r["uid"], m): d for r in results for m, d in sorted(r.get("rebuild", {}).items())}
    ck.notes["rebuild_ast"] = [{"class": c, "member": m, "source_level": st, "ast_touched": t, "detail": msg} for c, m, st, t, msg in rbrep]

    # ---- monitor: round-trip harness
    srcs = [os.path.join(ROOT, "harness", f) for f in sorted(os.listdir(os.path.join(ROOT, "harness"))) if re.match(r"c18_.*\.cpp$", f)]
    exe, err = cxx_build("c18_roundtrip", srcs + repo_src(*read_sources()))
    hres = []
    cases = []
    if exe is None:
        ck.oblige("harness builds against the tree", False, err[-3000:])
        # a class whose serialization code no longer compiles is a finding about that tree
    else:
        rc, out, _ = sh([exe, "--list"], timeout=60)
        avail = [tuple(l.split()[:2]) for l in out.split("\n") if len(l.split()) >= 2]
        if ck.replay:
            cases = [l.strip() for l in open(ck.replay) if l.strip() and not l.startswith("#")]
        else:
            cdir = os.path.join(ROOT, "corpus", PID)
            if os.path.isdir(cdir):
                for f in sorted(os.listdir(cdir)):
                    cases += [l.strip() for l in open(os.path.join(cdir, f)) if l.strip() and not l.startswith("#")]
            nseeds = 3 if ck.tier == "quick" else 25
            seeds = [ck.rng.randrange(1, 10**6) for _ in range(nseeds)]
            for cls, var in avail:
                for fmt in ("text", "bin"):
                    for s in seeds:
                        cases.append("%s %s %d %s" % (cls, fmt, s, var))
        outs = run_harness(exe, cases, os.path.join(tmpd, "cases.txt"))
        hres = [classify(l) for l in outs]
        hres = [h for h in hres if h]
        ck.oblige("harness produced one result per case", len(hres) == len(cases), "%d results for %d cases" % (len(hres), len(cases)))

    # ---- tie of the vector-stream model (C18Text.v, extracted) to the real archives: same words / bytes, every run
    stream_tie(ck, hres, tmpd)

    # ---- decide
    bad = [h for h in hres if h["status"] not in ("OK",)]
    skipped = [h for h in bad if h["status"] == "SKIP"]
    bad = [h for h in bad if h["status"] != "SKIP"]
    # ---- classes whose archive is empty by construction (no read()/write() that is ever called): one finding per class
    uns = unstreamed_optimizers(TS.ALL_CLASSES[0], TS.ALL_TEXTS[0])
    empty_archive = sorted(set([c for c in ONE_PARAMETER_SERIALIZE if c in TS.EXCLUDED and c in TS.ALL_CLASSES[0]] + uns))
    ck.notes["optimizers_without_read_write"] = empty_archive
    for pcls in empty_archive:
        pkey = state_key(pcls)
        pwhy = STATE_NOT_STREAMED_WHY.get(pcls, "optimizer %s has data members but neither it nor a base below ISerializable defines read()/write(): "
                                                "the archive of such an object is empty and a restored optimizer keeps the fresh object's state" % pcls)
        hs = [h for h in bad if re.sub(r"<.*$", "", h["cls"]) == pcls]
        ran = [h for h in hres if re.sub(r"<.*$", "", h["cls"]) == pcls]
        bad = [h for h in bad if h not in hs]
        if ran and not hs:
            log("[C18] note: %s streams nothing by the translator's reading, but its %d harness cases are OK" % (pcls, len(ran)))
        seen = set(); pick = []
        for h in hs:
            if (h["var"], h["fmt"]) not in seen and len(pick) < 8:
                seen.add((h["var"], h["fmt"])); pick.append(h)
        rp = {"key": pkey, "class": pcls, "why": pwhy, "failing_cases_total": len(hs), "cases_run": len(ran),
              "expected": "restored object identical to the original on every observable (exact comparison)"}
        if pick:
            cf = ck.write_replay("candidate_%s.txt" % pcls, "\n".join(x["case"] for x in pick) + "\n")
            rp.update({"case_file": cf, "cases": [x["case"] for x in pick], "observed": [x["case"] + " " + x["status"] + " " + x["rest"] for x in pick],
                       "replay_cmd": "python3 tools/c18.py --replay %s" % cf})
            pwhy += " | %d/%d harness cases differ, e.g. %s %s %s" % (len(hs), len(ran), pick[0]["case"], pick[0]["status"], pick[0]["rest"][:120])
        else:
            rp["note"] = "no harness case (class cannot be instantiated in this tree): translator obligation only"
        # a registered class goes the known-finding path; an unregistered one is a violation (without a failing input when
        # there is no harness case)
        ck.violation(pkey, rp, pwhy, no_input=(not pick and ck.match_known(pkey) is None))
    reported = set()
    def covered_by(hcls):
        base = re.sub(r"<.*$", "", hcls)
        return set(HARNESS_TO_CLASSES.get(base, [base]))
    # monitor failures: one violation per class when the class has broken obligations (the differences are
    # attributed to them), otherwise one per (class, observable)
    def canon(ob):
        # generic behaviour comparison of harness/c18_behave.h: B/<target>/<behaviour>[.detail] -> B:<behaviour>
        m = re.match(r"B/\w+/([\w-]+)", ob)
        return "B:" + m.group(1) if m else ob
    def obs_all(h):
        """the differing observables a result line names: the first one, and the further generic behaviours (also=...)"""
        if h["status"] != "DIFF": return [h["status"]]
        out = [canon(re.sub(r"\[[^\]]*\]", "", h["rest"].split(":")[0].strip()))]
        m = re.search(r" also=(\S+)", h["rest"])
        for x in (m.group(1).split("|") if m else []):
            if x.startswith("B/") and canon(x) not in out: out.append(canon(x))
        return out
    groups = {}
    for h in bad:
        related = [(c, m) for c in sorted(covered_by(h["cls"])) for m in failing.get(c, []) if m[0] != "rebuild"]
        for ob in obs_all(h):
            gk = (h["cls"], ob) if (ob.startswith("B:") or not related) else (h["cls"], "")
            if h not in groups.setdefault(gk, []): groups[gk].append(h)
    registered = set(); unregistered = set()      # harness lines whose difference is / is not a registered known finding
    def obl_key(c, m):
        return {"rw": "read/write mismatch ", "cover": "missing ", "stale": "stale ", "translator": "translator ", "coqc": "coqc ", "rebuild": "transient-not-rebuilt "}[m[0]] + m[2]
    for (cls, ob), hs in sorted(groups.items()):
        related = [(c, m) for c in sorted(covered_by(cls)) for m in failing.get(c, []) if m[0] != "rebuild" or ob.startswith("B:")]
        # distinct variants first, so that the replay shows the breadth
        seen = set(); pick = []
        for h in hs:
            if (h["var"], h["fmt"]) not in seen and len(pick) < 8:
                seen.add((h["var"], h["fmt"])); pick.append(h)
        if ob.startswith("B:"):
            key = "roundtrip:%s:%s" % (cls, ob[2:])
        elif related:
            key = "serial:%s:%s" % (cls, "; ".join(sorted(set((c + " " if c != cls else "") + obl_key(c, m) for c, m in related))))
        else:
            key = "serial:%s:behaviour %s" % (cls, ob)
        cf = ck.write_replay("case_%s_%s.txt" % (re.sub(r"\W", "_", cls), re.sub(r"\W", "_", ob) or "obligation"), "\n".join(x["case"] for x in pick) + "\n")
        rp = {"case_file": cf, "cases": [x["case"] for x in pick], "observed": [x["case"] + " " + x["status"] + " " + x["rest"] for x in pick],
              "failing_cases_total": len(hs), "variants": sorted(set(x["var"] for x in hs)),
              "expected": "restored object identical to the original on every observable (exact comparison)",
              "broken_obligations": ["%s: %s" % (c, m[1]) for c, m in related],
              "replay_cmd": "python3 tools/c18.py --replay %s" % cf}
        h = pick[0]
        what = "round trip of %s changes behaviour in %d cases (variants %s): e.g. %s -> %s %s" % (
            cls, len(hs), ",".join(sorted(set(x["var"] for x in hs))[:6]), h["case"], h["status"], h["rest"][:260])
        if ob.startswith("B:"):
            what = ("advertised behaviour '%s' of the restored %s differs from the original before any setter is called (targets %s) | " % (
                ob[2:], cls, ",".join(sorted(set(re.findall(r"B/(\w+)/" + re.escape(ob[2:]), " ".join(x["rest"] for x in hs))))))) + what
        if related:
            what += " | broken obligation(s): " + "; ".join("%s: %s" % (c, m[1]) for c, m in related[:4])
        else:
            what += " | no translator obligation is broken for this class (state outside the streamed members, e.g. derived flags)"
        (registered if ck.match_known(key) is not None else unregistered).update(id(x) for x in hs)
        ck.violation(key, rp, what)
        for c in covered_by(cls):
            if [m for m in failing.get(c, []) if m[0] != "rebuild"] and (related or not ob.startswith("B:")): reported.add(c)
    # failing obligations without a behavioural difference from the harness
    for cname, msgs in sorted(failing.items()):
        for kind, msg, member in msgs:
            if kind == "rebuild":
                # derived state that read() does not re-establish: always reported on its own, with the harness cases of the
                # class whose advertised behaviours differ as the failing input (when there are any)
                ev = [h for h in bad if cname in covered_by(h["cls"]) and any(o.startswith("B:") for o in obs_all(h))]
                key = "transient-not-rebuilt:%s::%s" % (cname, member)
                rp = {"obligation": "rebuild_%s" % cname, "class": cname, "member": member, "detail": msg,
                      "generated_file": "coq/gen/c18/C18_%s.v" % cname,
                      "expected": "read() re-establishes every transient (derived) member from the streamed members, or the member is exempt with a reason (tools/translate_serial.py REBUILD_NOT_REQUIRED)"}
                if ev:
                    seen = set(); pick = []
                    for h in ev:
                        if (h["var"], h["fmt"]) not in seen and len(pick) < 8:
                            seen.add((h["var"], h["fmt"])); pick.append(h)
                    cf = ck.write_replay("case_%s_rebuild_%s.txt" % (re.sub(r"\W", "_", cname), re.sub(r"\W", "_", member)), "\n".join(x["case"] for x in pick) + "\n")
                    rp.update({"case_file": cf, "cases": [x["case"] for x in pick], "observed": [x["case"] + " " + x["status"] + " " + x["rest"] for x in pick],
                               "replay_cmd": "python3 tools/c18.py --replay %s" % cf})
                    msg += " | observed: %s %s %s" % (pick[0]["case"], pick[0]["status"], pick[0]["rest"][:200])
                else:
                    rp["note"] = "the round-trip harness found no behavioural difference" if any(cname in covered_by(h["cls"]) for h in hres) else "no harness case exercises this class"
                ck.violation(key, rp, "obligation rebuild_%s no longer checks: %s" % (cname, msg), no_input=not ev)
                continue
            if cname in reported: continue
            key = "serial:%s:%s %s" % (cname, {"rw": "read/write mismatch", "cover": "missing", "stale": "stale", "translator": "translator", "coqc": "coqc"}[kind], member)
            has_cases = any(cname in covered_by(h["cls"]) for h in hres)
            ck.violation(key, {"obligation": "%s_%s" % (kind, cname), "class": cname, "detail": msg,
                               "generated_file": "coq/gen/c18/C18_%s.v" % cname,
                               "harness_cases_run_for_class": sum(1 for h in hres if cname in covered_by(h["cls"])),
                               "note": "the round-trip harness found no behavioural difference" if has_cases else "no harness case exercises this class"},
                         "obligation %s_%s no longer checks: %s" % (kind, cname, msg), no_input=True)
    ck.oblige("per-class obligations rw_X/cover_X/stale_X/rebuild_X (%d classes)" % len(results), not failing,
              "failing: " + "; ".join("%s[%s]" % (c, ",".join(sorted(set(m[0] + ":" + m[2] for m in ms)))) for c, ms in sorted(failing.items())))
    # a case all of whose differences are registered known findings does not fail the monitor obligation
    bad = [h for h in bad if id(h) in unregistered or id(h) not in registered]
    ck.oblige("round-trip monitor: %d cases" % len(hres), not bad, "%d non-OK" % len(bad))

    ck.cov["evaluations"] = len(hres)
    ck.cov["distinct_nontrivial"] = len(set((h["cls"], h["var"], h["fmt"], h["seed"]) for h in hres if h["status"] != "SKIP"))
    ck.cov["rule"] = ("every (class, variant) the harness lists x {text, binary} x seeds; the fresh instance differs from the original in all streamed state; "
                      "models / kernels: all advertised behaviours (eval, derivatives) of the object restored into a default-constructed and into a differently structured object; "
                      "non-trivial = every case (each constructs a non-default object); distinct = distinct (class, variant, format, seed)")
    ck.cov["samples"] = cases[:3]
    ck.cov["traces_validated_against_impl"] = len(results)
    ck.cov["disagreements_checked"] = len(failing) + len(bad)
    ck.notes["harness_classes"] = sorted(set(h["cls"] for h in hres))
    ck.notes["harness_skipped"] = len(skipped)
    ck.finish(checker_cmd="coqc per generated class file (coq/gen/c18/*.v) + make Properties_C18.vo; harness build/bin/std/c18_roundtrip")


if __name__ == "__main__":
    main()
