#!/usr/bin/env python3
"""C20 — parallel routines are race-free and schedule-independent; data sharing is safe.

 1. proofs: Properties_C20.v (checker soundness over all schedules/interleavings, merge-order
    independence, static work split) re-checked with Print Assumptions;
 2. tie (translator, every run): tools/translate_omp.py regenerates the access summary of every
    SHARK_PARALLEL_FOR region of the anchored files from the clang AST of the CURRENT vlib.REPO, writes
    coq/gen/C20RegionDefs.v + coq/gen/C20Regions.v; one obligation `region_k_ok` per region, decided by
    the Coq kernel (vm_compute of the proved-sound checker);
 3. monitors (testing, never standing in for a theorem): results for OMP_NUM_THREADS in {1,2,3,7,16}
    agree (bit-exact on integer data, 1e-12 otherwise); concurrent shared copies / indexedSubset;
    thorough tier: ThreadSanitizer build (clang + libomp; reports filtered to shark::/remora::/harness
    frames), schedule(runtime) build under OMP_SCHEDULE=dynamic/guided/static,1.
 4. work split by thread number (translator, every run): tools/translate_omp.py (split_sites_of / coq_split) reads the integer
    expressions that give every worker its index range (ErrorFunctionImpl::eval/evalDerivative,
    NegativeLogLikelihood::evalDerivative) resp. every (pattern, thread) its cells of the heap array
    (SimpleNearestNeighbors::getNeighbors) from the clang AST, renders them as Gallina into coq/gen/C20SplitDefs.v and
    generates the obligations of coq/gen/C20Split.v: `s<k>_tiles` (the ranges tile [0, numberOfBatches)) /
    `s<k>_slices` (slices tile the array, merge range = union), `s<k>_safe` (no division by zero, no unsigned
    underflow), `s<k>_nowrap` (all intermediate values bounded), proved by the generic script split_solve.  A failed
    obligation is refuted on a concrete input found by evaluating the expressions with C semantics, and the harness is
    run on that input (which batches does each worker really evaluate).
 5. correspondence: the extracted models (generated sites, reference-count machine of C20RcModel) against the real code
    (harness `cases` mode): batches evaluated per worker, cells written per thread, use_count/expiry of the batches of real
    Data objects under copy / indexedSubset / destruction, sequentially and from several threads.
 A failing region obligation triggers a search with these monitors for a concrete differing result /
 crash / TSan report; otherwise `no-failing-input-found` naming the region.
"""
import os, sys, re, json, time
sys.path.insert(0, os.path.dirname(os.path.abspath(__file__)))
from vlib import *
import translate_omp as T

PID = "C20"
THREADS = [1, 2, 3, 7, 16]
HARNESS = os.path.join(ROOT, "harness", "c20_parallel.cpp")

# which harness mode exercises which region (by file of the region)
MODE_OF_FILE = {
    "shark/ObjectiveFunctions/Impl/ErrorFunction.inl": "det", "shark/ObjectiveFunctions/Loss/AbstractLoss.h": "det",
    "shark/Models/Kernels/KernelHelpers.h": "det", "shark/LinAlg/KernelMatrix.h": "det", "shark/Data/Dataset.h": "det",
    "shark/Algorithms/NearestNeighbors/SimpleNearestNeighbors.h": "snn",
    "shark/Algorithms/Trainers/RFTrainer.h": "tol", "shark/ObjectiveFunctions/KernelTargetAlignment.h": "tol",
    "shark/ObjectiveFunctions/NegativeLogLikelihood.h": "tol",
    "shark/Algorithms/DirectSearch/Operators/Hypervolume/HypervolumeContributionMD.h": "tol",
}


F7_LINE = {"ErrorFunctionImpl::eval": "f7.ef.eval", "ErrorFunctionImpl::evalDerivative": "f7.ef.evalDerivative",
           "WeightedErrorFunctionImpl::eval": "f7.wef.eval", "WeightedErrorFunctionImpl::evalDerivative": "f7.wef.evalDerivative",
           "transform": "f7.transform", "NegativeLogLikelihood::eval": "f7.nll.eval", "NegativeLogLikelihood::evalDerivative": "f7.nll.evalDerivative"}


def region_name(i):
    return "region_%d" % i


def finding_key(rec, variant, failing):
    """stable key: routine + what fails (matched against known_findings.json)"""
    fn = rec["function"]
    if variant == "stochastic":
        return "F7:%s:stochastic component (DropoutLayer on random::globalRng) inside parallel region" % fn
    for a in failing:
        if a["idx"] == "thread" and rec["caps"].get(a["var"], {}).get("cap") != "CapThreads":
            return "F6:%s:%s indexed by SHARK_THREAD_NUM but sized %s" % (fn, a["var"], rec["caps"].get(a["var"], {}).get("cap"))
    a = failing[0] if failing else {"var": "?", "rw": "?"}
    return "race:%s:%s:%s:unprotected %s of shared %s" % (rec["file"], fn, rec["line"], "write" if a["rw"] == "w" else "read", a["var"])


def failing_accesses(rec, extra=()):
    """python mirror of C20Model.pair_ok, ONLY to name the offending accesses in messages (Coq decides)"""
    accs = list(rec["accesses"]) + list(extra)
    bad = []
    for a in accs:
        if a["idx"] == "thread" and rec["caps"].get(a["var"], {}).get("cap") != "CapThreads":
            bad.append(a)
    for a in accs:
        for b in accs:
            if a["var"] != b["var"] or (a["crit"] and b["crit"]) or (a["rw"] == "r" and b["rw"] == "r"):
                continue
            if a["idx"] == "iter" and b["idx"] == "iter":
                continue
            if a["idx"] == "thread" and b["idx"] == "thread" and rec["caps"].get(a["var"], {}).get("cap") == "CapThreads":
                continue
            if a["rw"] == "w" and a not in bad:
                bad.append(a)
    return bad


def write_coq(regs, dropout):
    gen = os.path.join(COQ, "gen"); os.makedirs(gen, exist_ok=True)
    defs = ["(* GENERATED by tools/c20.py from %s on every run - do not edit *)" % REPO,
            "From Coq Require Import List.", "From SharkV Require Import C20Model.", "Import ListNotations.", ""]
    items = []   # (coq name, rec, variant, extra)
    stoch = bool(dropout) and any(d["const"] and d["writes_members"] for d in dropout)
    for i, rec in enumerate(regs):
        nm = region_name(i)
        defs.append(T.coq_region(nm, rec)); defs.append("")
        items.append((nm, rec, "contract", []))
        calls = [c for c in rec["components"] if c["component"] == "AbstractModel" and c["method"] in ("eval", "operator()")]
        if calls and stoch:
            extra = [{"var": "random::globalRng (through DropoutLayer::eval -> *mep_rng)", "idx": None, "rw": "w", "crit": c["crit"],
                      "why": "component table", "line": c["line"], "text": c["text"]} for c in calls[:1]]
            defs.append(T.coq_region(nm + "_stochastic", rec, extra)); defs.append("")
            items.append((nm + "_stochastic", rec, "stochastic", extra))
    for nm, _, _, _ in items:
        defs.append('Eval vm_compute in (race_free_b %s).' % nm)
    open(os.path.join(gen, "C20RegionDefs.v"), "w").write("\n".join(defs) + "\n")
    return items


def write_coq_theorems(items, verdict):
    gen = os.path.join(COQ, "gen")
    th = ["(* GENERATED by tools/c20.py - one obligation per parallel region of the current source *)",
          "From Coq Require Import List.", "From SharkV Require Import C20Model.", "From SharkGen Require Import C20RegionDefs.", ""]
    for nm, rec, variant, _ in items:
        th.append("(* %s %s:%s%s *)" % (rec["function"], rec["file"], rec["line"], "  [model = stochastic component]" if variant == "stochastic" else ""))
        if verdict.get(nm):
            th.append("Theorem %s_ok : race_free_b %s = true. Proof. vm_compute. reflexivity. Qed." % (nm, nm))
        else:
            th.append("(* obligation %s_ok : race_free_b %s = true  DOES NOT HOLD; what the kernel accepts instead: *)" % (nm, nm))
            th.append("Theorem %s_refuted : race_free_b %s = false. Proof. vm_compute. reflexivity. Qed." % (nm, nm))
    open(os.path.join(gen, "C20Regions.v"), "w").write("\n".join(th) + "\n")


def coqc_gen(fn):
    return sh(["coqc", "-Q", "theories", "SharkV", "-Q", "gen", "SharkGen", os.path.join("gen", fn)], cwd=COQ, timeout=600)


# ------------------------------------------------------------------------------------------------ monitors

def parse_out(out):
    return [l for l in out.split("\n") if l.strip()]


def close(a, b, tol):
    if a == b:
        return True
    ta, tb = a.split(), b.split()
    if len(ta) != len(tb) or ta[0] != tb[0]:
        return False
    for x, y in zip(ta[1:], tb[1:]):
        if x == y:
            continue
        if tol == 0:
            return False
        xs, ys = x.split("@"), y.split("@")
        if xs[1:] != ys[1:]:
            return False
        try:
            fx, fy = float.fromhex(xs[0]), float.fromhex(ys[0])
        except ValueError:
            return False
        if abs(fx - fy) > tol * max(1.0, abs(fx), abs(fy)):
            return False
    return True


def only_index_differs(a, b, tol):
    """lines of `key@index` tokens: same keys (within tol) position by position, different indices"""
    ta, tb = a.split(), b.split()
    if len(ta) != len(tb) or ta[0] != tb[0] or not all("@" in x for x in ta[1:]):
        return False
    strip = lambda l: " ".join([l.split()[0]] + [x.split("@")[0] + "@" for x in l.split()[1:]])
    return close(strip(a), strip(b), tol)


def run_mode(exe, mode, seed, reps, threads, env=None, timeout=600):
    e = {"OMP_NUM_THREADS": str(threads), "OMP_DYNAMIC": "false"}
    if env:
        e.update(env)
    rc, out, err = sh([exe, mode, str(seed), str(reps)], env=e, timeout=timeout)
    return rc, parse_out(out), err


def compare_threads(ck, exe, mode, seed, reps, tol, env=None, threads=THREADS, label="", expect_key=None, only=None):
    """returns (number of compared lines, list of problems)"""
    rc1, ref, err1 = run_mode(exe, mode, seed, reps, 1, env)
    probs = []
    if rc1 != 0:
        probs.append({"threads": 1, "what": "harness failed rc=%s %s" % (rc1, err1[-300:])})
        return 0, probs
    n = 0
    for t in threads:
        if t == 1:
            continue
        rc, out, err = run_mode(exe, mode, seed, reps, t, env)
        if rc != 0 or len(out) != len(ref):
            probs.append({"threads": t, "what": "harness crashed/stopped: rc=%s, %d of %d lines; %s" % (rc, len(out), len(ref), err.strip()[-300:]),
                          "line": out[-1] if out else ""})
            continue
        case = ""
        for a, b in zip(ref, out):
            if a.startswith("case "):
                case = a
            n += 1
            if only is not None and not a.startswith(only):
                continue
            if not close(a, b, tol):
                if only_index_differs(a, b, tol):
                    if not any(p.get("kind") == "tie-order" and p["line_name"] == a.split()[0] for p in probs):
                        probs.append({"threads": t, "case": case, "kind": "tie-order", "line_name": a.split()[0],
                                      "what": "same contribution values, different selected indices: the choice among exactly tied candidates depends on the order threads enter the critical section",
                                      "expected(1 thread)": a[:300], "observed": b[:300]})
                    continue
                probs.append({"threads": t, "case": case, "what": "result differs from the single-threaded run", "line_name": a.split()[0],
                              "expected(1 thread)": a[:300], "observed": b[:300]})
                break
            if b.startswith("snn.inconsistent_pairs") and b.split()[1] != "0":
                probs.append({"threads": t, "case": case, "what": "neighbour list holds (distance,label) pairs that are not true distances", "observed": b})
                break
            if b.startswith("share.mismatches") and b.split()[1] != "0":
                probs.append({"threads": t, "case": case, "what": "shared copy / indexedSubset saw wrong contents", "observed": b})
                break
    return n, probs


def tsan_reports(err):
    """split TSan output into reports; keep those with a frame in shark:: / remora:: / the harness"""
    reps = re.split(r"(?m)^={18}\n", err)
    keep = []
    for r in reps:
        if "WARNING: ThreadSanitizer" not in r:
            continue
        if re.search(r"shark::|remora::|c20_parallel\.cpp|mode_\w+", r):
            # both racing accesses performed by the OpenMP runtime itself (a libc interceptor called from libomp in both access stacks:
            # its thread start-up handshake), merely called from a parallel region of the library: not a report about Shark
            secs = [s for s in re.split(r"\n\s*\n", r) if re.search(r"^\s*#0 ", s, re.M)]
            acc = [s for s in secs if re.search(r"(read|write|Read|Write) of size", s)]
            inside = lambda s: bool(re.search(r"^\s*#1 .*libomp\.so", s, re.M)) and bool(re.search(r"^\s*#0 \S+ <null> ", s, re.M))
            if len(acc) >= 2 and all(inside(s) for s in acc[:2]):
                continue
            keep.append(r.strip()[:3000])
    return keep, sum(1 for r in reps if "WARNING: ThreadSanitizer" in r)



# ------------------------------------------------------------------------------------------------ work split sites

ROUTE_OF_FUNCTION = {"ErrorFunctionImpl::eval": "ef.eval", "ErrorFunctionImpl::evalDerivative": "ef.evalDerivative",
                     "NegativeLogLikelihood::evalDerivative": "nll.evalDerivative", "SimpleNearestNeighbors::getNeighbors": "snn"}
SPLIT_HEADER = ["From Coq Require Import List Arith Bool PeanoNat Lia ZArith.", "From SharkV Require Import C20Model C20SplitModel C20SplitProofs.",
                "From SharkGen Require Import C20SplitDefs.", ""]


def coqc_text(name, text, tmpd, timeout=600):
    """compile a scratch .v file (outside coq/gen) against theories + gen"""
    fn = os.path.join(tmpd, name + ".v")
    open(fn, "w").write(text)
    return sh(["coqc", "-Q", os.path.join(COQ, "theories"), "SharkV", "-Q", os.path.join(COQ, "gen"), "SharkGen", "-o", os.path.join(tmpd, name + ".vo"), fn],
              cwd=tmpd, timeout=timeout)


def split_counterexample(site, kind):
    """smallest input on which the expressions of the CURRENT source, evaluated with C semantics, violate the obligation"""
    sf = site["sf"]
    if site["kind"] == "range":
        for tot in range(2, 70):
            for nb in range(1, tot):
                nt = tot - nb
                if nt > 20:
                    continue
                env = {site["total"][1]: nb, T.NUM_THREADS_KEY: nt}
                flags = []
                try:
                    n = T.eval_tree(sf, site["bound"], env, flags)
                    rs = []
                    for ti in range(min(n, 200)):
                        e2 = dict(env); e2[site["pv"]] = ti
                        rs.append((T.eval_tree(sf, site["lo"], e2, flags), T.eval_tree(sf, site["hi"], e2, flags)))
                except T.Trap as ex:
                    return {"inputs": env, "why": str(ex)}
                except KeyError:
                    return None
                if kind in ("safe", "nowrap"):
                    if flags:
                        return {"inputs": env, "why": flags[0], "ranges": rs}
                    continue
                ok = n >= 1 and rs[0][0] == 0 and rs[-1][1] == nb and all(a <= b for a, b in rs) and all(rs[i][1] == rs[i + 1][0] for i in range(len(rs) - 1))
                if not ok:
                    return {"inputs": env, "why": "ranges %s of %d workers do not tile [0,%d)" % (rs[:8], n, nb), "ranges": rs}
        return None
    ins = [k for k in sf.inputs]
    for k in range(0, 4):
        for P in range(0, 4):
            for Tn in range(1, 5):
                env = {}
                for key in ins:
                    env[key] = Tn if key == T.NUM_THREADS_KEY else (k if key == "k" else P)
                flags = []
                try:
                    cap = T.eval_tree(sf, site["cap"], env, flags)
                    Po = T.eval_tree(sf, site["outer_bound"], env, flags)
                    cells = {}
                    bad = None
                    for p in range(Po):
                        e2 = dict(env); e2[site["merge_pv"]] = p
                        mlo, mhi = T.eval_tree(sf, ("var", "", site["m_lo"]), e2, flags), T.eval_tree(sf, ("var", "", site["m_hi"]), e2, flags)
                        prev = mlo
                        for tt in range(Tn):
                            e3 = dict(env); e3[site["outer"]] = p; e3[T.THREAD_NUM_IDX] = tt
                            lo, hi = T.eval_tree(sf, ("var", "", site["s_lo"]), e3, flags), T.eval_tree(sf, ("var", "", site["s_hi"]), e3, flags)
                            if lo != prev or hi < lo or hi > cap:
                                bad = "slice (p=%d,t=%d) = [%d,%d) does not continue at %d inside [0,%d)" % (p, tt, lo, hi, prev, cap)
                            prev = hi
                        if prev != mhi and not bad:
                            bad = "slices of p=%d end at %d, merge range is [%d,%d)" % (p, prev, mlo, mhi)
                        if p == 0 and mlo != 0 and not bad:
                            bad = "merge range of p=0 starts at %d" % mlo
                        if p == Po - 1 and mhi != cap and not bad:
                            bad = "merge range of the last p ends at %d, array has %d cells" % (mhi, cap)
                    if Po == 0 and cap != 0:
                        bad = "no patterns but %d cells" % cap
                except T.Trap as ex:
                    return {"inputs": env, "why": str(ex)}
                except KeyError:
                    return None
                if kind in ("safe", "nowrap"):
                    if flags:
                        return {"inputs": env, "why": flags[0]}
                    continue
                if bad:
                    return {"inputs": env, "why": bad, "k": k, "P": P, "T": Tn}
    return None


def site_x(meta, values):
    """input vector of a site in the order of the generated file; values: dict key -> int; unknown inputs -> None"""
    x = []
    for k in meta["inputs"]:
        if k not in values:
            return None
        x.append(values[k])
    return x


def split_line(meta, nb, nt):
    route = ROUTE_OF_FUNCTION.get(meta["function"].split("<")[0], "none")
    x = site_x(meta, {meta["total_input"]: nb, T.NUM_THREADS_KEY: nt})
    return None if x is None else "split %d %s %d %d | %s" % (meta["index"], route, nb, nt, " ".join(map(str, x)))


def slice_line(meta, k, P, Tn):
    route = ROUTE_OF_FUNCTION.get(meta["function"].split("<")[0], "none")
    vals = {T.NUM_THREADS_KEY: Tn, "k": k, "batchSize(patterns)": P}
    x = site_x(meta, vals)
    return None if x is None else "slice %d %s %d %d %d | %s" % (meta["index"], route, k, P, Tn, " ".join(map(str, x)))


def cases_monitor(case, out):
    """the property's predicate evaluated on the implementation's output alone"""
    l = case[0]; o = out[0] if out else ""
    tk = l.split("|")[0].split()
    msgs = []
    if o in ("BADLINE", "NOROUTE", "BADBATCHES") or o.startswith("EXC"):
        return ["harness: %s on `%s`" % (o, l)]
    if tk[0] == "split":
        nb = int(tk[3])
        try:
            seen = [int(x) for part in o.split("|") if part for x in part.split(",")]
        except ValueError:
            return ["unreadable output `%s`" % o[:100]]
        missing = sorted(set(range(nb)) - set(seen)); dup = sorted(set(x for x in seen if seen.count(x) > 1)); extra = sorted(set(seen) - set(range(nb)))
        if missing or dup or extra:
            msgs.append("%s with %s batches on %s threads: batches never evaluated %s, evaluated more than once %s, out of range %s (per worker: %s)" % (
                tk[2], tk[3], tk[4], missing[:8], dup[:8], extra[:8], o[:120]))
    elif tk[0] == "slice":
        k, P, Tn = int(tk[3]), int(tk[4]), int(tk[5])
        per = {}
        for part in o.split():
            t_, cs = part.split(":")
            per[t_] = set(int(c) for c in cs.split(",") if c)
        names = sorted(per)
        for i, a in enumerate(names):
            if any(c < 0 or c >= k * P * Tn for c in per[a]):
                msgs.append("getNeighbors k=%d patterns=%d threads=%d: thread %s writes cells outside the %d allocated: %s" % (k, P, Tn, a, k * P * Tn, sorted(c for c in per[a] if c >= k * P * Tn)[:6]))
            for b in names[i + 1:]:
                if per[a] & per[b]:
                    msgs.append("getNeighbors k=%d patterns=%d threads=%d: threads %s and %s both write cells %s in the same parallel region" % (k, P, Tn, a, b, sorted(per[a] & per[b])[:6]))
    elif tk[0] in ("rcseq", "rcpar"):
        if o == "DISABLED":
            return []
        obs = [[tuple(int(v) for v in c.split("/")) for c in ob.strip().split(",") if c] for ob in o.split(";")]
        for ob in obs:
            for b, (c, f) in enumerate(ob):
                if (c == 0) != (f == 1):
                    msgs.append("batch %d: use_count %d but %s" % (b, c, "already freed" if f else "not freed"))
        if tk[0] == "rcpar" and obs and any(f != 1 for _, f in obs[-1]):
            msgs.append("a batch is still allocated after every dataset was destroyed: %s" % (obs[-1],))
    return msgs[:3]


def gen_rc_cases(rng, n_seq, n_par):
    cases = []
    for _ in range(n_seq):
        B = rng.randint(1, 5); alive = {0: B}; nh = 1; ops = []
        sizes = {0: B}
        for _ in range(rng.randint(3, 14)):
            live = sorted(alive)
            r = rng.random()
            t_ = rng.randint(0, 3)
            if live and r < 0.35:
                h = rng.choice(live); ops.append("c:%d:%d" % (t_, h)); alive[nh] = alive[h]; nh += 1
            elif live and r < 0.6:
                h = rng.choice(live); idx = [rng.randrange(alive[h]) for _ in range(rng.randint(0, 3))] if alive[h] else []
                ops.append("s:%d:%d:%s" % (t_, h, ",".join(map(str, idx)))); alive[nh] = len(idx); nh += 1
            elif live:
                h = rng.choice(live); ops.append("r:%d:%d" % (t_, h)); del alive[h]
        if rng.random() < 0.7:
            for h in sorted(alive, reverse=rng.random() < 0.5):
                ops.append("r:0:%d" % h)
        cases.append(["rcseq %d | %s" % (B, " ".join(ops))])
    for i in range(n_par):
        B = rng.randint(1, 4); Tn = rng.choice([2, 3, 4, 7, 16])
        scripts = []
        for t_ in range(Tn):
            own = {}; nh = 0; ops = []
            for _ in range(rng.randint(2, 10)):
                src = rng.choice([0] + sorted(own)); nb_src = B if src == 0 else own[src]
                r = rng.random()
                if r < 0.4:
                    nh += 1; own[nh] = nb_src; ops.append("c:%d" % src)
                elif r < 0.7:
                    idx = [rng.randrange(nb_src) for _ in range(rng.randint(0, 3))] if nb_src else []
                    nh += 1; own[nh] = len(idx); ops.append("s:%d:%s" % (src, ",".join(map(str, idx))))
                elif own:
                    h = rng.choice(sorted(own)); del own[h]; ops.append("r:%d" % h)
            for h in sorted(own):
                ops.append(("k:%d" if rng.random() < 0.3 else "r:%d") % h)
            scripts.append(" ".join(ops))
        cases.append(["rcpar %d %d %d | %s" % (B, Tn, rng.randrange(1 << 20), " ; ".join(scripts))])
    return cases


def main():
    ck = Check(PID)
    if os.environ.get("VERIF_KNOWN_EXTRA"):      # testing aid: additional known-findings file (same schema)
        ck.known.setdefault("known", []).extend(json.load(open(os.environ["VERIF_KNOWN_EXTRA"])).get("known", []))
    ck.trusted = DEFAULT_TRUSTED + [
        "tools/translate_omp.py (Python + clang 14 JSON AST): that a region summary lists every access of the C++ loop body, with the right read/write/critical/index classification, is NOT proved; its rules and hand-kept tables are listed in this evidence (translator)",
        "assumption per SharedIndexed write: an index expression mentioning the loop variable addresses different cells in different iterations (expressions listed under index_assumed_injective)",
        "component contract: const methods of AbstractModel/AbstractKernelFunction/AbstractLoss/AbstractMetric with external State do not write shared state (violated by DropoutLayer: extra `_stochastic` obligations)",
        "modelled not verified: C++/OpenMP memory model, libgomp/libomp, accesses before the fork / after the join",
        "work split: tools/translate_omp.py (split_sites_of: clang JSON AST -> expression trees -> Gallina) is trusted for reading the integer expressions; it is exercised on every run: the generated Gallina is extracted and compared with what the real code does (batches per worker, heap cells per thread). Hand-kept: which locals delimit the heap slices of SimpleNearestNeighbors (SLICE_SITES, in the evidence); the index space a range site must cover is the numberOfBatches() of the container indexed by the inner loop",
        "work split arithmetic: size_t = nat under the generated obligations s<k>_safe (no division by 0, no unsigned underflow) and s<k>_nowrap (intermediate values <= nb+nt resp. (P+1)(nt+1)(k+1)); inputs assumed < 2^20 (they are cast to int in the sources)",
        "shared copies: the reference-count machine (atomic increment; atomic decrement then free iff old value 1) is assumed to be what boost::shared_ptr does; compared with real Data objects via use_count / weak_ptr expiry after every operation (sequential scripts) and after joining 2..16 threads",
        "clang++ 14 -fsanitize=thread with libomp (thorough tier), one libomp-internal report per run is filtered by frames",
    ]
    ck.assumptions = ["regions run with T >= 1 threads; every iteration is executed exactly once by some thread (any OpenMP schedule kind)",
                      "one global lock: every SHARK_CRITICAL_REGION uses the same named critical section (OpenMP.h)",
                      "nested parallelism disabled (OpenMP default), SHARK_THREAD_NUM < SHARK_NUM_THREADS",
                      "work split theorems: datasets with at least one batch (with 0 batches numThreads = min(threads,0) = 0 and the C++ divides by zero: outside the theorems, see notes.empty_dataset)",
                      "shared copies: a shared_ptr instance is not destroyed while another thread copies from that same instance (the source dataset outlives the parallel region)"]
    ck.proofs()
    tmpd = os.path.join(BUILD, "tmp", PID); os.makedirs(tmpd, exist_ok=True)

    # ---------------------------------------------------------------- translator tie
    t0 = time.time()
    res = T.translate(os.path.join(tmpd, "ast"), jobs=4)
    regs = res["regions"]
    ck.notes["translator_wall_s"] = round(time.time() - t0, 1)
    ck.oblige("translator: clang parses every TU of the current source", not res["errors"], "; ".join(res["errors"])[:1500])
    ck.oblige("translator: every SHARK_PARALLEL_FOR of the anchored files has an instantiated region", not res["missing"],
              "not instantiated: " + ", ".join(res["missing"]))
    fb = [r for r in regs if r["fallback"]]
    ck.oblige("translator: every region handled by the AST route (no unsupported construct)", not fb,
              "; ".join("%s:%s %s" % (r["file"], r["line"], r["notes"]) for r in fb))
    items = write_coq(regs, res["dropout"])
    rc, out, err = coqc_gen("C20RegionDefs.v")
    verdict = {}
    if rc != 0:
        ck.oblige("coq/gen/C20RegionDefs.v compiles", False, (out + err)[-1500:])
    else:
        vals = re.findall(r"=\s*(true|false)\s*:\s*bool", out)
        if len(vals) != len(items):
            ck.oblige("one checker verdict per region", False, "%d verdicts for %d regions" % (len(vals), len(items)))
        for (nm, _, _, _), v in zip(items, vals):
            verdict[nm] = (v == "true")
    write_coq_theorems(items, verdict)
    rc, out, err = coqc_gen("C20Regions.v")
    ck.oblige("coq/gen/C20Regions.v (kernel-checked verdict of every region) compiles", rc == 0, (out + err)[-1500:])

    # ---------------------------------------------------------------- harness builds
    srcs = [HARNESS] + repo_src("src/Core/Random.cpp")
    exe, err = cxx_build("c20_parallel", srcs)
    if exe is None:
        ck.oblige("harness builds against /repo", False, err); ck.finish()
    thorough = ck.tier == "thorough"
    seed = ck.seed % 1000003
    exe_rt = None
    def sched_exe():
        nonlocal exe_rt
        if exe_rt is None:
            exe_rt, e2 = cxx_build("c20_parallel", srcs, flags=CXXFLAGS + ["-DC20_SCHEDULE_RUNTIME"], tag="schedrt")
            if exe_rt is None:
                log("schedule(runtime) build failed: " + e2[-500:])
        return exe_rt
    SCHEDS = [{"OMP_SCHEDULE": "dynamic,1"}, {"OMP_SCHEDULE": "static,1"}, {"OMP_SCHEDULE": "guided"}]

    evals = 0
    # ---------------------------------------------------------------- work split sites: translator, obligations, correspondence
    gen = os.path.join(COQ, "gen")
    splits = res.get("splits", [])
    sp = T.coq_split(splits)
    metas = sp["sites"]
    ck.oblige("translator(split): every site in the supported form, all expressions translated", not (res.get("split_problems") or sp["problems"]),
              "; ".join(res.get("split_problems", []) + sp["problems"])[:1500])
    # every textual SHARK_NUM_THREADS / SHARK_THREAD_NUM of the anchored files must feed a translated site
    uncovered = []
    for f, lines in res.get("thread_uses", {}).items():
        for ln in lines:
            hit = False
            for s in splits:
                if s["file"] != f:
                    continue
                sf = s["sf"]
                roots = [s[k] for k in ("bound", "lo", "hi", "cap", "outer_bound", "merge_bound") if s.get(k)] + \
                        [("var", "", s[k]) for k in ("s_lo", "s_hi", "m_lo", "m_hi") if s.get(k)]
                ids, _, _ = T.closure(sf, roots)
                if any(sf.defs[i]["line"] == ln for i in ids):
                    hit = True
            if not hit:
                uncovered.append("%s:%d" % (f, ln))
    ck.oblige("translator(split): every use of SHARK_NUM_THREADS / SHARK_THREAD_NUM in the anchored files belongs to a translated site (%d uses, %d sites)" % (
        sum(len(v) for v in res.get("thread_uses", {}).values()), len(splits)), not uncovered and bool(splits), "not covered: " + ", ".join(uncovered))
    defs_text = "(* GENERATED by tools/c20.py (tools/translate_omp.py: coq_split) from %s on every run - do not edit *)\n" % REPO + sp["defs"]
    open(os.path.join(gen, "C20SplitDefs.v"), "w").write(defs_text)
    rc, out, err = coqc_gen("C20SplitDefs.v")
    ck.oblige("coq/gen/C20SplitDefs.v (expressions of the current source as Gallina) compiles", rc == 0, (out + err)[-1500:])
    defs_ok = rc == 0
    proof = "Proof. split_solve. Qed."
    def theorem(o, with_corollary=True):
        return "Theorem %s :\n  %s.\n%s\n" % (o["name"], o["stmt"], proof) + (o.get("corollary", "") if with_corollary else "")
    site_of = {m["index"]: m for m in metas}
    failing = {}
    split_items = []
    if defs_ok:
        body = ["(* GENERATED by tools/c20.py - obligations about the work split of the current source; proof script: C20SplitProofs.split_solve *)"] + SPLIT_HEADER
        for o in sp["obligations"]:
            m = site_of[o["site"]]
            body.append("(* %s %s:%s *)" % (m["function"], m["file"], m["line"]))
            body.append(theorem(o))
        open(os.path.join(gen, "C20Split.v"), "w").write("\n".join(body))
        rc, out, err = coqc_gen("C20Split.v")
        if rc != 0:
            # which ones fail: one scratch file per obligation
            for o in sp["obligations"]:
                r1, o1, e1 = coqc_text("C20Split_" + o["name"], "\n".join(SPLIT_HEADER) + theorem(o, False), tmpd, timeout=400)
                if r1 != 0:
                    failing[o["name"]] = (o1 + e1)[-400:]
    for o in sp["obligations"] if defs_ok else []:
        m = site_of[o["site"]]; site = splits[o["site"]]
        title = "%s [%s %s:%s]" % (o["name"], m["function"], m["file"], m["line"])
        if o["name"] not in failing:
            ck.oblige(title, True, "proved by split_solve (Qed)")
            split_items.append({"name": o["name"], "site": o["site"], "holds": True})
            continue
        ce = split_counterexample(site, o["kind"])
        route = ROUTE_OF_FUNCTION.get(m["function"].split("<")[0])
        what = "work-split obligation %s fails for %s %s:%s (%s)" % (o["name"], m["function"], m["file"], m["line"],
               "; ".join("%s" % v for v in m.get("source", {}).values())[:400])
        rp = {"obligation": o["name"], "statement": o["stmt"], "site": m, "coq": failing[o["name"]]}
        item = {"name": o["name"], "site": o["site"], "holds": False, "counterexample": ce}
        witness = None
        if ce:
            rp["counterexample(C semantics of the translated expressions)"] = {"inputs": ce["inputs"], "why": ce["why"]}
            what += " | expressions evaluated on %s: %s" % (ce["inputs"], ce["why"])
            line = None
            if site["kind"] == "range":
                line = split_line(m, ce["inputs"][site["total"][1]], ce["inputs"][T.NUM_THREADS_KEY])
            elif "k" in ce:
                line = slice_line(m, max(ce["k"], 1), max(ce["P"], 1), ce["T"])
            if line and route:
                cf = ck.write_replay("split_%s.txt" % o["name"], line + "\n")
                r2, o2, e2 = run_lines(exe, [line], os.path.join(tmpd, "ce_in.txt"), args=("cases",), env={"OMP_DYNAMIC": "false"})
                evals += 1
                msgs = ["implementation crashed (rc=%s) %s" % (r2, e2.strip()[-200:])] if r2 != 0 or not o2 else cases_monitor([line], o2)
                rp.update({"case_file": cf, "case": line, "implementation_output": o2, "monitor": msgs, "replay_cmd": "%s cases %s" % (exe, cf)})
                if msgs:
                    witness = msgs[0]
        if witness is None and site["kind"] == "slice":
            # the layout is consumed by the merge loop: look for a thread-count dependent result of getNeighbors
            for sd in range(seed, seed + 3):
                n_, probs = compare_threads(ck, exe, "snn", sd, 12, 0, threads=[1, 2, 3, 7, 16])
                evals += n_
                probs = [p_ for p_ in probs if p_.get("kind") != "tie-order"]
                if probs:
                    witness = json.dumps(probs[0])[:500]
                    rp["replay_cmd"] = "OMP_NUM_THREADS=%s %s snn %d 12" % (probs[0]["threads"], exe, sd)
                    rp["witness"] = probs[0]
                    break
        item["witness"] = witness
        split_items.append(item)
        ck.oblige(title, False, what[:600])
        key = "split:%s:%s:%s" % (m["function"], m["line"], o["kind"])
        if witness:
            ck.violation(key, rp, what + " | observed on the real code: " + witness + " | replay: " + rp["replay_cmd"])
        else:
            ck.violation(key, rp, what + " | no-failing-input-found", no_input=True)
    if failing and defs_ok:
        # what the kernel accepts instead: the proved obligations, and the refutation of the others on the concrete input
        body = ["(* GENERATED by tools/c20.py - obligations about the work split of the current source *)"] + SPLIT_HEADER
        for o, it in zip(sp["obligations"], split_items):
            m = site_of[o["site"]]; site = splits[o["site"]]
            if it["holds"]:
                body.append(theorem(o)); continue
            body.append("(* obligation %s DOES NOT HOLD for %s %s:%s:\n   %s *)" % (o["name"], m["function"], m["file"], m["line"], o["stmt"].replace("*)", "* )")))
            ce = it.get("counterexample")
            if ce and o["kind"] in ("tiles", "slices"):
                x = site_x(m, ce["inputs"])
                if x is not None:
                    fn, tb = ("site_tiles_b site_%d" % o["site"], "site") if site["kind"] == "range" else ("slice_tiles_b slice_%d" % o["site"], "slice")
                    body.append("Theorem %s_refuted : %s [%s] = false. Proof. vm_compute. reflexivity. Qed.\n" % (o["name"], fn, "; ".join(map(str, x))))
        open(os.path.join(gen, "C20Split.v"), "w").write("\n".join(body))
        rc, out, err = coqc_gen("C20Split.v")
        ck.oblige("coq/gen/C20Split.v (proved obligations + kernel-checked refutations of the failed ones) compiles", rc == 0, (out + err)[-800:])
    elif defs_ok:
        ck.oblige("coq/gen/C20Split.v (%d obligations of %d sites, script split_solve) compiles" % (len(sp["obligations"]), len(metas)), True, "")
    ck.notes["split_sites"] = [{k: v for k, v in m.items() if k != "table_entry"} for m in metas]
    ck.notes["split_obligations"] = [{"name": o["name"], "statement": re.sub(r"\s+", " ", o["stmt"])[:700]} for o in sp["obligations"]]
    ck.notes["split_table(hand-kept)"] = T.SLICE_SITES

    # probe (reported, not a check of C20): the split divides by numThreads = min(threads, batches)
    if not ck.replay:
        rce, oute, erre = sh([exe, "empty"], env={"OMP_NUM_THREADS": "4"}, timeout=60)
        ck.notes["empty_dataset"] = {"cmd": "OMP_NUM_THREADS=4 %s empty" % exe, "rc": rce, "stdout": oute.strip()[:200],
                                     "meaning": "ErrorFunction::eval on a dataset with 0 batches: rc=-8 is SIGFPE (numBatches/numThreads with numThreads = min(threads,0) = 0); "
                                                "the work-split theorems assume >= 1 batch (obligation s<k>_safe proves the divisor non-zero under that assumption)"}

    # correspondence of the extracted models with the real code
    model = None
    if defs_ok:
        try:
            import hashlib
            hx = hashlib.sha256(sp["defs"].encode()).hexdigest()[:12]
            model = extract_model(PID, "C20Extract.v", "c20_driver.ml", exe_name="c20_model_" + hx)
        except Exception as ex:
            ck.oblige("extracted model builds (coq/extract/C20Extract.v + ocaml/c20_driver.ml)", False, str(ex)[-800:])
    if model and not ck.replay:
        cases = []
        nbs = [1, 2, 3, 4, 5, 7, 8, 11, 16, 17, 20, 31, 40] if not thorough else list(range(1, 49))
        nts = [1, 2, 3, 4, 7, 16] if not thorough else [1, 2, 3, 4, 5, 6, 7, 8, 11, 16]
        for m in metas:
            if m.get("unsupported"):
                continue
            if m["kind"] == "range":
                for nb in nbs:
                    for nt in nts:
                        l = split_line(m, nb, nt)
                        if l:
                            cases.append([l])
            else:
                for k in (1, 2, 3):
                    for P in (1, 2, 5):
                        for Tn in (1, 2, 3, 7, 16):
                            l = slice_line(m, k, P, Tn)
                            if l:
                                cases.append([l])
        n_split = len(cases)
        routed = [m for m in metas if not m.get("unsupported") and ROUTE_OF_FUNCTION.get(m["function"].split("<")[0])]
        ck.oblige("every translated site has a harness route and drivable inputs (%d of %d)" % (len(routed), len(metas)),
                  len(routed) == len(metas) and n_split > 0, "")
        cases += gen_rc_cases(ck.rng, 60 if not thorough else 400, 30 if not thorough else 200)
        kf = lambda msg, case: "cases:%s:%s" % (case[0].split()[0] + ":" + (case[0].split()[2] if case[0].startswith(("split", "slice")) else ""), re.sub(r"\d+", "N", msg)[:80])
        r = correspond(ck, cases, model, exe, cases_monitor, os.path.join(tmpd, "cases"), what="extracted models (generated split sites, reference counts) vs real code",
                       impl_env={"OMP_DYNAMIC": "false"}, impl_args=("cases",), shrink=False, keyfn=kf)
        evals += sum(len(c) for c in cases)
        # the decision procedure tiles_b of the model agrees with the monitor's verdict on what the implementation did
        tl = []
        for m in metas:
            if m.get("unsupported"):
                continue
            for (a, b) in ((3, 2), (7, 4), (16, 16), (5, 1)):
                x = site_x(m, {m.get("total_input"): a, T.NUM_THREADS_KEY: b, "k": 2, "batchSize(patterns)": a})
                if x is not None:
                    tl.append("tilesb %d | %s" % (m["index"], " ".join(map(str, x))))
        rcm, om, em = run_lines(model, tl, os.path.join(tmpd, "tilesb.txt"))
        holds = {it["site"] for it in split_items if it["holds"] and it["name"].endswith(("_tiles", "_slices"))}
        badv = [l for l, v in zip(tl, om) if (v == "true") != (int(l.split()[1]) in holds) and int(l.split()[1]) in holds]
        ck.oblige("decision procedure tiles_b (extracted) accepts the generated sites whose obligation is proved (%d evaluations)" % len(tl), rcm == 0 and not badv, "; ".join(badv[:3]))
        evals += len(tl)
        ck.notes["cases"] = {"split+slice lines": n_split, "reference-count scripts": len(cases) - n_split,
                             "disagreements": r["disagreements"], "monitor_failures": r["monitor_failures"]}
        ck.cov["samples"] = ck.cov.get("samples", []) + [{"case": cases[0][0], "model": r["model_out"][0][0], "implementation": r["impl_out"][0][0]},
                                                         {"case": cases[-1][0][:300], "model": r["model_out"][-1][0], "implementation": r["impl_out"][-1][0]}]
    if model and ck.replay and ck.replay.endswith(".txt"):
        lines = [l for l in open(ck.replay).read().split("\n") if l.strip()]
        ra, xa, _ = run_lines(model, lines, os.path.join(tmpd, "r_model.txt"))
        rb, xb, eb = run_lines(exe, lines, os.path.join(tmpd, "r_impl.txt"), args=("cases",), env={"OMP_DYNAMIC": "false"})
        for l, a, b in zip(lines, xa, xb + [""] * len(lines)):
            log("case   : " + l); log("  model: " + a); log("  impl : " + b); log("  monitor: " + str(cases_monitor([l], [b])))
            if a != b or cases_monitor([l], [b]):
                ck.violation("replay", {"case": l, "model_output": a, "implementation_output": b}, "replayed case still differs / violates the monitor: " + l)

    # ---------------------------------------------------------------- region obligations + search
    region_list = []
    for nm, rec, variant, extra in items:
        ok = verdict.get(nm, False)
        title = "%s_ok [%s %s:%s%s]" % (nm, rec["function"], rec["file"], rec["line"], ", stochastic model" if variant == "stochastic" else "")
        region_list.append({"name": nm, "function": rec["function"], "file": rec["file"], "line": rec["line"], "variant": variant, "race_free_b": ok})
        if ok:
            ck.oblige(title, True, "race_free_b = true (vm_compute, Qed)")
            continue
        bad = failing_accesses(rec, extra)
        key = finding_key(rec, variant, bad)
        what = "region obligation %s_ok fails: %s %s:%s: %s" % (
            nm, rec["function"], rec["file"], rec["line"],
            "; ".join("%s %s%s%s at line %s `%s`" % ("WRITE" if a["rw"] == "w" else "read", a["var"],
                      " [thread-indexed, capacity %s]" % rec["caps"].get(a["var"], {}).get("cap") if a["idx"] == "thread" else "",
                      "" if a["crit"] else " outside the critical region", a["line"], a["text"][:60]) for a in bad[:4]))
        # search for a concrete witness with the runtime monitors
        mode = "f7" if variant == "stochastic" else MODE_OF_FILE.get(rec["file"], "det")
        only = F7_LINE.get(rec["function"].split("<")[0]) if variant == "stochastic" else None
        tol = 0 if mode in ("det", "snn") else 1e-12
        found = None; tried = []
        attempts = [(exe, None, 3)] + [(None, s, 3) for s in SCHEDS]
        for ex_, env, reps in attempts:
            e_ = ex_ or sched_exe()
            if e_ is None:
                continue
            for sd in range(seed, seed + (6 if thorough else 2)):
                n, probs = compare_threads(ck, e_, mode, sd, reps if mode != "snn" else 12, tol, env, threads=[1, 2, 3, 7, 16], only=only)
                probs = [p for p in probs if p.get("kind") != "tie-order"]
                evals += n; tried.append({"build": "default schedule" if ex_ else "schedule(runtime)", "env": env, "seed": sd, "problems": len(probs)})
                if probs:
                    found = {"build": "default schedule (as shipped)" if ex_ else "schedule(runtime) variant of SHARK_PARALLEL_FOR (harness -DC20_SCHEDULE_RUNTIME)",
                             "env": env, "seed": sd, "mode": mode, "problem": probs[0],
                             "replay_cmd": "%sOMP_NUM_THREADS=%s %s %s %d %d" % (("OMP_SCHEDULE=%s " % env["OMP_SCHEDULE"]) if env else "", probs[0]["threads"], e_, mode, sd, reps if mode != "snn" else 12)}
                    break
            if found:
                break
        kf = ck.match_known(key)
        if kf is not None:
            # the kernel-checked statement for this region is `region_k_refuted`; the failure is a recorded finding
            ck.oblige("%s_refuted [%s %s:%s] (race_free_b = false; known finding %s)" % (nm, rec["function"], rec["file"], rec["line"], kf["id"]), True, what[:600])
        else:
            ck.oblige(title, False, what[:600])
        rp = {"region": rec, "variant": variant, "offending_accesses": bad[:6], "search": tried, "obligation": nm + "_ok"}
        if found:
            rp["witness"] = found
            ck.violation(key, rp, what + " | concrete witness: " + json.dumps(found["problem"])[:400] + " | " + found["replay_cmd"])
        else:
            rp["note"] = "no differing result / crash found by the runtime monitors (thread counts %s, default and runtime schedules)" % THREADS
            if ck.match_known(key):
                ck.violation(key, rp, what)
            else:
                ck.violation(key, rp, what + " | no-failing-input-found", no_input=True)

    # ---------------------------------------------------------------- runtime monitors on the unchanged configuration
    mon = []
    reps = 6 if not thorough else 40
    for mode, tol in (("det", 0), ("snn", 0), ("tol", 1e-12), ("share", 0)):
        if ck.replay:
            break
        n, probs = compare_threads(ck, exe, mode, seed, reps if mode != "share" else 2, tol)
        evals += n
        mon.append({"mode": mode, "lines": n, "problems": len(probs)})
        seen_keys = set()
        for p in probs[:6]:
            key = "%s:%s:%s" % ("schedule-dependent-tie-order" if p.get("kind") == "tie-order" else "monitor", mode,
                                p.get("line_name") or (p.get("observed") or p.get("what", "")).split(" ")[0])
            if key in seen_keys:
                continue
            seen_keys.add(key)
            ck.violation(key, {"mode": mode, "seed": seed, "problem": p,
                               "replay_cmd": "OMP_NUM_THREADS=%s %s %s %d %d" % (p["threads"], exe, mode, seed, reps)},
                         "thread-count monitor (%s): %s" % (mode, json.dumps(p)[:500]))
        unknown = [p for p in probs if not ck.match_known("%s:%s:%s" % ("schedule-dependent-tie-order" if p.get("kind") == "tie-order" else "monitor", mode, p.get("line_name") or ""))]
        ck.oblige("monitor %s: OMP_NUM_THREADS in %s agree with 1 thread (%s)%s" % (mode, THREADS, "exact" if tol == 0 else "1e-12",
                  "" if len(unknown) == len(probs) else " except known findings"), not unknown, "%d problems" % len(probs))
    # calling context: the same routines called from the master thread of an active parallel region (inner team of one thread)
    if not ck.replay:
        for mode, tol in (("det", 0), ("tol", 1e-12)):
            rc1, ref, err1 = run_mode(exe, mode, seed, reps, 1)
            cprob = []
            for k in (2, 3):
                rc, out, err = run_mode(exe, mode, seed, reps, k, {"C20_NESTED": str(k)})
                if rc1 != 0 or rc != 0 or len(out) != len(ref):
                    cprob.append({"threads": k, "what": "harness crashed/stopped inside a parallel region: rc=%s/%s, %d of %d lines; %s" % (rc1, rc, len(out), len(ref), err.strip()[-300:])}); continue
                case = ""
                for a, b in zip(ref, out):
                    if a.startswith("case "): case = a
                    evals += 1
                    if not close(a, b, tol) and not only_index_differs(a, b, tol):
                        cprob.append({"threads": k, "case": case, "line_name": a.split()[0], "what": "result of a call from inside an active parallel region differs from the plain single-threaded call",
                                      "expected(1 thread)": a[:300], "observed": b[:300]}); break
            for pr in cprob[:3]:
                key = "context:%s:%s" % (mode, pr.get("line_name", "crash"))
                ck.violation(key, {"mode": mode, "seed": seed, "problem": pr, "replay_cmd": "C20_NESTED=%s OMP_NUM_THREADS=%s %s %s %d %d" % (pr["threads"], pr["threads"], exe, mode, seed, reps)},
                             "calling-context monitor (%s): %s" % (mode, json.dumps(pr)[:500]))
            ck.oblige("monitor %s: called from the master thread of an active parallel region of 2 / 3 threads = plain single-threaded call (%s)" % (mode, "exact" if tol == 0 else "1e-12"), not cprob, "%d problems" % len(cprob))
    # corpus: (mode, seed, reps) triples that once exposed a defect are re-run on every run
    cfile = os.path.join(ROOT, "corpus", PID, "thread_monitor_seeds.txt")
    if os.path.exists(cfile) and not ck.replay:
        ncorp = 0; cprobs = []
        for l in open(cfile):
            t = l.split("#")[0].split()
            if len(t) != 3: continue
            n, probs = compare_threads(ck, exe, t[0], int(t[1]), int(t[2]), 0 if t[0] in ("det", "snn", "share") else 1e-12)
            evals += n; ncorp += 1
            for p in probs[:2]:
                cprobs.append(p)
                ck.violation("monitor:%s:%s" % (t[0], p.get("line_name") or (p.get("observed") or p.get("what", "")).split(" ")[0]),
                             {"mode": t[0], "seed": int(t[1]), "problem": p, "replay_cmd": "OMP_NUM_THREADS=%s %s %s %s %s" % (p["threads"], exe, t[0], t[1], t[2])},
                             "thread-count monitor (%s, corpus): %s" % (t[0], json.dumps(p)[:500]))
        ck.oblige("corpus of %d thread-monitor seeds that once exposed a defect" % ncorp, not cprobs, "%d problems" % len(cprobs))
    if ck.replay and not ck.replay.endswith(".txt"):
        # replay file = a violation json written earlier: re-run its command
        rp = json.load(open(ck.replay)); cmd = (rp.get("witness") or rp).get("replay_cmd")
        log("replay: " + str(cmd))
        if cmd:
            os.system(cmd)

    if thorough:
        # other admissible schedules for all routines (regions accepted by the checker must be insensitive)
        e_ = sched_exe()
        if e_:
            for env in SCHEDS:
                for mode, tol in (("det", 0), ("tol", 1e-12)):
                    n, probs = compare_threads(ck, e_, mode, seed + 1, 10, tol, env)
                    evals += n; mon.append({"mode": mode, "env": env, "lines": n, "problems": len(probs)})
                    mkey = lambda p: "%s:%s:%s" % ("schedule-dependent-tie-order" if p.get("kind") == "tie-order" else "monitor-sched(%s)" % env["OMP_SCHEDULE"], mode, p.get("line_name") or "")
                    for p in probs[:1]:
                        ck.violation(mkey(p), {"mode": mode, "env": env, "problem": p,
                                               "replay_cmd": "OMP_SCHEDULE=%s OMP_NUM_THREADS=%s %s %s %d 10" % (env["OMP_SCHEDULE"], p["threads"], e_, mode, seed + 1)},
                                     "schedule monitor: " + json.dumps(p)[:500])
                    unknown = [p for p in probs if not ck.match_known(mkey(p))]
                    ck.oblige("monitor %s under OMP_SCHEDULE=%s (schedule(runtime) build)%s" % (mode, env["OMP_SCHEDULE"], "" if len(unknown) == len(probs) else " except known findings"), not unknown, "")
        # ThreadSanitizer
        fl = [f for f in CXXFLAGS if f != "-O2"] + ["-O1", "-g", "-fsanitize=thread"]
        texe, terr = cxx_build("c20_parallel", srcs, flags=fl, tag="tsan", compiler="clang++")
        if texe is None:
            ck.oblige("TSan build (clang++ -fsanitize=thread -fopenmp, libomp)", False, terr[-800:])
        else:
            known_f7 = False
            for mode in ("det", "snn", "tol", "share", "f7"):
                rc, out, err = sh([texe, mode, str(seed), "2"], env={"OMP_NUM_THREADS": "4", "TSAN_OPTIONS": "halt_on_error=0 report_signal_unsafe=0 history_size=4"}, timeout=1500)
                keep, total = tsan_reports(err)
                evals += len(parse_out(out))
                mon.append({"mode": mode, "tsan_reports_total": total, "tsan_reports_in_shark_or_harness": len(keep)})
                if mode == "f7":
                    ck.notes["tsan_f7_reports"] = len(keep)
                    if keep:
                        ck.notes["tsan_f7_first"] = keep[0][:1500]
                    continue
                ck.oblige("TSan %s: no report with a frame in shark::/remora::/harness (%d runtime-internal reports filtered)" % (mode, total - len(keep)), not keep, keep[0][:600] if keep else "")
                for r in keep[:1]:
                    ck.violation("tsan:%s:%s" % (mode, (re.search(r"shark::[\w:]+", r) or [""])[0] if re.search(r"shark::[\w:]+", r) else "harness"),
                                 {"mode": mode, "report": r, "replay_cmd": "OMP_NUM_THREADS=4 %s %s %d 2" % (texe, mode, seed)}, "ThreadSanitizer report: " + r[:400])
            cf = os.path.join(tmpd, "cases", "impl_in.txt")
            if texe is not None and os.path.exists(cf):
                # the correspondence cases (workers of the split sites, heap slices, concurrent dataset copies) under TSan
                sub = [l for l in open(cf).read().split("\n") if l.startswith(("rcpar", "slice")) or (l.startswith("split") and l.split()[4] in ("3", "7"))]
                cf2 = os.path.join(tmpd, "tsan_cases.txt"); open(cf2, "w").write("\n".join(sub) + "\n")
                rc, out, err = sh([texe, "cases", cf2], env={"TSAN_OPTIONS": "halt_on_error=0 report_signal_unsafe=0 history_size=4"}, timeout=2400)
                keep, total = tsan_reports(err)
                evals += len(parse_out(out))
                mon.append({"mode": "cases", "lines": len(sub), "tsan_reports_total": total, "tsan_reports_in_shark_or_harness": len(keep)})
                ck.oblige("TSan cases (%d lines: split workers, heap slices, concurrent dataset copies): no report with a frame in shark::/remora::/harness (%d runtime-internal reports filtered)" % (len(sub), total - len(keep)),
                          len(parse_out(out)) == len(sub) and not keep, keep[0][:600] if keep else "%d of %d lines" % (len(parse_out(out)), len(sub)))
                for r_ in keep[:1]:
                    ck.violation("tsan:cases", {"report": r_, "replay_cmd": "%s cases %s" % (texe, cf2)}, "ThreadSanitizer report: " + r_[:400])
        rc, out, err = sh(["coqchk", "-silent", "-o", "-Q", "theories", "SharkV", "-Q", "gen", "SharkGen", "SharkV.Properties_C20", "SharkGen.C20Regions", "SharkGen.C20Split"], cwd=COQ, timeout=1500)
        ck.oblige("coqchk Properties_C20 + C20Regions + C20Split", rc == 0, (out + err)[-600:])

    # ---------------------------------------------------------------- evidence
    ck.cov["evaluations"] = evals
    ck.cov["distinct_nontrivial"] = len(regs) + len(splits)
    ck.cov["rule"] = ("obligations: one per SHARK_PARALLEL_FOR region of the anchored files (regenerated from the AST), + one `_stochastic` variant per region that "
                      "evaluates a model; evaluations = result lines of the harness compared against the single-threaded run over OMP_NUM_THREADS in %s "
                      "(random integer-valued datasets n in 5..44, batch size 1..7; exact), transcendental routines at 1e-12, + lines of the `cases` correspondence "
                      "(split sites: batches 1..40 x threads 1..16 per site, compared exactly with the ranges of the generated Gallina; heap slices k 1..3 x patterns 1..5 x threads 1..16; "
                      "reference-count scripts on real Data objects, sequential and 2..16 threads); distinct_nontrivial = regions + split sites" % THREADS)
    ck.cov["samples"] = ck.cov.get("samples", []) + [{"function": r["function"], "file": r["file"], "line": r["line"],
                          "accesses": [(a["var"], a["idx"], a["rw"], a["crit"]) for a in r["accesses"]]} for r in regs[:2]]
    ck.notes["regions"] = region_list
    by_file = {}
    for r in regs:
        by_file.setdefault(r["file"], []).append("%s:%s" % (r["function"], r["line"]))
    ck.notes["regions_per_file"] = by_file
    ck.notes["textual_parallel_for_per_file"] = res["textual"]
    ck.notes["monitors"] = mon
    ck.notes["translator"] = {
        "route": "clang JSON AST for all regions" if not fb else "AST with fallbacks: " + str([r["function"] for r in fb]),
        "tus": [{"name": n, "anchors": a, "filters": f} for n, a, f, _ in T.TUS],
        "table_uses": sorted(set(json.dumps({k: v for k, v in u.items() if k != "writes_members"}, sort_keys=True) for r in regs for u in r["table_uses"])),
        "index_assumed_injective": sorted(set("%s:%s %s <- `%s`" % (r["file"], a["line"], a["var"], a["text"][:80]) for r in regs for a in r["accesses"] if a["idx"] == "iter" and a["rw"] == "w")),
        "thread_indexed": [{"region": "%s:%s" % (r["file"], r["line"]), "var": k, **v} for r in regs for k, v in r["caps"].items()],
        "component_calls": sorted(set("%s.%s const=%s critical=%s" % (c["component"], c["method"], c["const"], c["crit"]) for r in regs for c in r["components"])),
        "stochastic_component_summary(DropoutLayer, from its AST)": res["dropout"],
        "notes": sorted(set(n for r in regs for n in r["notes"])),
    }
    ck.finish(level="proof",
              checker_cmd="coqc (Coq 8.16.1) on Properties_C20.v and on coq/gen/C20Regions.v + coq/gen/C20Split.v regenerated by tools/translate_omp.py (clang++ 14 -ast-dump=json); extracted models (coq/extract/C20Extract.v, ocaml/c20_driver.ml) vs harness/c20_parallel.cpp `cases`; runtime monitors harness/c20_parallel.cpp",
              explanation="proof, partial: checker soundness / merge order are theorems; the work split of the CURRENT source (ErrorFunction, NegativeLogLikelihood, SimpleNearestNeighbors heap slices) is translated from the AST and proved to tile on every run (generic script), the accumulated value = sequential sum as corollary; shared dataset copies: reference-count machine proved safe under every interleaving and executed against real Data objects; region summaries and expression trees come from a trusted translator; memory model and runtime only exercised by monitors")


if __name__ == "__main__":
    main()
