#!/usr/bin/env python3
"""C09 — kernel-matrix caches: proofs (Properties_C09.v) + correspondence (extracted model vs
shark::CachedMatrix/LRUCache on random operation histories) + spec monitor on the C++ output."""
import math, os, sys, re
sys.path.insert(0, os.path.dirname(os.path.abspath(__file__)))
from vlib import *

PID = "C09"

def gen_case(rng, big=False):
    n = rng.choice([1, 2, 3, 4, 5, 6, 7, 8] + ([12, 16] if big else []))
    mode = rng.random()
    if mode < 0.25: mx = n                      # minimum admissible for full rows
    elif mode < 0.5: mx = rng.randint(1, 2 * n)
    elif mode < 0.8: mx = rng.randint(n, 3 * n + 2)
    else: mx = rng.randint(n, n * n + 3)
    ids = rng.sample(range(1, 60), n)
    ops = []
    nops = rng.randint(5, 120 if big else 60)
    for _ in range(nops):
        r = rng.random()
        if r < 0.5:
            k = rng.randrange(n); e = rng.randint(1, n)
            ops.append("R %d %d" % (k, e))          # wf (e<=max) decided by the model: REJECT lines are skipped on both sides
        elif r < 0.75: ops.append("F %d %d" % (rng.randrange(n), rng.randrange(n)))
        elif r < 0.80: ops.append("M %d" % rng.randint(0, n))
        elif r < 0.83: ops.append("X")
        elif r < 0.90: ops.append("T %d %d" % (rng.randrange(n), rng.randint(1, n)))
        elif r < 0.94: ops.append("D %d" % rng.randrange(n))
        else: ops.append("Q %d %d" % (rng.randrange(n), rng.randint(0, n)))
    return ["C %d %d %s" % (n, mx, " ".join(map(str, ids)))] + ops

def parse_state(tok):
    d = {}
    for t in tok:
        if "=" in t:
            k, v = t.split("=", 1); d[k] = v
    return d

def filter_valid(model_exe, lines, tmp):
    """drop operations the model's wf_op rejects (outside the documented preconditions)"""
    open(tmp, "w").write("\n".join(lines) + "\n")
    rc, out, err = sh([model_exe, tmp], timeout=600)
    if rc != 0: raise RuntimeError("model driver failed: " + err[-2000:])
    keep = []; outl = out.strip().split("\n")
    assert len(outl) == len(lines), (len(outl), len(lines))
    # REJECT lines do not change the state, so one pass suffices
    for l, o in zip(lines, outl):
        if not o.endswith("REJECT"): keep.append(l)
    return keep

def monitor(lines, outl):
    """Spec of the property evaluated on the implementation's own output. returns list of (lineno,msg)."""
    bad = []; perm = None; mx = None; prev = None; prev_lens = None
    for idx, (l, o) in enumerate(zip(lines, outl)):
        t = l.split()
        if t[0] == "C":
            n = int(t[1]); mx = int(t[2]); perm = list(map(int, t[3:]))
        elif t[0] == "F":
            i, j = int(t[1]), int(t[2]); perm[i], perm[j] = perm[j], perm[i]
        ot = o.split()
        d = parse_state(ot)
        if "sz" not in d:
            bad.append((idx, "no state printed (crash?)")); break
        lens = list(map(int, d["len"].split(","))) if d.get("len") else []
        lru = list(map(int, d["lru"].split(","))) if d.get("lru") else []
        if int(d["sz"]) != sum(lens): bad.append((idx, "size accounting %s != sum of line lengths %d" % (d["sz"], sum(lens))))
        if int(d["sz"]) > mx: bad.append((idx, "cache holds %s values > capacity %d" % (d["sz"], mx)))
        if sorted(lru) != [k for k in range(len(lens)) if lens[k] > 0] or int(d["lines"]) != len(lru):
            bad.append((idx, "lru list %s does not list exactly the cached lines" % lru))
        for item in filter(None, d.get("data", "").split(";")):
            k, vals = item.split(":"); k = int(k)
            for c, v in enumerate(vals.split(",")):
                if int(v) != 1000 * perm[k] + perm[c]:
                    bad.append((idx, "cached line %d col %d holds %s, true entry %d" % (k, c, v, 1000 * perm[k] + perm[c]))); break
        if "ret" in d and t[0] in ("R", "Q"):
            k = int(t[1]); e = int(t[2])
            want = [1000 * perm[k] + perm[c] for c in range(e)]
            got = [int(x) for x in d["ret"].split(",")] if d["ret"] else []
            if got != want: bad.append((idx, "returned row %d = %s, true %s" % (k, got, want)))
        if "UB" in ot: bad.append((idx, "UB"))
        # two most recently requested rows: the previous row stays valid when capacity allows both
        if t[0] == "R" and prev is not None and prev[0] == "R" and prev[1] != t[1] and prev_lens is not None:
            pk = int(prev[1])
            if prev_lens[pk] + int(t[2]) <= mx and lens[pk] != prev_lens[pk]:
                bad.append((idx, "row %d (length %d) requested just before was evicted/resized to %d although %d+%s <= capacity %d" % (pk, prev_lens[pk], lens[pk], prev_lens[pk], t[2], mx)))
        prev = t if t[0] != "C" else None; prev_lens = lens
        if bad: break
    return bad

def load_cases(ck, gen, n):
    cases = []
    cdir = os.path.join(ROOT, "corpus", PID)
    if ck.replay:
        return [[l for l in open(ck.replay).read().split("\n") if l.strip() and not l.startswith("#")]]
    if os.path.isdir(cdir):
        for f in sorted(os.listdir(cdir)):
            cases.append([l for l in open(os.path.join(cdir, f)).read().split("\n") if l.strip() and not l.startswith("#")])
    for _ in range(n):
        cases.append(gen())
    return cases

def regroup(flat):
    cases = []; cur = None
    for l in flat:
        if l.startswith("C "): cur = [l]; cases.append(cur)
        else: cur.append(l)
    return cases

# ---------------- derived matrices (KernelMatrix, Regularized, Modified, Precomputed, BlockMatrix2x2) ----------------
def gen_derived(rng):
    n = rng.randint(1, 6); dim = rng.randint(1, 3)
    pts = [[rng.randint(-4, 4) for _ in range(dim)] for _ in range(n)]
    diag = [rng.randint(0, 9) for _ in range(n)]; labs = [rng.randint(0, 2) for _ in range(n)]
    ops = []
    for _ in range(rng.randint(1, 14)):
        x = rng.random()
        if x < 0.4: ops.append("F %d %d" % (rng.randrange(n), rng.randrange(n)))
        elif x < 0.55: ops.append("G %d %d" % (rng.randrange(2 * n), rng.randrange(2 * n)))
        elif x < 0.68:      # sub-row of the 2x2 block matrix: inside one block, straddling both, empty
            a = rng.randint(0, 2 * n); ops.append("V %d %d %d" % (rng.randrange(2 * n), a, rng.randint(a, 2 * n)))
        elif x < 0.75:
            a = rng.randint(0, n); ops.append("Q %d %d %d" % (rng.randrange(n), a, rng.randint(a, n)))
        else: ops.append("W %d %d" % (rng.randrange(n), rng.randint(1, n)))
    flat = [x for p in pts for x in p]
    impl = ["D %d %d | %s | %s | %s" % (n, dim, " ".join(map(str, flat)), " ".join(map(str, diag)), " ".join(map(str, labs)))] + ops
    g = [sum(a * b for a, b in zip(x, y)) for x in pts for y in pts]
    model = ["D %d | %s | %s | %s" % (n, " ".join(map(str, g)), " ".join(map(str, diag)), " ".join(map(str, labs)))] + ops
    return impl, model, (pts, diag, labs)

def monitor_derived(impl_case, out, info):
    """direct kernel evaluation of the ORIGINAL examples sitting at each position"""
    pts, diag, labs = info; n = len(pts)
    k = lambda a, b: sum(x * y for x, y in zip(pts[a], pts[b]))
    pos = list(range(n)); bpos = [i % n for i in range(2 * n)]
    for idx, (l, o) in enumerate(zip(impl_case, out)):
        t = l.split()
        if t[0] == "F": i, j = int(t[1]), int(t[2]); pos[i], pos[j] = pos[j], pos[i]
        if t[0] == "G": i, j = int(t[1]), int(t[2]); bpos[i], bpos[j] = bpos[j], bpos[i]
        d = parse_state(o.split())
        if t[0] == "V":
            kk, a, b = int(t[1]), int(t[2]), int(t[3])
            if "!OOB" in o: return ["line %d `%s`: BlockMatrix2x2::row wrote outside the caller's buffer" % (idx, l)]
            w = [k(bpos[kk], bpos[j]) for j in range(a, b)]
            got = [int(x) for x in d.get("ret", "").split(",")] if d.get("ret") else []
            if got != w: return ["line %d `%s`: BlockMatrix2x2::row returns %s, direct evaluation under the current order gives %s" % (idx, l, got, w)]
            continue
        if t[0] in ("Q", "W"):
            kk = int(t[1]); a, b = (int(t[2]), int(t[3])) if t[0] == "Q" else (0, int(t[2]))
            if "!OOB" in o: return ["line %d `%s`: RegularizedKernelMatrix::row wrote outside the caller's buffer" % (idx, l)]
            w = [k(pos[kk], pos[j]) + (diag[pos[kk]] if kk == j else 0) for j in range(a, b)]
            got = [int(x) for x in d.get("ret", "").split(",")] if d.get("ret") else []
            if got != w: return ["line %d `%s`: %s returns %s, direct evaluation gives %s" % (idx, l, "RegularizedKernelMatrix::row" if t[0] == "Q" else "CachedMatrix<RegularizedKernelMatrix>::row", got, w)]
            continue
        if "!CACHED" in o: return ["line %d: cached regularised row differs from the uncached one" % idx]
        want = {"K": [k(pos[i], pos[j]) for i in range(n) for j in range(n)],
                "R": [k(pos[i], pos[j]) + (diag[pos[i]] if i == j else 0) for i in range(n) for j in range(n)],
                "M": [(2 if labs[pos[i]] == labs[pos[j]] else -1) * k(pos[i], pos[j]) for i in range(n) for j in range(n)],
                "B": [k(bpos[i], bpos[j]) for i in range(2 * n) for j in range(2 * n)]}
        want["X"] = [k(pos[i], pos[j]) * 16 // ((1 << labs[pos[i]]) * (1 << labs[pos[j]])) if (k(pos[i], pos[j]) * 16) % ((1 << labs[pos[i]]) * (1 << labs[pos[j]])) == 0 else None for i in range(n) for j in range(n)]
        want["P"] = want["K"]; want["rowR"] = want["R"][(n - 1) * n:]
        names = {"K": "KernelMatrix", "R": "RegularizedKernelMatrix", "M": "ModifiedKernelMatrix", "P": "PrecomputedMatrix", "B": "BlockMatrix2x2", "X": "ExampleModifiedKernelMatrix", "rowR": "RegularizedKernelMatrix::row"}
        for key, w in want.items():
            try: got = [int(x) for x in d[key].split(",")]
            except Exception: return ["line %d: no output for %s" % (idx, names[key])]
            if key == "X": got = [g if ww is not None else None for g, ww in zip(got, w)]
            if got != w: return ["line %d `%s`: %s entries differ from direct kernel evaluation under the current order" % (idx, l, names[key])]
    return []

def derived_stream(ck, n):
    model = extract_model("C09D", "C09DExtract.v", "c09d_driver.ml")
    exe, err = cxx_build("c09_derived", [os.path.join(ROOT, "harness", "c09_derived.cpp")])
    if exe is None:
        ck.oblige("derived-matrix harness builds against /repo", False, err); return 0
    tmpd = os.path.join(BUILD, "tmp", PID, "derived"); os.makedirs(tmpd, exist_ok=True)
    cases = [gen_derived(ck.rng) for _ in range(n)]
    io = run_cases(exe, [c[0] for c in cases], os.path.join(tmpd, "impl.txt"))
    mo = run_cases(model, [c[1] for c in cases], os.path.join(tmpd, "model.txt"))
    nmon = ndis = 0
    for ci, (ic, mc, info) in enumerate(cases):
        (b, rcb, eb), (a, rca, ea) = io[ci], mo[ci]
        msgs = ["implementation crashed rc=%s" % rcb] if rcb != 0 else monitor_derived(ic, b, info)
        if msgs:
            nmon += 1
            if nmon <= 2:
                cf = ck.write_replay("derived_%d.txt" % ci, "\n".join(ic) + "\n")
                ck.violation("derived:" + re.sub(r"line \d+ `[^`]*`: ", "", msgs[0]), {"case_file": cf, "case": ic, "implementation_output": b, "model_output": a, "monitor": msgs}, "spec monitor fails on the implementation: " + msgs[0])
        elif a != b: ndis += 1
    if ndis and not nmon:
        ci = [i for i in range(len(cases)) if mo[i][0] != io[i][0]][0]
        ck.violation("correspondence-derived", {"case": cases[ci][0], "model_output": mo[ci][0], "implementation_output": io[ci][0]},
                     "correspondence C09Derived vs derived kernel matrices no longer checks; monitor passes on all explored inputs", no_input=True)
    ck.oblige("correspondence derived matrices model=implementation on %d flip histories" % n, nmon == 0 and ndis == 0)
    ck.notes["derived_cases"] = n
    return sum(len(c[0]) for c in cases)


# ---------------- further matrices: GaussianKernelMatrix (float/double), DifferenceKernelMatrix, PartlyPrecomputedMatrix ----------------
def gen_more(rng):
    """returns (case line, info dict).  Integer coordinates: squared distances and inner products are exact, so the expected
    entries are computed here, independently of the library (the harness harness/c09_more.cpp only prints what it is given)."""
    kind = rng.choice(["G", "G", "X", "X", "Y"])
    n = rng.randint(1, 9); dim = rng.randint(1, 4)
    # batch structure matters (DataView lookups): unequal batches, e.g. 10 points / max batch 4 -> 4,3,3
    mb = rng.choice([1, 2, 3, 4, 5, n, n + 3])
    if kind == "G":
        off = rng.choice([0, 50, 500, 3000, 5000, -4000, 70000])   # un-centred data: large norms (beyond 2^24: not representable in float), small mutual distances
        pts = [[off + rng.randint(-3, 3) for _ in range(dim)] for _ in range(n)]
        gamma = rng.choice([0.5, 0.125, 0.03125, 1.0])
        ctype = rng.choice("fd")
        flips = [rng.randrange(n) for _ in range(2 * rng.randint(0, 4))]
        line = "G %s %s %d %d %d | %s | %s" % (ctype, float(gamma).hex(), n, dim, mb, " ".join(str(v) for p in pts for v in p), " ".join(map(str, flips)))
        return line, {"kind": "G", "n": n, "pts": pts, "gamma": gamma, "ctype": ctype, "flips": flips}
    if kind == "X":
        n = max(n, 2); pts = [[rng.randint(-9, 9) for _ in range(dim)] for _ in range(n)]
        npairs = rng.randint(1, 8)
        pairs = [(rng.randrange(n), rng.randrange(n)) for _ in range(npairs)]
        if rng.random() < 0.5: pairs[-1] = (n - 1, rng.randrange(n))       # an element of the last (possibly shorter) batch
        flips = [rng.randrange(npairs) for _ in range(2 * rng.randint(0, 4))]
        line = "X %d %d %d %d | %s | %s | %s" % (n, dim, mb, npairs, " ".join(str(v) for p in pts for v in p), " ".join("%d %d" % p for p in pairs), " ".join(map(str, flips)))
        return line, {"kind": "X", "n": npairs, "pts": pts, "pairs": pairs, "flips": flips}
    pts = [[rng.randint(-9, 9) for _ in range(dim)] for _ in range(n)]
    rows = rng.randint(1, n + 1)
    line = "Y %d %d %d | %s" % (n, dim, rows, " ".join(str(v) for p in pts for v in p))
    return line, {"kind": "Y", "n": n, "pts": pts, "rows": rows}


def monitor_more(out, info):
    """spec predicate on the implementation's output: every entry read through every access path equals the direct kernel value
    of the points that the flips put at (i, j)."""
    import struct
    if out.startswith("EXC") or out.startswith("STDEXC") or not out.strip():
        return ["%s: implementation raised / printed nothing: %s" % (info["kind"], out[:120])]
    f = dict(x.split("=", 1) for x in out.split()[1:])
    n = info["n"]; perm = list(range(n))
    fl = info.get("flips", [])
    for a, b in zip(fl[0::2], fl[1::2]): perm[a], perm[b] = perm[b], perm[a]
    dot = lambda u, v: sum(x * y for x, y in zip(u, v))
    msgs = []
    if info["kind"] == "G":
        pts = info["pts"]; g = info["gamma"]
        def exp_ij(i, j):
            d2 = sum((x - y) ** 2 for x, y in zip(pts[perm[i]], pts[perm[j]]))
            v = math.exp(-g * d2)
            return struct.unpack("f", struct.pack("f", v))[0] if info["ctype"] == "f" else v
        rel = 3e-7 if info["ctype"] == "f" else 1e-12
        names = ["E", "R", "C", "P"]
    elif info["kind"] == "X":
        pts = info["pts"]; pairs = info["pairs"]
        diff = [[x - y for x, y in zip(pts[g_], pts[s_])] for (s_, g_) in pairs]
        exp_ij = lambda i, j: float(dot(diff[perm[i]], diff[perm[j]]))
        rel = 0.0; names = ["E", "R", "C", "P"] + (["M"] if True else [])
    else:
        pts = info["pts"]; exp_ij = lambda i, j: float(dot(pts[i], pts[j])); rel = 0.0; names = ["E", "R"]
        k = f.get("K", "").split(",")
        if k != ["1", "1" if info["rows"] >= n else "0"]:
            msgs.append("Y: isCached(0), isCached(n-1) = %s with %d cached rows of %d" % (k, info["rows"], n))
    for nm in names:
        if nm not in f: msgs.append("%s: field %s missing" % (info["kind"], nm)); continue
        vals = [float.fromhex(x) for x in f[nm].split(",")] if f[nm] else []
        if len(vals) != n * n: msgs.append("%s: field %s has %d values, expected %d" % (info["kind"], nm, len(vals), n * n)); continue
        for i in range(n):
            for j in range(n):
                e = exp_ij(i, j); v = vals[i * n + j]
                if not (abs(v - e) <= rel * max(abs(e), 1e-300)) and not (rel > 0 and abs(v - e) <= 1e-300):
                    path = {"E": "entry()", "R": "row() (full and sub-range)", "C": "CachedMatrix::row over it (lines cached before the flips)", "P": "PrecomputedMatrix over it", "M": "matrix()"}[nm]
                    what = {"G": "GaussianKernelMatrix<%s>" % ("float" if info.get("ctype") == "f" else "double"), "X": "DifferenceKernelMatrix", "Y": "PartlyPrecomputedMatrix"}[info["kind"]]
                    msgs.append("%s read through %s: entry (%d,%d) = %r, direct kernel evaluation gives %r" % (what, path, i, j, v, e)); break
            else: continue
            break
    return msgs


def more_stream(ck, n):
    exe, err = cxx_build("c09_more", [os.path.join(ROOT, "harness", "c09_more.cpp")])
    if exe is None:
        ck.oblige("harness for Gaussian / difference / partly precomputed matrices builds against /repo", False, err); return 0
    tmpd = os.path.join(BUILD, "tmp", PID, "more"); os.makedirs(tmpd, exist_ok=True)
    cases = [gen_more(ck.rng) for _ in range(n)]
    cdir = os.path.join(ROOT, "corpus", PID)
    rc, outl, err = run_lines(exe, [c for c, _ in cases], os.path.join(tmpd, "cases.txt"))
    nbad = 0; kinds = {}
    if rc != 0 or len(outl) < len(cases):
        k = min(len(outl), len(cases) - 1)
        cf = ck.write_replay("more_crash.txt", cases[k][0] + "\n")
        ck.violation("more:crash", {"case_file": cf, "case": cases[k][0]}, "implementation crashed (rc=%s) on `%s`" % (rc, cases[k][0][:200])); nbad += 1
    for (line, info), o in zip(cases, outl):
        kinds[info["kind"]] = kinds.get(info["kind"], 0) + 1
        msgs = monitor_more(o, info)
        if msgs:
            nbad += 1
            if nbad <= 3:
                cf = ck.write_replay("more_%d.txt" % nbad, line + "\n")
                ck.violation("more:" + msgs[0].split(":")[0], {"case_file": cf, "case": line, "implementation_output": o[:2000], "monitor": msgs},
                             "spec monitor fails on the implementation: " + msgs[0])
    ck.oblige("monitor: GaussianKernelMatrix (float/double), DifferenceKernelMatrix, PartlyPrecomputedMatrix agree entry-wise with direct kernel evaluation through entry(), row(), CachedMatrix, PrecomputedMatrix under flips (%d cases)" % n, nbad == 0)
    ck.notes["more_cases"] = kinds
    return n

def main():
    ck = Check(PID)
    ck.trusted = DEFAULT_TRUSTED + ["modelled not verified: real new[]/delete[] behaviour, boost::intrusive::list (its observable order is compared through listIndex)"]
    ck.assumptions = ["operations respect the documented preconditions of CachedMatrix/LRUCache (0 < end <= min(size, capacity), indices < size)",
                      "base matrix is a pure function of the two variable ids (free matrix of id pairs in the model; 1000*id_i+id_j in the harness)"]
    ck.proofs()
    model = extract_model(PID, "C09Extract.v", "c09_driver.ml")
    exe, err = cxx_build("c09_cache", [os.path.join(ROOT, "harness", "c09_cache.cpp")])
    if exe is None:
        ck.oblige("harness builds against /repo", False, err); ck.finish()
    tmpd = os.path.join(BUILD, "tmp", PID); os.makedirs(tmpd, exist_ok=True)
    big = ck.tier == "thorough"
    cases = load_cases(ck, lambda: gen_case(ck.rng, big), 400 if not big else 6000)
    flat = filter_valid(model, [l for c in cases for l in c], os.path.join(tmpd, "all_raw.txt"))
    cases = regroup(flat)
    def search(dcases):
        # more histories with the size/capacity of the disagreeing cases
        out = []
        for c in dcases:
            hd = c[0]
            for _ in range(300):
                g = gen_case(ck.rng, big); out.append([hd] + [o for o in g[1:]])
        fl = filter_valid(model, [l for c in out for l in c], os.path.join(tmpd, "search_raw.txt"))
        return regroup(fl)
    def strip_idx(lines):  # drivers prefix the case number; drop it for comparison
        return [re.sub(r"^\d+ ", "", l) for l in lines]
    r = correspond(ck, cases, model, exe, lambda c, o: [m for _, m in monitor(c, strip_idx(o))], tmpd,
                   compare=lambda a, b: strip_idx(a) == strip_idx(b),
                   what="C09Model.step vs shark::CachedMatrix/LRUCache", search=search,
                   keyfn=lambda msg, case: "cache:" + msg)
    if big and not ck.violations:
        # supporting runtime evidence for "no request reads or writes outside its buffers": same histories under ASan+UBSan
        aexe, aerr = cxx_build("c09_cache", [os.path.join(ROOT, "harness", "c09_cache.cpp")], flags=ASAN_FLAGS, tag="asan")
        if aexe is None:
            ck.oblige("ASan/UBSan build of the cache harness", False, aerr)
        else:
            ao = run_cases(aexe, cases, os.path.join(tmpd, "asan_in.txt"), env={"ASAN_OPTIONS": "detect_leaks=1:abort_on_error=0", "UBSAN_OPTIONS": "print_stacktrace=1"})
            badc = [i for i, (o, rc, e) in enumerate(ao) if rc != 0]
            if badc:
                i = badc[0]; cf = ck.write_replay("asan_case_%d.txt" % i, "\n".join(cases[i]) + "\n")
                ck.violation("cache:sanitizer", {"case_file": cf, "case": cases[i], "sanitizer_output": ao[i][2]}, "AddressSanitizer/UBSan report while replaying a cache history: " + ao[i][2][-400:])
            ck.oblige("ASan+UBSan: %d cache histories without report" % len(cases), not badc)
    ops = {}
    for l in flat: ops[l[0]] = ops.get(l[0], 0) + 1
    evict = 0; full = 0
    for (o, _, _) in r["impl_out"]:
        prev = None
        for l in strip_idx(o):
            d = parse_state(l.split())
            if "lines" in d:
                if prev is not None and l[0] in "RT" and int(d["lines"]) < prev + (1 if l[0] == "R" else 0): evict += 1
                prev = int(d["lines"])
    ck.cov["evaluations"] = len(flat) + (derived_stream(ck, 300 if not big else 3000) if not ck.replay else 0) + (more_stream(ck, 300 if not big else 3000) if not ck.replay else 0)
    ck.cov["distinct_nontrivial"] = len(set(" ".join(c) for c in cases if len(c) > 3))
    ck.cov["rule"] = "random histories of CachedMatrix/LRUCache operations (row, const row, flip, setMaxCachedIndex, clear, truncate, mark) on n<=8 (16 in thorough) variables, capacities 1..n^2+3, filtered by the model's precondition check wf_op; non-trivial = at least 3 operations; distinct = distinct operation strings"
    ck.cov["samples"] = cases[:2]
    ck.cov["traces_validated_against_impl"] = len(cases)
    ck.cov["disagreements_checked"] = r["disagreements"] + r["monitor_failures"]
    ck.notes["op_mix"] = ops; ck.notes["operations_that_evicted_a_line"] = evict
    ck.finish()

if __name__ == "__main__":
    main()
