#!/usr/bin/env python3
"""C09 — kernel-matrix caches: proofs (Properties_C09.v) + correspondence + spec monitors on the C++ output.
streams: cache    C09Model.step vs shark::CachedMatrix/LRUCache over a synthetic base (random operation histories)
         derived  C09Derived vs KernelMatrix/Regularized/Modified/ExampleModified/Precomputed/BlockMatrix2x2 under flips
         more     C09More (Gaussian / Difference / PartlyPrecomputed, directly + through the composed cache / precomputed models)
         comp     C09Comp over the operation records of C09More: CachedMatrix<Base> / PrecomputedMatrix<Base> for every Base, histories
                  of row requests (prefixes, sub-ranges), flips, setMaxCachedIndex, clear; capacities N, 2N, N^2, ...; unequal batches"""
import math, os, sys, re
sys.path.insert(0, os.path.dirname(os.path.abspath(__file__)))
from vlib import *

PID = "C09"

def gen_case(rng, big=False):
    n = rng.choice([1, 2, 3, 4, 5, 6, 7, 8] + ([12, 16] if big else []))
    mode = rng.random()
    if mode < 0.25: mx = n                      # minimum admissible for full rows
    elif mode < 0.5: mx = rng.randint(1, 2 * n)
    elif mode < 0.8: mx = rng.randint(n, 3 * n + 2)
    else: mx = rng.randint(n, n * n + 3)
    ids = rng.sample(range(1, 60), n)
    ops = []
    nops = rng.randint(5, 120 if big else 60)
    for _ in range(nops):
        r = rng.random()
        if r < 0.5:
            k = rng.randrange(n); e = rng.randint(1, n)
            ops.append("R %d %d" % (k, e))          # wf (e<=max) decided by the model: REJECT lines are skipped on both sides
        elif r < 0.75: ops.append("F %d %d" % (rng.randrange(n), rng.randrange(n)))
        elif r < 0.80: ops.append("M %d" % rng.randint(0, n))
        elif r < 0.83: ops.append("X")
        elif r < 0.90: ops.append("T %d %d" % (rng.randrange(n), rng.randint(1, n)))
        elif r < 0.94: ops.append("D %d" % rng.randrange(n))
        else: ops.append("Q %d %d" % (rng.randrange(n), rng.randint(0, n)))
    return ["C %d %d %s" % (n, mx, " ".join(map(str, ids)))] + ops

def parse_state(tok):
    d = {}
    for t in tok:
        if "=" in t:
            k, v = t.split("=", 1); d[k] = v
    return d

def filter_valid(model_exe, lines, tmp):
    """drop operations the model's wf_op rejects (outside the documented preconditions)"""
    open(tmp, "w").write("\n".join(lines) + "\n")
    rc, out, err = sh([model_exe, tmp], timeout=600)
    if rc != 0: raise RuntimeError("model driver failed: " + err[-2000:])
    keep = []; outl = out.strip().split("\n")
    assert len(outl) == len(lines), (len(outl), len(lines))
    # REJECT lines do not change the state, so one pass suffices
    for l, o in zip(lines, outl):
        if not o.endswith("REJECT"): keep.append(l)
    return keep

def monitor(lines, outl):
    """Spec of the property evaluated on the implementation's own output. returns list of (lineno,msg)."""
    bad = []; perm = None; mx = None; prev = None; prev_lens = None
    for idx, (l, o) in enumerate(zip(lines, outl)):
        t = l.split()
        if t[0] == "C":
            n = int(t[1]); mx = int(t[2]); perm = list(map(int, t[3:]))
        elif t[0] == "F":
            i, j = int(t[1]), int(t[2]); perm[i], perm[j] = perm[j], perm[i]
        ot = o.split()
        d = parse_state(ot)
        if "sz" not in d:
            bad.append((idx, "no state printed (crash?)")); break
        lens = list(map(int, d["len"].split(","))) if d.get("len") else []
        lru = list(map(int, d["lru"].split(","))) if d.get("lru") else []
        if int(d["sz"]) != sum(lens): bad.append((idx, "size accounting %s != sum of line lengths %d" % (d["sz"], sum(lens))))
        if int(d["sz"]) > mx: bad.append((idx, "cache holds %s values > capacity %d" % (d["sz"], mx)))
        if sorted(lru) != [k for k in range(len(lens)) if lens[k] > 0] or int(d["lines"]) != len(lru):
            bad.append((idx, "lru list %s does not list exactly the cached lines" % lru))
        for item in filter(None, d.get("data", "").split(";")):
            k, vals = item.split(":"); k = int(k)
            for c, v in enumerate(vals.split(",")):
                if int(v) != 1000 * perm[k] + perm[c]:
                    bad.append((idx, "cached line %d col %d holds %s, true entry %d" % (k, c, v, 1000 * perm[k] + perm[c]))); break
        if "ret" in d and t[0] in ("R", "Q"):
            k = int(t[1]); e = int(t[2])
            want = [1000 * perm[k] + perm[c] for c in range(e)]
            got = [int(x) for x in d["ret"].split(",")] if d["ret"] else []
            if got != want: bad.append((idx, "returned row %d = %s, true %s" % (k, got, want)))
        if "UB" in ot: bad.append((idx, "UB"))
        if "!OOB" in ot: bad.append((idx, "const row(%s,0,%s,storage) wrote outside the requested range of the caller's buffer" % (t[1], t[2])))
        # two most recently requested rows: the previous row stays valid when capacity allows both
        if t[0] == "R" and prev is not None and prev[0] == "R" and prev[1] != t[1] and prev_lens is not None:
            pk = int(prev[1])
            if prev_lens[pk] + int(t[2]) <= mx and lens[pk] != prev_lens[pk]:
                bad.append((idx, "row %d (length %d) requested just before was evicted/resized to %d although %d+%s <= capacity %d" % (pk, prev_lens[pk], lens[pk], prev_lens[pk], t[2], mx)))
        prev = t if t[0] != "C" else None; prev_lens = lens
        if bad: break
    return bad

def load_cases(ck, gen, n):
    cases = []
    cdir = os.path.join(ROOT, "corpus", PID)
    if ck.replay:
        return [[l for l in open(ck.replay).read().split("\n") if l.strip() and not l.startswith("#")]]
    if os.path.isdir(cdir):
        for f in sorted(os.listdir(cdir)):
            cases.append([l for l in open(os.path.join(cdir, f)).read().split("\n") if l.strip() and not l.startswith("#")])
    for _ in range(n):
        cases.append(gen())
    return cases

def regroup(flat):
    cases = []; cur = None
    for l in flat:
        if l.startswith("C "): cur = [l]; cases.append(cur)
        else: cur.append(l)
    return cases

# ---------------- derived matrices (KernelMatrix, Regularized, Modified, Precomputed, BlockMatrix2x2) ----------------
def gen_derived(rng):
    n = rng.randint(1, 6); dim = rng.randint(1, 3)
    pts = [[rng.randint(-4, 4) for _ in range(dim)] for _ in range(n)]
    diag = [rng.randint(0, 9) for _ in range(n)]; labs = [rng.randint(0, 2) for _ in range(n)]
    ops = []
    for _ in range(rng.randint(1, 14)):
        x = rng.random()
        if x < 0.4: ops.append("F %d %d" % (rng.randrange(n), rng.randrange(n)))
        elif x < 0.55: ops.append("G %d %d" % (rng.randrange(2 * n), rng.randrange(2 * n)))
        elif x < 0.68:      # sub-row of the 2x2 block matrix: inside one block, straddling both, empty
            a = rng.randint(0, 2 * n); ops.append("V %d %d %d" % (rng.randrange(2 * n), a, rng.randint(a, 2 * n)))
        elif x < 0.75:
            a = rng.randint(0, n); ops.append("Q %d %d %d" % (rng.randrange(n), a, rng.randint(a, n)))
        else: ops.append("W %d %d" % (rng.randrange(n), rng.randint(1, n)))
    flat = [x for p in pts for x in p]
    impl = ["D %d %d | %s | %s | %s" % (n, dim, " ".join(map(str, flat)), " ".join(map(str, diag)), " ".join(map(str, labs)))] + ops
    g = [sum(a * b for a, b in zip(x, y)) for x in pts for y in pts]
    model = ["D %d | %s | %s | %s" % (n, " ".join(map(str, g)), " ".join(map(str, diag)), " ".join(map(str, labs)))] + ops
    return impl, model, (pts, diag, labs)

def monitor_derived(impl_case, out, info):
    """direct kernel evaluation of the ORIGINAL examples sitting at each position"""
    pts, diag, labs = info; n = len(pts)
    k = lambda a, b: sum(x * y for x, y in zip(pts[a], pts[b]))
    pos = list(range(n)); bpos = [i % n for i in range(2 * n)]
    for idx, (l, o) in enumerate(zip(impl_case, out)):
        t = l.split()
        if t[0] == "F": i, j = int(t[1]), int(t[2]); pos[i], pos[j] = pos[j], pos[i]
        if t[0] == "G": i, j = int(t[1]), int(t[2]); bpos[i], bpos[j] = bpos[j], bpos[i]
        d = parse_state(o.split())
        if t[0] == "V":
            kk, a, b = int(t[1]), int(t[2]), int(t[3])
            if "!OOB" in o: return ["line %d `%s`: BlockMatrix2x2::row wrote outside the caller's buffer" % (idx, l)]
            w = [k(bpos[kk], bpos[j]) for j in range(a, b)]
            got = [int(x) for x in d.get("ret", "").split(",")] if d.get("ret") else []
            if got != w: return ["line %d `%s`: BlockMatrix2x2::row returns %s, direct evaluation under the current order gives %s" % (idx, l, got, w)]
            continue
        if t[0] in ("Q", "W"):
            kk = int(t[1]); a, b = (int(t[2]), int(t[3])) if t[0] == "Q" else (0, int(t[2]))
            if "!OOB" in o: return ["line %d `%s`: RegularizedKernelMatrix::row wrote outside the caller's buffer" % (idx, l)]
            w = [k(pos[kk], pos[j]) + (diag[pos[kk]] if kk == j else 0) for j in range(a, b)]
            got = [int(x) for x in d.get("ret", "").split(",")] if d.get("ret") else []
            if got != w: return ["line %d `%s`: %s returns %s, direct evaluation gives %s" % (idx, l, "RegularizedKernelMatrix::row" if t[0] == "Q" else "CachedMatrix<RegularizedKernelMatrix>::row", got, w)]
            continue
        if "!CACHED" in o: return ["line %d: cached regularised row differs from the uncached one" % idx]
        want = {"K": [k(pos[i], pos[j]) for i in range(n) for j in range(n)],
                "R": [k(pos[i], pos[j]) + (diag[pos[i]] if i == j else 0) for i in range(n) for j in range(n)],
                "M": [(2 if labs[pos[i]] == labs[pos[j]] else -1) * k(pos[i], pos[j]) for i in range(n) for j in range(n)],
                "B": [k(bpos[i], bpos[j]) for i in range(2 * n) for j in range(2 * n)]}
        want["X"] = [k(pos[i], pos[j]) * 16 // ((1 << labs[pos[i]]) * (1 << labs[pos[j]])) if (k(pos[i], pos[j]) * 16) % ((1 << labs[pos[i]]) * (1 << labs[pos[j]])) == 0 else None for i in range(n) for j in range(n)]
        want["P"] = want["K"]; want["rowR"] = want["R"][(n - 1) * n:]
        names = {"K": "KernelMatrix", "R": "RegularizedKernelMatrix", "M": "ModifiedKernelMatrix", "P": "PrecomputedMatrix", "B": "BlockMatrix2x2", "X": "ExampleModifiedKernelMatrix", "rowR": "RegularizedKernelMatrix::row"}
        for key, w in want.items():
            try: got = [int(x) for x in d[key].split(",")]
            except Exception: return ["line %d: no output for %s" % (idx, names[key])]
            if key == "X": got = [g if ww is not None else None for g, ww in zip(got, w)]
            if got != w: return ["line %d `%s`: %s entries differ from direct kernel evaluation under the current order" % (idx, l, names[key])]
    return []

def derived_stream(ck, n):
    model = extract_model("C09D", "C09DExtract.v", "c09d_driver.ml")
    exe, err = cxx_build("c09_derived", [os.path.join(ROOT, "harness", "c09_derived.cpp")])
    if exe is None:
        ck.oblige("derived-matrix harness builds against /repo", False, err); return 0
    tmpd = os.path.join(BUILD, "tmp", PID, "derived"); os.makedirs(tmpd, exist_ok=True)
    cases = [gen_derived(ck.rng) for _ in range(n)]
    io = run_cases(exe, [c[0] for c in cases], os.path.join(tmpd, "impl.txt"))
    mo = run_cases(model, [c[1] for c in cases], os.path.join(tmpd, "model.txt"))
    nmon = ndis = 0
    for ci, (ic, mc, info) in enumerate(cases):
        (b, rcb, eb), (a, rca, ea) = io[ci], mo[ci]
        msgs = ["implementation crashed rc=%s" % rcb] if rcb != 0 else monitor_derived(ic, b, info)
        if msgs:
            nmon += 1
            if nmon <= 2:
                cf = ck.write_replay("derived_%d.txt" % ci, "\n".join(ic) + "\n")
                ck.violation("derived:" + re.sub(r"line \d+ `[^`]*`: ", "", msgs[0]), {"case_file": cf, "case": ic, "implementation_output": b, "model_output": a, "monitor": msgs}, "spec monitor fails on the implementation: " + msgs[0])
        elif a != b: ndis += 1
    if ndis and not nmon:
        ci = [i for i in range(len(cases)) if mo[i][0] != io[i][0]][0]
        ck.violation("correspondence-derived", {"case": cases[ci][0], "model_output": mo[ci][0], "implementation_output": io[ci][0]},
                     "correspondence C09Derived vs derived kernel matrices no longer checks; monitor passes on all explored inputs", no_input=True)
    ck.oblige("correspondence derived matrices model=implementation on %d flip histories" % n, nmon == 0 and ndis == 0)
    ck.notes["derived_cases"] = n
    return sum(len(c[0]) for c in cases)


# ---------------- further matrices: GaussianKernelMatrix (float/double), DifferenceKernelMatrix, PartlyPrecomputedMatrix ----------------
def gen_more(rng):
    """returns (case line, info dict).  Integer coordinates: squared distances and inner products are exact, so the expected
    entries are computed here, independently of the library (the harness harness/c09_more.cpp only prints what it is given)."""
    kind = rng.choice(["G", "G", "X", "X", "Y"])
    n = rng.randint(1, 9); dim = rng.randint(1, 4)
    # batch structure matters (DataView lookups): unequal batches, e.g. 10 points / max batch 4 -> 4,3,3
    mb = rng.choice([1, 2, 3, 4, 5, n, n + 3])
    if kind == "G":
        off = rng.choice([0, 50, 500, 3000, 5000, -4000, 70000])   # un-centred data: large norms (beyond 2^24: not representable in float), small mutual distances
        pts = [[off + rng.randint(-3, 3) for _ in range(dim)] for _ in range(n)]
        gamma = rng.choice([0.5, 0.125, 0.03125, 1.0])
        ctype = rng.choice("fd")
        flips = [rng.randrange(n) for _ in range(2 * rng.randint(0, 4))]
        line = "G %s %s %d %d %d | %s | %s" % (ctype, float(gamma).hex(), n, dim, mb, " ".join(str(v) for p in pts for v in p), " ".join(map(str, flips)))
        return line, {"kind": "G", "n": n, "pts": pts, "gamma": gamma, "ctype": ctype, "flips": flips}
    if kind == "X":
        n = max(n, 2); pts = [[rng.randint(-9, 9) for _ in range(dim)] for _ in range(n)]
        npairs = rng.randint(1, 8)
        pairs = [(rng.randrange(n), rng.randrange(n)) for _ in range(npairs)]
        if rng.random() < 0.5: pairs[-1] = (n - 1, rng.randrange(n))       # an element of the last (possibly shorter) batch
        flips = [rng.randrange(npairs) for _ in range(2 * rng.randint(0, 4))]
        line = "X %d %d %d %d | %s | %s | %s" % (n, dim, mb, npairs, " ".join(str(v) for p in pts for v in p), " ".join("%d %d" % p for p in pairs), " ".join(map(str, flips)))
        return line, {"kind": "X", "n": npairs, "pts": pts, "pairs": pairs, "flips": flips}
    pts = [[rng.randint(-9, 9) for _ in range(dim)] for _ in range(n)]
    rows = rng.randint(1, n + 1)
    # cache size in bytes: a multiple of the row size, a few bytes less / more, less than one row (runtime check)
    extra = rng.choice([0, 0, -1, 1, rng.randint(-(8 * n - 1), 8 * n - 1), -8 * n * rows + rng.randint(0, 8 * n - 1)])
    if rows * n * 8 + extra < 0: extra = 0
    line = "Y %d %d %d %d | %s" % (n, dim, rows, extra, " ".join(str(v) for p in pts for v in p))
    return line, {"kind": "Y", "n": n, "pts": pts, "rows": min(n, (rows * n * 8 + extra) // (n * 8)), "bytes": rows * n * 8 + extra}


def more_info(line):
    """the info record of gen_more, recovered from a case line (replay)"""
    t = line.split(); sec = [[]]
    for x in t[1:]:
        if x == "|": sec.append([])
        else: sec[-1].append(x)
    while len(sec) < 4: sec.append([])
    if t[0] == "G":
        n, dim = int(sec[0][2]), int(sec[0][3]); xs = list(map(int, sec[1]))
        return {"kind": "G", "n": n, "pts": [xs[i * dim:(i + 1) * dim] for i in range(n)], "gamma": float.fromhex(sec[0][1]), "ctype": sec[0][0], "flips": list(map(int, sec[2]))}
    if t[0] == "X":
        n, dim, mb, np_ = map(int, sec[0]); xs = list(map(int, sec[1])); pr = list(map(int, sec[2]))
        return {"kind": "X", "n": np_, "pts": [xs[i * dim:(i + 1) * dim] for i in range(n)], "pairs": list(zip(pr[0::2], pr[1::2])), "flips": list(map(int, sec[3]))}
    n, dim, rows, extra = map(int, sec[0]); xs = list(map(int, sec[1]))
    return {"kind": "Y", "n": n, "pts": [xs[i * dim:(i + 1) * dim] for i in range(n)], "rows": min(n, (rows * n * 8 + extra) // (n * 8)), "bytes": rows * n * 8 + extra}

def monitor_more(out, info):
    """spec predicate on the implementation's output: every entry read through every access path equals the direct kernel value
    of the points that the flips put at (i, j)."""
    import struct
    if info["kind"] == "Y" and info["rows"] == 0:
        return [] if out.startswith("EXC") else ["Y: a cache of %d bytes holds no row of %d doubles, but the constructor did not raise: %s" % (info["bytes"], info["n"], out[:80])]
    if out.startswith("EXC") or out.startswith("STDEXC") or not out.strip():
        return ["%s: implementation raised / printed nothing: %s" % (info["kind"], out[:120])]
    f = dict(x.split("=", 1) for x in out.split()[1:])
    n = info["n"]; perm = list(range(n))
    fl = info.get("flips", [])
    for a, b in zip(fl[0::2], fl[1::2]): perm[a], perm[b] = perm[b], perm[a]
    dot = lambda u, v: sum(x * y for x, y in zip(u, v))
    msgs = []
    if info["kind"] == "G":
        pts = info["pts"]; g = info["gamma"]
        def exp_ij(i, j):
            d2 = sum((x - y) ** 2 for x, y in zip(pts[perm[i]], pts[perm[j]]))
            v = math.exp(-g * d2)
            return struct.unpack("f", struct.pack("f", v))[0] if info["ctype"] == "f" else v
        rel = 3e-7 if info["ctype"] == "f" else 1e-12
        names = ["E", "R", "C", "P"]
    elif info["kind"] == "X":
        pts = info["pts"]; pairs = info["pairs"]
        diff = [[x - y for x, y in zip(pts[g_], pts[s_])] for (s_, g_) in pairs]
        exp_ij = lambda i, j: float(dot(diff[perm[i]], diff[perm[j]]))
        rel = 0.0; names = ["E", "R", "C", "P"] + (["M"] if True else [])
    else:
        pts = info["pts"]; exp_ij = lambda i, j: float(dot(pts[i], pts[j])); rel = 0.0; names = ["E", "R"]
        k = f.get("K", "").split(",")
        if k != ["1", "1" if info["rows"] >= n else "0"]:
            msgs.append("Y: isCached(0), isCached(n-1) = %s with %d cached rows of %d (cache of %d bytes: at most %d rows fit)" % (k, info["rows"], n, info["bytes"], info["bytes"] // (8 * n)))
    for nm in names:
        if nm not in f: msgs.append("%s: field %s missing" % (info["kind"], nm)); continue
        vals = [float.fromhex(x) for x in f[nm].split(",")] if f[nm] else []
        if len(vals) != n * n: msgs.append("%s: field %s has %d values, expected %d" % (info["kind"], nm, len(vals), n * n)); continue
        for i in range(n):
            for j in range(n):
                e = exp_ij(i, j); v = vals[i * n + j]
                if not (abs(v - e) <= rel * max(abs(e), 1e-300)) and not (rel > 0 and abs(v - e) <= 1e-300):
                    path = {"E": "entry()", "R": "row() (full and sub-range)", "C": "CachedMatrix::row over it (lines cached before the flips)", "P": "PrecomputedMatrix over it", "M": "matrix()"}[nm]
                    what = {"G": "GaussianKernelMatrix<%s>" % ("float" if info.get("ctype") == "f" else "double"), "X": "DifferenceKernelMatrix", "Y": "PartlyPrecomputedMatrix"}[info["kind"]]
                    msgs.append("%s read through %s: entry (%d,%d) = %r, direct kernel evaluation gives %r" % (what, path, i, j, v, e)); break
            else: continue
            break
    return msgs


def same_fields(mo, io, info):
    """extracted model vs implementation, field by field: exact for X and Y (integer data), tolerance only for the exp of G"""
    if mo.split()[:1] != io.split()[:1]: return "line kinds differ: model `%s`, implementation `%s`" % (mo[:40], io[:40])
    if mo.startswith("EXC"): return None
    fm = dict(x.split("=", 1) for x in mo.split()[1:]); fi = dict(x.split("=", 1) for x in io.split()[1:])
    if sorted(fm) != sorted(fi): return "fields differ: model %s, implementation %s" % (sorted(fm), sorted(fi))
    rel = 0.0 if info["kind"] != "G" else (1.2e-7 if info["ctype"] == "f" else 1e-12)
    for k in sorted(fm):
        if fm[k] == fi[k]: continue
        a, b = fm[k].split(","), fi[k].split(",")
        if len(a) != len(b): return "field %s: %d values in the model, %d in the implementation" % (k, len(a), len(b))
        for q, (x, y) in enumerate(zip(a, b)):
            if x == y: continue
            try: u, v = float.fromhex(x), float.fromhex(y)
            except ValueError: return "field %s value %d: model %s, implementation %s" % (k, q, x, y)
            if abs(u - v) > rel * max(abs(u), abs(v)): return "field %s value %d: model %r, implementation %r" % (k, q, u, v)
    return None

def more_stream(ck, n):
    model = extract_model("C09M", "C09CExtract.v", "c09m_driver.ml")
    exe, err = cxx_build("c09_more", [os.path.join(ROOT, "harness", "c09_more.cpp")])
    if exe is None:
        ck.oblige("harness for Gaussian / difference / partly precomputed matrices builds against /repo", False, err); return 0
    tmpd = os.path.join(BUILD, "tmp", PID, "more"); os.makedirs(tmpd, exist_ok=True)
    if ck.replay: cases = [(l, more_info(l)) for l in open(ck.replay).read().split("\n") if l.strip() and not l.startswith("#")]
    else: cases = [gen_more(ck.rng) for _ in range(n)]
    n = len(cases)
    rc, outl, err = run_lines(exe, [c for c, _ in cases], os.path.join(tmpd, "cases.txt"))
    rcm, moutl, errm = run_lines(model, [c for c, _ in cases], os.path.join(tmpd, "cases_model.txt"))
    if rcm != 0 or len(moutl) != len(cases): raise RuntimeError("model driver c09m failed: " + errm[-1000:])
    nbad = 0; kinds = {}; ndis = 0; first_dis = None
    if rc != 0 or len(outl) < len(cases):
        k = min(len(outl), len(cases) - 1)
        cf = ck.write_replay("more_crash.txt", cases[k][0] + "\n")
        ck.violation("more:crash", {"case_file": cf, "case": cases[k][0]}, "implementation crashed (rc=%s) on `%s`" % (rc, cases[k][0][:200])); nbad += 1
    for qi, ((line, info), o) in enumerate(zip(cases, outl)):
        kinds[info["kind"]] = kinds.get(info["kind"], 0) + 1
        msgs = monitor_more(o, info)
        if msgs:
            nbad += 1
            if nbad <= 3:
                cf = ck.write_replay("more_%d.txt" % nbad, line + "\n")
                ck.violation("more:" + msgs[0].split(":")[0], {"case_file": cf, "case": line, "implementation_output": o[:2000], "monitor": msgs},
                             "spec monitor fails on the implementation: " + msgs[0])
        else:
            d = same_fields(moutl[qi], o, info)
            if d:
                ndis += 1
                if first_dis is None: first_dis = (line, moutl[qi], o, d)
    if ndis and not nbad:
        line, m_, o_, d = first_dis
        ck.violation("correspondence-more", {"case": line, "model_output": m_[:2000], "implementation_output": o_[:2000], "difference": d},
                     "correspondence C09More (Gaussian / Difference / PartlyPrecomputed models, read directly and through the composed cache / precomputed models) vs implementation no longer checks (%s); monitor passes on all explored inputs" % d, no_input=True)
    ck.oblige("correspondence extracted GaussianKernelMatrix / DifferenceKernelMatrix / PartlyPrecomputedMatrix models = implementation on %d cases (exact for X, Y; exp at 1e-12 for G)" % n, ndis == 0 and nbad == 0)
    ck.oblige("monitor: GaussianKernelMatrix (float/double), DifferenceKernelMatrix, PartlyPrecomputedMatrix agree entry-wise with direct kernel evaluation through entry(), row(), CachedMatrix, PrecomputedMatrix under flips (%d cases)" % n, nbad == 0)
    ck.notes["more_cases"] = kinds
    return n

# ---------------- composed histories: CachedMatrix<Base> / PrecomputedMatrix<Base> over every kernel-matrix class ----------------
COMP_KINDS = {"K": "KernelMatrix", "R": "RegularizedKernelMatrix", "M": "ModifiedKernelMatrix", "E": "ExampleModifiedKernelMatrix",
              "B": "BlockMatrix2x2<KernelMatrix>", "D": "DifferenceKernelMatrix", "G": "GaussianKernelMatrix"}

def gen_comp(rng, big=False):
    """returns (case lines, info).  Same file for the harness and the extracted model."""
    kind = rng.choice("KRMEBDGRDG")
    wrap = "c" if (kind == "E" or rng.random() < 0.7) else "p"      # PrecomputedMatrix<ExampleModifiedKernelMatrix> does not compile
    n = rng.randint(1, 4 if kind == "B" else (8 if big else 6)); dim = rng.randint(1, 3)
    if kind == "D": n = max(n, 2)
    mb = rng.choice([1, 2, 3, 4, n, n + 3])                         # unequal batches whenever the batch count does not divide n
    pts = [[rng.randint(-4, 4) for _ in range(dim)] for _ in range(n)]
    diag = [rng.randint(0, 9) for _ in range(n)]; labs = [rng.randint(0, 2) for _ in range(n)]
    pairs = [(rng.randrange(n), rng.randrange(n)) for _ in range(rng.randint(1, 7))] if kind == "D" else []
    if pairs and rng.random() < 0.5: pairs[-1] = (n - 1, rng.randrange(n))
    N = {"B": 2 * n, "D": len(pairs)}.get(kind, n)
    cap = rng.choice([N, 2 * N, N * N, rng.randint(N, N * N + 3), rng.randint(1, N)])
    g = rng.choice([1, 3, 5])
    pre = []
    # flips of the base BEFORE the wrapper is constructed.  For PrecomputedMatrix over KernelMatrix / Regularized / Modified this hits the
    # known finding C09-PREFLIP (KernelMatrix::matrix() ignores earlier flips): reported with the key comp:precomputed-over-flipped-base
    pre = [rng.randrange(N) for _ in range(2 * rng.randint(0, 3))]
    ops = []
    for _ in range(rng.randint(4, 60 if big else 36)):
        r = rng.random()
        if wrap == "c":
            if r < 0.45:
                e = rng.randint(1, N); ops.append("R %d %d %d" % (rng.randrange(N), rng.choice([0, 0, rng.randint(0, e)]), e))
            elif r < 0.67: ops.append("F %d %d" % (rng.randrange(N), rng.randrange(N)))
            elif r < 0.73: ops.append("M %d" % rng.randint(0, N))
            elif r < 0.76: ops.append("X")
            else:
                # all positions relative to the cached part of the line occur: end < cached, start > cached, start = end, ...
                e = rng.randint(0, N); ops.append("Q %d %d %d" % (rng.randrange(N), rng.choice([0, rng.randint(0, e), rng.randint(0, e), e]), e))
        else:
            if r < 0.4: ops.append("F %d %d" % (rng.randrange(N), rng.randrange(N)))
            else:
                e = rng.randint(0, N); ops.append("%s %d %d %d" % (rng.choice("QR"), rng.randrange(N), rng.randint(0, e), e))
    hd = "C %s %s %d %d %d %d %d | %s | %s | %s | %s | %s" % (kind, wrap, n, dim, mb, cap, g, " ".join(str(v) for p in pts for v in p),
        " ".join(map(str, diag)), " ".join(map(str, labs)), " ".join("%d %d" % p for p in pairs), " ".join(map(str, pre)))
    return [hd] + ops

def comp_info(hd):
    t = hd.split(); kind, wrap = t[1], t[2]
    sec = [[]]
    for x in t[3:]:
        if x == "|": sec.append([])
        else: sec[-1].append(int(x))
    while len(sec) < 6: sec.append([])
    n, dim, mb, cap, g = sec[0]
    pts = [sec[1][i * dim:(i + 1) * dim] for i in range(n)]; diag, labs = sec[2], sec[3]
    pairs = list(zip(sec[4][0::2], sec[4][1::2])); pre = list(zip(sec[5][0::2], sec[5][1::2]))
    dot = lambda u, v: sum(x * y for x, y in zip(u, v))
    k = lambda a, b: dot(pts[a], pts[b])
    if kind == "K": ent = k
    elif kind == "R": ent = lambda a, b: k(a, b) + (diag[a] if a == b else 0)
    elif kind == "M": ent = lambda a, b: (2 if labs[a] == labs[b] else -1) * k(a, b)
    elif kind == "E": ent = lambda a, b: k(a, b) * (16 >> (labs[a] + labs[b]))
    elif kind == "B": ent = lambda a, b: k(a % n, b % n)
    elif kind == "D":
        diff = [[x - y for x, y in zip(pts[g_], pts[s_])] for (s_, g_) in pairs]
        ent = lambda a, b: dot(diff[a], diff[b])
    else:
        gamma = 2.0 ** (-g)
        ent = lambda a, b: math.exp(-gamma * sum((x - y) ** 2 for x, y in zip(pts[a], pts[b])))
    N = {"B": 2 * n, "D": len(pairs)}.get(kind, n)
    return dict(kind=kind, wrap=wrap, N=N, cap=cap, ent=ent, pre=pre, isf=(kind == "G"))

def monitor_comp(lines, outl):
    """Spec of the property on the implementation's own output: every returned / cached / precomputed cell equals the direct
    evaluation of the ORIGINAL entry function under the composed variable order; accounting and capacity clauses."""
    info = comp_info(lines[0]); N = info["N"]; ent = info["ent"]; cap = info["cap"]; isf = info["isf"]
    what = "%s<%s>" % ("CachedMatrix" if info["wrap"] == "c" else "PrecomputedMatrix", COMP_KINDS[info["kind"]])
    perm = list(range(N))
    for i, j in info["pre"]: perm[i], perm[j] = perm[j], perm[i]
    val = (lambda x: float.fromhex(x)) if isf else int
    def same(v, a, b):
        w = ent(perm[a], perm[b])
        return (abs(v - w) <= 1e-12 * abs(w)) if isf else v == w
    prev = None; prev_lens = None
    for idx, (l, o) in enumerate(zip(lines, outl)):
        t = l.split(); d = parse_state(o.split())
        if t[0] == "F":
            i, j = int(t[1]), int(t[2]); perm[i], perm[j] = perm[j], perm[i]
        if "!OOB" in o: return ["line %d `%s`: const-row-out-of-range: %s::row(k,start,end,storage) wrote outside the cells [start,end) of the caller's buffer" % (idx, l, what)]
        if " EXC" in o or "acc" not in d: return ["line %d `%s`: %s raised / printed no state" % (idx, l, what)]
        if "E" in d:
            vals = [val(x) for x in d["E"].split(",")] if d["E"] else []
            if len(vals) != N * N or not all(same(vals[a * N + b], a, b) for a in range(N) for b in range(N)):
                return ["line %d `%s`: %s::entry differs from the original entries under the composed order" % (idx, l, what)]
        if "ret" in d and t[0] in "RQ":
            k, a, e = int(t[1]), int(t[2]), int(t[3])
            lo = 0 if (t[0] == "R" and info["wrap"] == "c") else a      # the non-const CachedMatrix::row returns the line from column 0
            got = [val(x) for x in d["ret"].split(",")] if d["ret"] else []
            if len(got) != e - lo or not all(same(got[c - lo], k, c) for c in range(lo, e)):
                return ["line %d `%s`: %s::row returned %s, original entries under the composed order are %s" % (idx, l, what, got, [ent(perm[k], perm[c]) for c in range(lo, e)])]
        if info["wrap"] == "p":
            if d["acc"] != "%d/%d/%d" % (N * N, N, N): return ["line %d `%s`: %s accounting %s, expected %d/%d/%d" % (idx, l, what, d["acc"], N * N, N, N)]
            continue
        lens = list(map(int, d["len"].split(","))) if d.get("len") else []
        lru = list(map(int, d["lru"].split(","))) if d.get("lru") else []
        if int(d["sz"]) != sum(lens): return ["line %d `%s`: %s size accounting %s != sum of line lengths %d" % (idx, l, what, d["sz"], sum(lens))]
        if int(d["sz"]) > cap: return ["line %d `%s`: %s holds %s values > capacity %d" % (idx, l, what, d["sz"], cap)]
        if d["acc"] != "%s/%d" % (d["sz"], cap): return ["line %d `%s`: %s getCacheSize/getMaxCacheSize = %s, expected %s/%d" % (idx, l, what, d["acc"], d["sz"], cap)]
        if d.get("rs", "") != ",".join("%d%s" % (x, "+" if x else "-") for x in lens): return ["line %d `%s`: %s getCacheRowSize/isCached %s disagree with the line lengths %s" % (idx, l, what, d.get("rs"), lens)]
        if sorted(lru) != [k for k in range(N) if lens[k] > 0] or int(d["lines"]) != len(lru):
            return ["line %d `%s`: %s LRU list %s does not list exactly the cached lines" % (idx, l, what, lru)]
        if t[0] == "X" and (int(d["sz"]) != 0 or lru): return ["line %d: %s not empty after clear()" % (idx, what)]
        if t[0] in "FM" and prev_lens is not None and (sorted(lens) != sorted(prev_lens)): return ["line %d `%s`: %s line lengths changed by a flip / index restriction" % (idx, l, what)]
        for item in filter(None, d.get("data", "").split(";")):
            k, vals = item.split(":"); k = int(k)
            for c, v in enumerate(vals.split(",")):
                if not same(val(v), k, c):
                    return ["line %d `%s`: %s cached line %d col %d holds %s, original entry under the composed order is %s" % (idx, l, what, k, c, v, ent(perm[k], perm[c]))]
        if t[0] == "R" and prev is not None and prev[0] == "R" and prev[1] != t[1] and prev_lens is not None:
            pk = int(prev[1])
            if prev_lens[pk] + int(t[3]) <= cap and lens[pk] != prev_lens[pk]:
                return ["line %d `%s`: %s row %d requested just before was evicted although %d+%s <= capacity %d" % (idx, l, what, pk, prev_lens[pk], t[3], cap)]
        prev = t if t[0] != "C" else None; prev_lens = lens
    return []

def same_lines(a, b, isf):
    if a == b: return True
    if not isf or len(a) != len(b): return False
    for x, y in zip(a, b):
        if x == y: continue
        tx, ty = re.split(r"[ ,;:=/]", x), re.split(r"[ ,;:=/]", y)
        if len(tx) != len(ty): return False
        for u, v in zip(tx, ty):
            if u == v: continue
            try: fu, fv = float.fromhex(u), float.fromhex(v)
            except ValueError: return False
            if abs(fu - fv) > 1e-12 * max(abs(fu), abs(fv)): return False
    return True

def comp_stream(ck, n, big=False):
    model = extract_model("C09C", "C09CExtract.v", "c09c_driver.ml")
    exe, err = cxx_build("c09_comp", [os.path.join(ROOT, "harness", "c09_comp.cpp")])
    if exe is None:
        ck.oblige("composed-history harness builds against /repo", False, err); return 0
    tmpd = os.path.join(BUILD, "tmp", PID, "comp"); os.makedirs(tmpd, exist_ok=True)
    strip = lambda ls: [re.sub(r"^\d+ ", "", l) for l in ls]
    if ck.replay: raw = [[l for l in open(ck.replay).read().split("\n") if l.strip() and not l.startswith("#")]]
    else: raw = [gen_comp(ck.rng, big) for _ in range(n)]
    # drop the operations outside the documented preconditions (the model's gwf_op decides; REJECT lines do not change the state)
    mo = run_cases(model, raw, os.path.join(tmpd, "raw_model.txt"))
    cases = []
    for c, (o, rc, e) in zip(raw, mo):
        if rc != 0 or len(o) != len(c): raise RuntimeError("composed model driver failed: %s" % e)
        cases.append([l for l, ol in zip(c, o) if not ol.endswith("REJECT")])
    io = run_cases(exe, cases, os.path.join(tmpd, "impl.txt"))
    mo = run_cases(model, cases, os.path.join(tmpd, "model.txt"))
    nmon = ndis = nknown = 0; kinds = {}; first_dis = None
    for ci, c in enumerate(cases):
        (b, rcb, eb), (a, rca, ea) = io[ci], mo[ci]
        key = c[0].split()[1] + c[0].split()[2]; kinds[key] = kinds.get(key, 0) + 1
        msgs = ["implementation crashed rc=%s on %s" % (rcb, c[0][:60])] if rcb != 0 else monitor_comp(c, strip(b))
        if msgs:
            info = comp_info(c[0])
            preflip = info["wrap"] == "p" and info["kind"] in "KRM" and any(i != j for i, j in info["pre"])
            if preflip and rcb == 0 and "::entry differs" in msgs[0] and same_lines(strip(a), strip(b), False):
                # PrecomputedMatrix built from an already flipped KernelMatrix / Regularized / Modified: the as-coded model agrees with the
                # implementation, the specification does not (KernelMatrix::matrix() ignores earlier flips): known finding C09-PREFLIP
                nknown += 1
                if nknown <= 1:
                    cf = ck.write_replay("comp_preflip_%d.txt" % ci, "\n".join(c) + "\n")
                    ck.violation("comp:precomputed-over-flipped-base", {"case_file": cf, "case": c, "implementation_output": b, "model_output": a, "monitor": msgs},
                                 "spec monitor fails on the implementation: " + msgs[0])
                continue
            nmon += 1
            if nmon <= 2:
                cf = ck.write_replay("comp_%d.txt" % ci, "\n".join(c) + "\n")
                key = "comp:const-row-out-of-range" if "const-row-out-of-range" in msgs[0] else "comp:" + re.sub(r"line \d+ (`[^`]*`)?: ", "", msgs[0])[:160]
                ck.violation(key, {"case_file": cf, "case": c, "implementation_output": b, "model_output": a, "monitor": msgs},
                             "spec monitor fails on the implementation: " + msgs[0])
        elif not same_lines(strip(a), strip(b), c[0].split()[1] == "G"):
            ndis += 1
            if first_dis is None: first_dis = ci
    if ndis and not nmon:
        ci = first_dis
        ck.violation("correspondence-composed", {"case": cases[ci], "model_output": mo[ci][0], "implementation_output": io[ci][0]},
                     "correspondence C09Comp/C09More vs CachedMatrix/PrecomputedMatrix over the kernel-matrix classes no longer checks; monitor passes on all explored inputs", no_input=True)
    ck.oblige("correspondence composed model=implementation and monitor on %d histories of CachedMatrix<Base>/PrecomputedMatrix<Base>, Base in %s" % (len(cases), sorted(kinds)), nmon == 0 and ndis == 0)
    ck.notes["composed_cases"] = kinds; ck.notes["composed_cases_hitting_known_finding_C09_PREFLIP"] = nknown
    return sum(len(c) for c in cases)

def main():
    ck = Check(PID)
    ck.trusted = DEFAULT_TRUSTED + ["modelled not verified: real new[]/delete[] behaviour, boost::intrusive::list (its observable order is compared through listIndex)"]
    ck.assumptions = ["operations respect the documented preconditions of CachedMatrix/LRUCache (0 < end <= min(size, capacity), indices < size)",
                      "cache stream: base matrix is a pure function of the two variable ids (free matrix of id pairs in the model; 1000*id_i+id_j in the harness); composed stream: the base is each kernel-matrix class itself (operation records of C09More.v, proved flip-aware in C09InstProofs.v / C09MoreProofs.v)",
                      "kernel of the derived / composed / more streams: LinearKernel on small integer points (exact); GaussianKernelMatrix: exp is abstract in the model, libm's exp on both sides of the comparison (1e-12)",
                      "PrecomputedMatrix over KernelMatrix / Regularized / Modified constructed from an already flipped base: known finding C09-PREFLIP (KernelMatrix::matrix ignores earlier flips); these cases are generated, the as-coded model agrees with the implementation, the monitor failure is reported under the key comp:precomputed-over-flipped-base"]
    ck.proofs()
    if ck.replay and open(ck.replay).read().lstrip().startswith("C ") and open(ck.replay).read().split()[1] in COMP_KINDS:
        # replay of a composed history (build/replay/C09/comp_*.txt)
        ck.cov["evaluations"] = comp_stream(ck, 1); ck.finish()
    if ck.replay and open(ck.replay).read().split()[:1] and open(ck.replay).read().split()[0] in ("G", "X", "Y"):
        ck.cov["evaluations"] = more_stream(ck, 1); ck.finish()
    model = extract_model(PID, "C09Extract.v", "c09_driver.ml")
    exe, err = cxx_build("c09_cache", [os.path.join(ROOT, "harness", "c09_cache.cpp")])
    if exe is None:
        ck.oblige("harness builds against /repo", False, err); ck.finish()
    tmpd = os.path.join(BUILD, "tmp", PID); os.makedirs(tmpd, exist_ok=True)
    big = ck.tier == "thorough"
    cases = load_cases(ck, lambda: gen_case(ck.rng, big), 400 if not big else 6000)
    flat = filter_valid(model, [l for c in cases for l in c], os.path.join(tmpd, "all_raw.txt"))
    cases = regroup(flat)
    def search(dcases):
        # more histories with the size/capacity of the disagreeing cases
        out = []
        for c in dcases:
            hd = c[0]
            for _ in range(300):
                g = gen_case(ck.rng, big); out.append([hd] + [o for o in g[1:]])
        fl = filter_valid(model, [l for c in out for l in c], os.path.join(tmpd, "search_raw.txt"))
        return regroup(fl)
    def strip_idx(lines):  # drivers prefix the case number; drop it for comparison
        return [re.sub(r"^\d+ ", "", l) for l in lines]
    r = correspond(ck, cases, model, exe, lambda c, o: [m for _, m in monitor(c, strip_idx(o))], tmpd,
                   compare=lambda a, b: strip_idx(a) == strip_idx(b),
                   what="C09Model.step vs shark::CachedMatrix/LRUCache", search=search,
                   keyfn=lambda msg, case: "cache:" + msg)
    if big and not ck.violations:
        # supporting runtime evidence for "no request reads or writes outside its buffers": same histories under ASan+UBSan
        aexe, aerr = cxx_build("c09_cache", [os.path.join(ROOT, "harness", "c09_cache.cpp")], flags=ASAN_FLAGS, tag="asan")
        if aexe is None:
            ck.oblige("ASan/UBSan build of the cache harness", False, aerr)
        else:
            ao = run_cases(aexe, cases, os.path.join(tmpd, "asan_in.txt"), env={"ASAN_OPTIONS": "detect_leaks=1:abort_on_error=0", "UBSAN_OPTIONS": "print_stacktrace=1"})
            badc = [i for i, (o, rc, e) in enumerate(ao) if rc != 0]
            if badc:
                i = badc[0]; cf = ck.write_replay("asan_case_%d.txt" % i, "\n".join(cases[i]) + "\n")
                ck.violation("cache:sanitizer", {"case_file": cf, "case": cases[i], "sanitizer_output": ao[i][2]}, "AddressSanitizer/UBSan report while replaying a cache history: " + ao[i][2][-400:])
            ck.oblige("ASan+UBSan: %d cache histories without report" % len(cases), not badc)
    ops = {}
    for l in flat: ops[l[0]] = ops.get(l[0], 0) + 1
    evict = 0; full = 0
    for (o, _, _) in r["impl_out"]:
        prev = None
        for l in strip_idx(o):
            d = parse_state(l.split())
            if "lines" in d:
                if prev is not None and l[0] in "RT" and int(d["lines"]) < prev + (1 if l[0] == "R" else 0): evict += 1
                prev = int(d["lines"])
    ck.cov["evaluations"] = len(flat) + (derived_stream(ck, 300 if not big else 3000) if not ck.replay else 0) + (more_stream(ck, 300 if not big else 3000) if not ck.replay else 0) \
        + (comp_stream(ck, 300 if not big else 3000, big) if not ck.replay else 0)
    ck.cov["distinct_nontrivial"] = len(set(" ".join(c) for c in cases if len(c) > 3))
    ck.cov["rule"] = "random histories of CachedMatrix/LRUCache operations (row, const row, flip, setMaxCachedIndex, clear, truncate, mark) on n<=8 (16 in thorough) variables, capacities 1..n^2+3, filtered by the model's precondition check wf_op; non-trivial = at least 3 operations; distinct = distinct operation strings; plus the derived stream (flip histories of 6 classes), the more stream (Gaussian float/double, Difference on unequal batches, PartlyPrecomputed with byte-granular cache sizes incl. the runtime-check case) and the comp stream (histories of row(k,a,e) / const row sub-ranges / flips / setMaxCachedIndex / clear on CachedMatrix<Base> and flips / rows on PrecomputedMatrix<Base>, Base in K R M E B D G, capacities N, 2N, N^2, random, below N; batch size 1..n+3)"
    ck.cov["samples"] = cases[:2]
    ck.cov["traces_validated_against_impl"] = len(cases)
    ck.cov["disagreements_checked"] = r["disagreements"] + r["monitor_failures"]
    ck.notes["op_mix"] = ops; ck.notes["operations_that_evicted_a_line"] = evict
    ck.finish()

if __name__ == "__main__":
    main()
