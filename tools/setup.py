#!/usr/bin/env python3
"""MANIFEST.setup_cmd: build the Coq development (full .vo build, make -k) and report.
Individual file failures do not abort the setup: each property's check re-builds and re-checks its own
Properties_<id>.v (and everything it imports) and reports a broken file as an undischarged obligation."""
import os, sys
sys.path.insert(0, os.path.dirname(os.path.abspath(__file__)))
from vlib import *
bad = coq_hygiene([os.path.join(COQ, "theories", f) for f in os.listdir(os.path.join(COQ, "theories")) if f.endswith(".v")])
if bad:
    print("WARNING forbidden vernacular (the owning check will report it):", bad[:10])
ok, lg = coq_build()
print(lg[-3000:])
print("setup: coq build %s" % ("ok" if ok else "had failures (see above)"))
