#!/usr/bin/env python3
import os, sys
sys.path.insert(0, os.path.dirname(os.path.abspath(__file__)))
from vlib import *
bad = coq_hygiene()
if bad:
    print("forbidden vernacular:", bad); sys.exit(1)
ok, lg = coq_build()
print(lg[-3000:])
if not ok:
    print("coq build failed"); sys.exit(1)
print("setup ok")
