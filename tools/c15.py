#!/usr/bin/env python3
"""C15 — closed-form trainers produce the exact solution of their stated problem.

  proofs   : Properties_C15.v (batch-partition independence of mean/variance/covariance and of the assembled
             regression system; unit-variance / unit-interval normalisers; normal equations <=> zero gradient
             <=> global minimiser; weight-scale invariance; affine equivariance of mean/covariance => whitening
             identity and PCA projection given the contract of the eigen-decomposition; LDA rule).
  model    : C15Model.v over exact rationals, extracted to OCaml.  Statistics / UnitVariance / UnitInterval are
             recomputed by the model and compared EXACTLY on integer data whose means are dyadic (tolerance 1e-12
             only where the C++ divides by a non power of two or takes an irrational root).  For the trainers built
             on an eigen-decomposition or the semi-definite solver the model evaluates the property's predicate
             EXACTLY (doubles are rationals) on the parameters the C++ returned: gradient of the regularised error,
             mean / covariance of the model output on the training data, Gram matrix and eigen-equation residual
             of the PCA directions, LDA solver residual; these must vanish up to 1e-9 relative.
  monitor  : independent Python (Fractions) evaluation of the property on the C++ output for all anchored
             classes, incl. the ones not modelled (FisherLDA, PCA small-sample branch, encoder/decoder, batch
             partitions, weight scaling).  ZCA on rank-deficient data: output covariance = target variance times the
             exact orthogonal projector onto the range of the covariance (C15_zca_rank_deficient_projector_partial).
  extension: PCA::setData / encoder / decoder as coded (C15PcaModel.v) with the eigen-decomposition as ORACLE: the harness records
             the values the real decomposition returned (standard branch: the public eigenvalues()/eigenvectors(); small-sample branch:
             the Gram-type matrix is formed with the statements of setData and handed to the same decomposition), the extracted model
             is run with these values as the oracle's answer and compared with the C++ (eigenvalues exactly, directions / encoder /
             decoder exactly in the standard branch and to 1e-10 where a square root occurs), and the oracle's contract (orthogonal,
             eigen-equation, order) is evaluated on the recorded values against the exact matrix (independent monitor).
             LinearRegression::train / LDA::train as coded INCLUDING the solver (C15SolveModel.v = statistics as coded + the proved C02
             model of solve(.., symm_semi_pos_def)): statistics compared exactly; the whole run exactly over Qc where every square root
             met is rational (streams LX, DWX: X = H T^T, Hadamard design times a dominant triangular matrix, full rank and singular),
             otherwise the same extracted functions over doubles (compared for regular systems with condition <= 1e6).
             NormalizeComponentsZCA::train as coded (C15ZcaModel.v) with the same oracle device (recorded decomposition of the covariance).
             LDA on a singular pooled covariance: besides the least-squares condition the returned rows are compared with the exact
             Moore-Penrose solution C^+ m (keys ...:solve:singular:pseudo-inverse).
  open findings (stable keys, listed in known_findings.json by the lead): FisherLDA::train:criterion,
             LDA::train(weighted):solve:singular.  corpus/C15 holds the failing inputs of these and, as regression
             inputs, of the defects repaired in /repo (unit interval, zero covariance, ZCA rank, PCA d > n, Fisher mean).
A case is a GROUP of lines sharing the data (different batch partitions / scaled weights / translated copy)."""
import os, sys, re, math
from fractions import Fraction as Fr
sys.path.insert(0, os.path.dirname(os.path.abspath(__file__)))
from vlib import *

PID = "C15"
SRC = ["src/Core/Random.cpp", "src/Algorithms/LinearRegression.cpp", "src/Algorithms/PCA.cpp", "src/Algorithms/LDA.cpp",
       "src/Algorithms/FisherLDA.cpp", "src/Algorithms/NormalizeComponentsWhitening.cpp"]
TOL = 1e-9
EPSM = Fr(1, 2 ** 52)          # std::numeric_limits<double>::epsilon()
CUT = Fr(1e-15)                # the double 1.e-15 of PCA::encoder / decoder

# ------------------------------------------------------------------------------------------------ numbers
def fr(t):
    return Fr(t)
def tok(x):
    x = Fr(x); return str(x.numerator) if x.denominator == 1 else "%d/%d" % (x.numerator, x.denominator)
def binq(x):
    x = Fr(x); s = ("-" if x < 0 else "") + format(abs(x.numerator), "b")
    return s if x.denominator == 1 else s + "/" + format(x.denominator, "b")
def unbin(s):
    neg = s.startswith("-"); s = s[1:] if neg else s
    a, _, b = s.partition("/")
    v = Fr(int(a, 2), int(b, 2) if b else 1)
    return -v if neg else v
def hexf(s):
    try: return float.fromhex(s)
    except ValueError: return float("nan")
def rep(r):
    """exactly representable as a double"""
    try: return Fr(float(r)) == r
    except OverflowError: return False
def finite(x): return not (math.isnan(x) or math.isinf(x))
def exact(x, r): return finite(x) and x == float(r)
def close(x, r, tol=TOL, scale=1.0):
    return finite(x) and abs(x - float(r)) <= tol * max(scale, abs(float(r)), 1e-300)

# ------------------------------------------------------------------------------------------------ case lines
def parse_case(line):
    secs = [s.split() for s in line.split("|")]
    c = {"kind": secs[0][0], "args": secs[0][1:], "sizes": [int(x) for x in secs[1]], "line": line}
    k = c["kind"]; a = c["args"]
    if k in ("S", "V", "I", "W", "Z", "P"): c["n"], c["d"] = int(a[-2]), int(a[-1])
    elif k == "L": c["n"], c["d"], c["o"] = int(a[1]), int(a[2]), int(a[3])
    else: c["n"], c["d"], c["K"] = int(a[-3]), int(a[-2]), int(a[-1])
    n, d = c["n"], c["d"]
    X = [fr(t) for t in secs[2]]; c["rows"] = [X[i * d:(i + 1) * d] for i in range(n)]
    if k == "L":
        Y = [fr(t) for t in secs[3]]; c["Y"] = [Y[i * c["o"]:(i + 1) * c["o"]] for i in range(n)]
    if k in ("D", "DW", "F"): c["labels"] = [int(t) for t in secs[3]]
    if k == "DW": c["w"] = [fr(t) for t in secs[4]]
    return c

def parse_out(o):
    if not o.startswith("OK"): return None
    d = {}
    for t in o.split()[1:]:
        k, _, v = t.partition("=")
        if k in ("rows", "erows", "vcols", "on"): d[k] = int(v)
        else: d[k] = [hexf(x) for x in v.split(",")] if v else []
    return d

def model_line(c, o):
    """case line in the model's number format + the parameters the C++ returned"""
    k = c["kind"]; secs = c["line"].split("|")
    a = list(c["args"])
    if k in ("L", "D", "DW"): a[0] = binq(fr(a[0]))
    out = [" ".join([k] + a), " ".join(map(str, c["sizes"])), " ".join(binq(x) for r in c["rows"] for x in r)]
    if k == "L": out.append(" ".join(binq(y) for r in c["Y"] for y in r))
    if k in ("D", "DW"): out.append(" ".join(map(str, c["labels"])))
    if k == "DW": out.append(" ".join(binq(x) for x in c["w"]))
    par = []; d_ = c["d"]
    fl = lambda xs: " ".join(binq(Fr(x)) for x in xs)
    if k == "V":
        ss = []
        for j in range(c["d"]):
            v = fcov(c["rows"])[j][j]; s = fsqrt(v)
            ss.append(s if s is not None else Fr(math.sqrt(float(v))))
        par = [" ".join(binq(s) for s in ss)]
    elif k in ("L", "D", "DW") and (o is None or not allfinite(o)):
        K = c.get("K", 1)
        par = [fl([0.0] * (c["o"] * d_)), fl([0.0] * c["o"])] if k == "L" else [fl([0.0] * (K * d_))]
    elif o is None or not allfinite(o): return None
    elif k == "L": par = [fl(o["mat"]), fl(o["off"])]
    elif k in ("W", "Z"):
        par = [str(o["rows"]), fl(o["mat"]), fl(o["off"])]
        if k == "Z" and "on" in o and all(finite(x) for x in o["oD"] + o["oU"]): par += [str(o["on"]), fl(o["oD"]), fl(o["oU"]), binq(EPSM), binq(fr(c["args"][0]))]
    elif k == "P":
        par = [str(o["vcols"]), fl(o["ev"]), fl(o["evec"])]
        # the small-sample runs of the model are expensive (exact rationals; the bit length is squared by every Gram-Schmidt step, so every
        # completed direction multiplies it by 2^(2i)): first two members of a group and at most one completed direction (= zero
        # eigenvalue), two only for three points; the other inputs are covered by the monitors (orthonormality, eigen-equation)
        ncompl = (c["n"] - frank(fcov(c["rows"]))) if c["d"] > c["n"] >= 2 else 0
        cheap = c["d"] <= c["n"] or (c.get("li", 0) < 2 and (ncompl <= 1 or (ncompl == 2 and c["n"] == 3 and c["d"] <= 4 and c.get("li", 0) == 0)))
        if "on" in o and c["n"] >= 2 and cheap: par += [str(o["on"]), fl(o["oD"]), fl(o["oU"]), binq(EPSM), binq(CUT)]
    elif k in ("D", "DW"): par = [fl(o["mat"])]
    return " | ".join(out) + (" || " + " | ".join(par) if par else "")

# ------------------------------------------------------------------------------------------------ exact statistics (Python, independent of the model)
def fmean(rows):
    n = len(rows); return [sum(r[j] for r in rows) / n for j in range(len(rows[0]))]
def fcov(rows, div=None):
    n = len(rows); d = len(rows[0]); m = fmean(rows); div = n if div is None else div
    return [[sum((r[j] - m[j]) * (r[k] - m[k]) for r in rows) / div for k in range(d)] for j in range(d)]
def isq(n):
    r = math.isqrt(n); return r if r * r == n else None
def fsqrt(v):
    v = Fr(v)
    if v < 0: return None
    a, b = isq(v.numerator), isq(v.denominator)
    return Fr(a, b) if a is not None and b is not None else None
def frank(M):
    M = [list(r) for r in M]; rk = 0; rows = len(M); cols = len(M[0]) if M else 0
    for c in range(cols):
        p = next((i for i in range(rk, rows) if M[i][c] != 0), None)
        if p is None: continue
        M[rk], M[p] = M[p], M[rk]
        for i in range(rk + 1, rows):
            f = M[i][c] / M[rk][c]
            if f: M[i] = [a - f * b for a, b in zip(M[i], M[rk])]
        rk += 1
    return rk
def fsolve(M, B):
    """exact solution of M X = B (M non-singular), B list of columns -> list of columns; None if singular"""
    n = len(M); A = [list(M[i]) + [b[i] for b in B] for i in range(n)]
    for c in range(n):
        p = next((i for i in range(c, n) if A[i][c] != 0), None)
        if p is None: return None
        A[c], A[p] = A[p], A[c]
        A[c] = [x / A[c][c] for x in A[c]]
        for i in range(n):
            if i != c and A[i][c] != 0:
                f = A[i][c]; A[i] = [a - f * b for a, b in zip(A[i], A[c])]
    return [[A[i][n + k] for i in range(n)] for k in range(len(B))]
def cond_inf(M):
    """exact infinity-norm condition number of a non-singular matrix (None if singular)"""
    n = len(M); inv = fsolve(M, [[Fr(int(i == j)) for i in range(n)] for j in range(n)])
    if inv is None: return None
    nrm = lambda R: max(sum(abs(x) for x in r) for r in R)
    return float(nrm(M) * nrm(tr(inv)))
def is_pd(M):
    n = len(M)
    return all(fdet([r[:k] for r in M[:k]]) > 0 for k in range(1, n + 1))
def fdet(M):
    M = [list(r) for r in M]; n = len(M); det = Fr(1)
    for c in range(n):
        p = next((i for i in range(c, n) if M[i][c] != 0), None)
        if p is None: return Fr(0)
        if p != c: M[c], M[p] = M[p], M[c]; det = -det
        det *= M[c][c]
        for i in range(c + 1, n):
            f = M[i][c] / M[c][c]
            if f: M[i] = [a - f * b for a, b in zip(M[i], M[c])]
    return det
def fproj(C):
    """exact orthogonal projector onto the range (column space) of the symmetric matrix C"""
    d = len(C); cols = []
    for j in range(d):
        cand = cols + [[C[i][j] for i in range(d)]]
        if frank(cand) == len(cand): cols = cand
    if not cols: return [[Fr(0)] * d for _ in range(d)]
    G = [[sum(a * b for a, b in zip(u, v)) for v in cols] for u in cols]                 # B^T B
    X = fsolve(G, [[u[i] for u in cols] for i in range(d)])                                # (B^T B)^-1 B^T, column i
    return [[sum(cols[r][a] * X[b][r] for r in range(len(cols))) for b in range(d)] for a in range(d)]
def fpinv_apply(C, m):
    """exact C^+ m for a symmetric positive semi-definite C (the Moore-Penrose solution symm_pos_semi_definite_solver documents),
    and the infinity-norm condition number of C restricted to its range: z = B (B^T C B)^-1 B^T m, B a basis of the range"""
    d = len(C); cols = []
    for j in range(d):
        cand = cols + [[C[i][j] for i in range(d)]]
        if frank(cand) == len(cand): cols = cand
    if not cols: return [Fr(0)] * d, 1.0
    r = len(cols)
    G = [[sum(cols[a][i] * C[i][j] * cols[b][j] for i in range(d) for j in range(d)) for b in range(r)] for a in range(r)]
    y = fsolve(G, [[sum(cols[a][i] * m[i] for i in range(d)) for a in range(r)]])
    if y is None: return None, None
    return [sum(cols[a][i] * y[0][a] for a in range(r)) for i in range(d)], cond_inf(G)
def mat(v, r, c): return [v[i * c:(i + 1) * c] for i in range(r)]
def mm(A, B): return [[sum(a * b for a, b in zip(r, col)) for col in zip(*B)] for r in A]
def tr(A): return [list(r) for r in zip(*A)]
def mv(A, x): return [sum(a * b for a, b in zip(r, x)) for r in A]
def allfinite(o):
    return all(finite(x) for k, v in o.items() if isinstance(v, list) for x in v)

# ------------------------------------------------------------------------------------------------ per-line spec monitor
def mon_line(c, o):
    """property predicate on the C++ output of one line; returns [(key, message)]"""
    k = c["kind"]; rows = c["rows"]; n, d = c["n"], c["d"]; bad = []
    def B(key, msg): bad.append((key, msg))
    shape = "n=%d,d=%d" % (n, d)
    if o is None:
        # documented refusals only
        if k in ("V", "I", "P") and n < 2: return []
        if k in ("W", "Z") and n < d + 1: return []
        if k in ("D", "DW") and any(c["labels"].count(cc) == 0 for cc in range(c["K"])): return []   # "LDA can not handle a class without examples"
        if k == "F":
            # the within-class scatter must be positive definite (solve(Sw, Sb, symm_pos_def)): refusing a singular one is fine
            labs = c["labels"]; K = c["K"]; cnt = [labs.count(cc) for cc in range(K)]
            mc = [[sum(r[j] for r, l in zip(rows, labs) if l == cc) / cnt[cc] for j in range(d)] for cc in range(K)]
            Sw = [[sum((r[j] - mc[l][j]) * (r[i] - mc[l][i]) for r, l in zip(rows, labs)) for i in range(d)] for j in range(d)]
            if not is_pd(Sw): return []
        return [("%s:exception" % k, "unexpected exception on " + shape)]
    m = fmean(rows); C = fcov(rows)
    dy = all(rep(x) for x in m)
    if k == "S":
        for key in ("mean", "mean2", "mean3"):
            for j in range(d):
                if not exact(o[key][j], m[j]): B("Statistics::mean:" + key, "%s[%d] = %r, exact mean %s" % (key, j, o[key][j], m[j]))
        for key in ("var", "var3"):
            for j in range(d):
                ok = exact(o[key][j], C[j][j]) if dy else close(o[key][j], C[j][j], 1e-12)
                if not ok: B("Statistics::meanvar:variance", "%s[%d] = %r, exact (1/n) variance %s" % (key, j, o[key][j], C[j][j]))
        for key in ("cov", "cov3"):
            for j in range(d):
                for l in range(d):
                    x = o[key][j * d + l]
                    ok = exact(x, C[j][l]) if dy else close(x, C[j][l], 1e-12, float(max(C[j][j], C[l][l], 1)))
                    if not ok: B("Statistics::meanvar:covariance", "%s[%d,%d] = %r, exact (1/n) covariance %s" % (key, j, l, x, C[j][l]))
    elif k in ("V", "I"):
        out = mat(o["out"], n, d)
        if not allfinite(o): B(k + ":non-finite", "non-finite parameters/outputs")
        for j in range(d):
            col = [r[j] for r in out]; const = C[j][j] == 0
            xs = [float(r[j]) for r in rows]
            off = o["off"][j] if o["off"] else 0.0
            for x, y in zip(xs, col):
                if not close(y, o["diag"][j] * x + off, 1e-12, abs(o["diag"][j] * x) + abs(off)): B(k + ":model-output", "Normalizer output %r != diag*x+offset" % y)
            if k == "V":
                zm = c["args"][0] == "1"
                if const:
                    if any(y != col[0] for y in col) or (zm and col[0] != 0.0): B("NormalizeComponentsUnitVariance::train:constant-feature", "constant feature %s mapped to %r" % (rows[0][j], col[:3]))
                    continue
                mu = sum(col) / n; var = sum((y - mu) ** 2 for y in col) / n
                if not close(var, 1, 1e-9): B("NormalizeComponentsUnitVariance::train:variance", "feature %d: output variance %r != 1 (%s)" % (j, var, shape))
                if zm and abs(mu) > 1e-9 * (1 + abs(float(m[j]) * o["diag"][j])): B("NormalizeComponentsUnitVariance::train:mean", "feature %d: output mean %r != 0 (%s)" % (j, mu, shape))
                if not zm and o["off"]: B("NormalizeComponentsUnitVariance::train:offset-without-zeroMean", "offset present although zeroMean = false")
            else:
                # the model output is one multiply-add in doubles: rounding error relative to |diag x| + |offset| (matters for data far from the origin)
                t12 = 1e-12 * max(1.0, abs(o["diag"][j]) * max(abs(x) for x in xs) + abs(off))
                if any(y < -t12 or y > 1 + t12 for y in col):
                    B("NormalizeComponentsUnitInterval::train:%s" % ("constant-feature" if const else "range"),
                      "feature %d (%s): outputs %s leave the unit interval (%s)" % (j, "constant %s" % rows[0][j] if const else "non-constant", [y for y in col if y < -t12 or y > 1 + t12][:3], shape))
                elif not const and (abs(min(col)) > t12 or abs(max(col) - 1) > t12):
                    B("NormalizeComponentsUnitInterval::train:range", "feature %d: output range [%r,%r] is not [0,1] (%s)" % (j, min(col), max(col), shape))
    elif k == "L":
        lam = fr(c["args"][0]); od = c["o"]; Wm = mat(o["mat"], od, d)
        if not allfinite(o): B("LinearRegression::train:non-finite", "non-finite weights (%s)" % shape); return bad
        for cc in range(od):
            beta = [Fr(x) for x in Wm[cc]] + [Fr(o["off"][cc])]
            ext = [r + [Fr(1)] for r in rows]
            pred = [sum(a * b for a, b in zip(e, beta)) for e in ext]
            for j in range(d + 1):
                g = 2 * sum((p - y[cc]) * e[j] for p, y, e in zip(pred, c["Y"], ext)) + (2 * lam * beta[j] if j < d else 0)
                sc = 2 * sum((abs(p) + abs(y[cc])) * abs(e[j]) for p, y, e in zip(pred, c["Y"], ext)) + (2 * lam * abs(beta[j]) if j < d else 0)
                if abs(g) > TOL * max(sc, 1):
                    B("LinearRegression::train:gradient:%s" % ("d>=n" if d >= n else "rank-deficient" if frank(fcov(rows)) < d else "regular"),
                      "output %d: d/d%s of the regularised squared error = %.3e (scale %.3e) at the returned weights (%s, lambda=%s)" % (cc, "w%d" % j if j < d else "b", float(g), float(sc), shape, lam))
    elif k in ("W", "Z"):
        tv = fr(c["args"][0]); rk = frank(C)
        name = "NormalizeComponentsWhitening" if k == "W" else "NormalizeComponentsZCA"
        if not allfinite(o):
            B("%s::train:%s:non-finite" % (name, "zero-covariance" if rk == 0 else "rank-deficient" if rk < d else "full-rank"), "non-finite model (covariance rank %d of %d, %s)" % (rk, d, shape)); return bad
        if k == "Z" and "on" in o and all(finite(x) for x in o["oD"] + o["oU"]):
            on = o["on"]; oU = mat(o["oU"], on, on); oD = o["oD"]; Cf_ = [[float(x) for x in row] for row in C]; scD = max([abs(x) for x in oD] + [1e-300])
            for i in range(on):
                for l in range(on):
                    g1 = sum(oU[a][i] * oU[a][l] for a in range(on)); g2 = sum(oU[i][a] * oU[l][a] for a in range(on))
                    if abs(g1 - (i == l)) > 1e-9 or abs(g2 - (i == l)) > 1e-9: B(name + "::oracle:contract:orthogonal", "symm_eigenvalue_decomposition: Q is not orthogonal (%d,%d) (%s)" % (i, l, shape))
                Su = mv(Cf_, [oU[a][i] for a in range(on)])
                if any(abs(Su[a] - oD[i] * oU[a][i]) > 1e-9 * scD for a in range(on)): B(name + "::oracle:contract:eigen-equation", "symm_eigenvalue_decomposition: C q_%d != D_%d q_%d (%s)" % (i, i, i, shape))
            if any(oD[i] < oD[i + 1] for i in range(on - 1)): B(name + "::oracle:contract:order", "symm_eigenvalue_decomposition: eigenvalues not sorted: %s" % oD)
        r = o["rows"]
        if k == "W" and r != rk: B(name + "::train:rank", "model has %d rows, covariance rank is %d (%s)" % (r, rk, shape))
        # ZCA (d rows): identity on the range of the covariance, 0 on its null space, i.e. tv * orthogonal projector
        # onto range(C) (= tv * I for full rank); Whitening (rank rows): tv * I
        want = [[float(tv * x) for x in row] for row in fproj(C)] if k == "Z" else [[float(tv) if a == b else 0.0 for b in range(r)] for a in range(r)]
        if k == "Z" and r != d: B(name + "::train:shape", "model has %d rows, expected %d" % (r, d)); return bad
        out = mat(o["out"], n, r); Wm = mat(o["mat"], r, d)
        sc = max(1.0, float(tv))
        if k == "Z" and rk < d:
            # zero on the null space of the covariance: W (I - P) = 0 (not visible in the outputs on the training data)
            Pf = [[float(x) for x in row] for row in fproj(C)]; wmax = max(abs(x) for x in o["mat"]) or 1.0
            WP = mm(Wm, Pf)
            if any(abs(WP[a][b] - Wm[a][b]) > 1e-7 * wmax for a in range(r) for b in range(d)):
                B(name + "::train:rank-deficient:null-space", "the model does not vanish on the null space of the covariance: max |W - W P| = %r (%s, covariance rank %d)" % (
                    max(abs(WP[a][b] - Wm[a][b]) for a in range(r) for b in range(d)), shape, rk))
        for a in range(r):
            ca = [x[a] for x in out]; mu = sum(ca) / n
            msc = sum(abs(w * float(x)) for w, x in zip(Wm[a], m)) + 1
            if abs(mu) > 1e-8 * msc: B(name + "::train:mean", "output component %d has mean %r (%s)" % (a, mu, shape))
            if not close(o["off"][a], -sum(w * float(x) for w, x in zip(Wm[a], m)), 1e-9, msc): B(name + "::train:offset", "offset %d != -W mean" % a)
            for b in range(a, r):
                cb = [x[b] for x in out]; mub = sum(cb) / n
                cv = sum((x - mu) * (y - mub) for x, y in zip(ca, cb)) / n
                if abs(cv - want[a][b]) > 1e-7 * sc:
                    B(name + "::train:%scovariance" % ("rank-deficient:" if rk < d else ""), "output covariance (%d,%d) = %r, expected %r = target variance %s times %s (%s, covariance rank %d)" % (
                        a, b, cv, want[a][b], tv, "the orthogonal projector onto the range of the covariance" if k == "Z" else "the identity", shape, rk))
    elif k == "P":
        wh = c["args"][0] == "1"; mreq = int(c["args"][1]); meff = mreq if mreq else min(n, d)
        vc = o["vcols"]; V = mat(o["evec"], d, vc); ev = o["ev"]; Cf = [[float(x) for x in r] for r in C]
        small = d > n
        for j in range(d):
            if not exact(o["mean"][j], m[j]): B("PCA::setData:mean", "mean[%d] = %r, exact %s" % (j, o["mean"][j], m[j]))
        if vc != (n if small else d) or len(ev) != vc: B("PCA::setData:shape", "%d eigenvectors, %d eigenvalues" % (vc, len(ev)))
        ev0 = max(abs(ev[0]), 1e-300) if ev and finite(ev[0]) else 1.0
        trc = sum(Cf[j][j] for j in range(d)); br = ("small-sample" if small else "standard") + (":zero-covariance" if frank(C) == 0 else "")
        if not all(finite(x) for x in ev): B("PCA::setData:%s:eigenvalues" % br, "non-finite eigenvalues"); return bad
        if any(ev[i] < ev[i + 1] - 1e-12 * ev0 for i in range(vc - 1)): B("PCA::setData:%s:order" % br, "eigenvalues not non-increasing: %s" % ev)
        if any(x < -1e-10 * max(ev0, trc) for x in ev): B("PCA::setData:%s:negative" % br, "negative variance %s" % min(ev))
        if abs(sum(ev) - trc) > 1e-9 * max(trc, 1e-300) and not (small and False): B("PCA::setData:%s:trace" % br, "sum of variances %r != trace of the covariance %r (%s)" % (sum(ev), trc, shape))
        used = range(min(meff, vc))
        for i in used:
            vi = [V[j][i] for j in range(d)]
            if not all(finite(x) for x in vi):
                B("PCA::setData:%s:direction-of-zero-eigenvalue" % br if ev[i] <= 1e-9 * ev0 else "PCA::setData:%s:direction" % br,
                  "direction %d (variance %r) used by the %d-component encoder is not finite (%s)" % (i, ev[i], meff, shape)); continue
            for l in used:
                if l < i: continue
                vl = [V[j][l] for j in range(d)]
                if not all(finite(x) for x in vl): continue
                g = sum(a * b for a, b in zip(vi, vl))
                if abs(g - (1.0 if i == l else 0.0)) > 1e-9:
                    zero = ev[i] <= 1e-9 * ev0 or ev[l] <= 1e-9 * ev0
                    B("PCA::setData:%s:%s" % (br, "direction-of-zero-eigenvalue" if zero else "orthonormal"),
                      "directions %d,%d (variances %r, %r) used by the %d-component encoder: inner product %r (%s)" % (i, l, ev[i], ev[l], meff, g, shape))
            Cv = mv(Cf, vi)
            if any(abs(a - ev[i] * b) > 1e-9 * max(ev0, 1e-300) for a, b in zip(Cv, vi)):
                zero = ev[i] <= 1e-9 * ev0
                B("PCA::setData:%s:%s" % (br, "direction-of-zero-eigenvalue" if zero else "eigen-equation"), "C v != variance * v for direction %d (variance %r, %s)" % (i, ev[i], shape))
        # contract of the eigen-decomposition ORACLE on the values it returned (hypothesis of C15_pca_setdata_*): exact matrix of the
        # branch taken (covariance resp. X0 X0^T / n), orthogonality (both products), eigen-equation, order
        if "on" in o and all(finite(x) for x in o["oD"] + o["oU"]):
            on = o["on"]; oU = mat(o["oU"], on, on); oD = o["oD"]
            X0 = [[x - mm_ for x, mm_ in zip(r, m)] for r in rows]
            Sx = [[float(sum(a * b for a, b in zip(X0[p], X0[q])) / n) for q in range(n)] for p in range(n)] if small else Cf
            sc = max([abs(x) for x in oD] + [1e-300])
            if on != (n if small else d): B("PCA::oracle:shape", "oracle matrix is %d x %d" % (on, on))
            else:
                for i in range(on):
                    for l in range(on):
                        g1 = sum(oU[a][i] * oU[a][l] for a in range(on)); g2 = sum(oU[i][a] * oU[l][a] for a in range(on))
                        if abs(g1 - (i == l)) > 1e-9 or abs(g2 - (i == l)) > 1e-9:
                            B("PCA::oracle:contract:orthogonal", "symm_eigenvalue_decomposition: Q is not orthogonal (%d,%d): %r / %r (%s)" % (i, l, g1, g2, shape))
                    Su = mv(Sx, [oU[a][i] for a in range(on)])
                    if any(abs(Su[a] - oD[i] * oU[a][i]) > 1e-9 * sc for a in range(on)):
                        B("PCA::oracle:contract:eigen-equation", "symm_eigenvalue_decomposition: S q_%d != D_%d q_%d (%s)" % (i, i, i, shape))
                if any(oD[i] < oD[i + 1] for i in range(on - 1)): B("PCA::oracle:contract:order", "symm_eigenvalue_decomposition: eigenvalues not sorted: %s" % oD)
        if bad: return bad
        er = o["erows"]
        if not all(finite(x) for key in ("encA", "encb", "decA", "decb", "trA", "trb") for x in o[key]):
            B("PCA::encoder:%s:non-finite" % ("zero-covariance" if frank(C) == 0 else "whitening" if wh else "plain"), "non-finite encoder/decoder (%s, m=%d, whitening=%s, variances %s)" % (shape, meff, wh, ev)); return bad
        if er != meff: B("PCA::encoder:shape", "encoder has %d rows, requested %d" % (er, meff)); return bad
        E = mat(o["encA"], er, d); D = mat(o["decA"], d, er)
        if o["trA"] != o["encA"] or o["trb"] != o["encb"]: B("PCA::train", "train() differs from encoder()")
        if [float.hex(x) for x in o["decb"]] != [float.hex(x) for x in o["mean"]]: B("PCA::decoder:offset", "decoder offset is not the mean")
        for a in range(er):
            sc = sum(abs(w * float(x)) for w, x in zip(E[a], m)) + 1
            if not close(o["encb"][a], -sum(w * float(x) for w, x in zip(E[a], m)), 1e-9, sc): B("PCA::encoder:offset", "encoder offset %d != -A mean" % a)
        act = [a for a in range(er) if ev[a] > 1e-9 * ev0]
        if not wh:
            for a in range(er):
                for j in range(d):
                    if E[a][j] != V[j][a] or D[j][a] != V[j][a]: B("PCA::encoder:matrix", "encoder/decoder matrix is not the transposed/plain eigenvector block")
        # encoder after decoder = identity on the codes; decoder after encoder = symmetric idempotent (orthogonal projection)
        ED = mm(E, D)
        for a in act:
            for b in act:
                if abs(ED[a][b] - (1.0 if a == b else 0.0)) > 1e-9: B("PCA::encoder-decoder:%s" % ("whitening" if wh else "plain"), "encoder o decoder (%d,%d) = %r (%s)" % (a, b, ED[a][b], shape))
        P = mm(D, E); PP = mm(P, P)
        for i in range(d):
            for j in range(d):
                if abs(P[i][j] - P[j][i]) > 1e-9 or abs(PP[i][j] - P[i][j]) > 1e-9:
                    B("PCA::encoder-decoder:%s:projection" % ("whitening" if wh else "plain"), "decoder o encoder is not an orthogonal projection (%s, m=%d)" % (shape, meff)); break
            else: continue
            break
        if wh:
            Z = [[sum(E[a][j] * float(r[j]) for j in range(d)) + o["encb"][a] for a in range(er)] for r in rows]
            for a in act:
                for b in act:
                    cv = sum(z[a] * z[b] for z in Z) / n
                    if abs(cv - (1.0 if a == b else 0.0)) > 1e-7: B("PCA::encoder:whitening", "covariance of the whitened codes (%d,%d) = %r (%s)" % (a, b, cv, shape))
    elif k in ("D", "DW"):
        K = c["K"]; lam = fr(c["args"][0]); w = c.get("w", [Fr(1)] * n); labs = c["labels"]
        W = sum(w); Wc = [sum(wi for wi, l in zip(w, labs) if l == cc) for cc in range(K)]
        name = "LDA::train(weighted)" if k == "DW" else "LDA::train"
        if any(x == 0 for x in Wc): B(name + ":empty-class", "a class without examples is accepted (documented: exception)"); return bad
        if k == "D" and n == K: return []            # no pooled covariance estimate exists (0/0): outside the domain
        mc = [[sum(wi * r[j] for wi, r, l in zip(w, rows, labs) if l == cc) / Wc[cc] for j in range(d)] for cc in range(K)]
        div = W if k == "DW" else n - K
        Cp = [[(sum(wi * r[j] * r[l] for wi, r in zip(w, rows)) - sum(Wc[cc] * mc[cc][j] * mc[cc][l] for cc in range(K))) / div
               + ((lam if (k == "DW" or lam > 0) else 0) if j == l else 0) for l in range(d)] for j in range(d)]
        c["_lda"] = (mc, Cp, [x / W for x in Wc])
        pd = is_pd(Cp)
        if not allfinite(o): B(name + ":%s:non-finite" % ("zero-covariance" if frank(Cp) == 0 else "positive-definite" if pd else "singular"), "non-finite model (%s, K=%d, lambda=%s)" % (shape, K, lam)); return bad
        Z = mat(o["mat"], K, d)
        Cf = [[float(x) for x in r] for r in Cp]
        for cc in range(K):
            z = Z[cc]; res = [sum(z[j] * Cf[j][l] for j in range(d)) - float(mc[cc][l]) for l in range(d)]
            sc = [sum(abs(z[j] * Cf[j][l]) for j in range(d)) + abs(float(mc[cc][l])) for l in range(d)]
            if pd:
                if any(abs(r) > 1e-8 * max(max(sc), 1e-300) for r in res):
                    B(name + ":solve:positive-definite", "class %d: z C - m = %s (z = C^-1 m expected; %s, K=%d, lambda=%s)" % (cc, res, shape, K, lam))
            else:
                ne = [sum(res[l] * Cf[l][j] for l in range(d)) for j in range(d)]
                s2 = max(max(sc), 1e-300) * max(max(abs(x) for r in Cf for x in r), 1e-300)
                if any(abs(x) > 1e-7 * s2 for x in ne): B(name + ":solve:singular", "class %d: least-squares condition (z C - m) C = %s (%s)" % (cc, ne, shape))
                else:
                    # the solver documents the Moore-Penrose solution z = C^+ m (for C = 0: z = 0); the least-squares condition alone is
                    # blind when C is exactly 0 or z has a huge component in the null space (rounding noise taken for a pivot)
                    zp, kap = fpinv_apply(Cp, mc[cc])
                    if zp is not None and kap is not None and kap <= 1e6:
                        scz = max([abs(float(x)) for x in zp] + [1.0])
                        if any(abs(z[j] - float(zp[j])) > 1e-7 * kap * scz for j in range(d)):
                            B(name + ":solve:singular:pseudo-inverse", "class %d: z = %s, the Moore-Penrose solution C^+ m of the singular system is %s (rank %d of %d, %s, K=%d, lambda=%s)" % (
                                cc, z, [float(x) for x in zp], frank(Cp), d, shape, K, lam))
            want = -0.5 * sum(float(a) * b for a, b in zip(mc[cc], z)) + math.log(float(Wc[cc] / W))
            if not close(o["bias"][cc], want, 1e-9, sum(abs(float(a) * b) for a, b in zip(mc[cc], z)) + 1):
                B(name + ":bias", "class %d: bias %r, expected -m.z/2 + log prior = %r" % (cc, o["bias"][cc], want))
    elif k == "F":
        K = c["K"]; labs = c["labels"]; wh = c["args"][0] == "1"
        if not allfinite(o): B("FisherLDA::train:non-finite", "non-finite model (%s)" % shape); return bad
        cnt = [labs.count(cc) for cc in range(K)]
        mc = [[sum(r[j] for r, l in zip(rows, labs) if l == cc) / cnt[cc] for j in range(d)] for cc in range(K)]
        Sw = [[sum((r[j] - mc[l][j]) * (r[i] - mc[l][i]) for r, l in zip(rows, labs)) for i in range(d)] for j in range(d)]
        Sb = [[sum(cnt[cc] * (mc[cc][j] - m[j]) * (mc[cc][i] - m[i]) for cc in range(K)) for i in range(d)] for j in range(d)]
        A = mat(o["mat"], o["rows"], d)
        J = lambda u: (sum(u[i] * float(Sb[i][j]) * u[j] for i in range(d) for j in range(d)) /
                       max(sum(u[i] * float(Sw[i][j]) * u[j] for i in range(d) for j in range(d)), 1e-300))
        inv = fsolve(Sw, [[Fr(int(i == j)) for i in range(d)] for j in range(d)])
        if inv is None: return []
        M = [[float(x) for x in r] for r in mm(tr(inv), Sb)]     # Sw^-1 Sb
        u = [1.0 + 0.37 * i for i in range(d)]
        for _ in range(500):
            u = mv(M, u); nu = math.sqrt(sum(x * x for x in u)) or 1.0; u = [x / nu for x in u]
        jbest = J(u); j0 = J(A[0])
        if j0 < jbest * (1 - 1e-6) - 1e-12:
            B("FisherLDA::train:criterion", "first direction reaches the Fisher criterion J = %r, the maximiser of (u'Sb u)/(u'Sw u) reaches %r (%s, K=%d)" % (j0, jbest, shape, K))
        for a in range(o["rows"]):
            want = -sum(A[a][j] * float(m[j]) for j in range(d)); sc = sum(abs(A[a][j] * float(m[j])) for j in range(d)) + 1
            if not close(o["off"][a], want, 1e-9, sc):
                B("FisherLDA::train:offset", "offset %d = %r, -A mean = %r: the model output on the training data is not centred (%s)" % (a, o["off"][a], want, shape)); break
    return bad

# ------------------------------------------------------------------------------------------------ group monitor (batch partitions, weight scaling, translation)
def same_vals(a, b, tol, exactly):
    if len(a) != len(b): return False
    if exactly: return all((x == y) or (math.isnan(x) and math.isnan(y)) for x, y in zip(a, b))
    sc = max([abs(x) for x in a if finite(x)] + [1e-300])
    return all((math.isnan(x) and math.isnan(y)) or abs(x - y) <= tol * max(sc, 1.0) for x, y in zip(a, b))

def mon_group(cs, os_):
    bad = []
    for i, (c, o) in enumerate(zip(cs, os_)):
        for key, msg in mon_line(c, o): bad.append((i, key, msg))
    # the comparisons between the members are skipped for members that already fail on their own, except for the
    # FisherLDA criterion finding (the directions are still a deterministic function of the scatter matrices)
    soft = lambda i: all(key.startswith("FisherLDA::train:criterion") for j, key, _ in bad if j == i)
    if not soft(0): return bad
    base = cs[0]; ob = os_[0]
    for i in range(1, len(cs)):
        c, o = cs[i], os_[i]
        if not soft(i): continue
        if (o is None) != (ob is None): bad.append((i, "%s:batch-partition:exception" % c["kind"], "exception depends on the batch partition")); continue
        if o is None: continue
        rel = c.get("rel", "batch")
        k = c["kind"]
        dy = all(rep(x) for x in fmean(c["rows"])) and all(rep(x) for x in fmean(base["rows"]))
        integer = all(x.denominator == 1 for r in c["rows"] for x in r)
        if k in ("D", "DW") and not ("_lda" in c and is_pd(c["_lda"][1])): continue    # singular pooled covariance without regularisation: rank decisions depend on rounding
        if rel == "batch":
            keys = {"S": ["mean", "var", "cov"], "V": ["diag", "off", "out"], "I": ["diag", "off", "out"], "L": ["mat", "off"],
                    "W": ["out"], "Z": ["mat", "off"], "P": ["ev", "mean"], "D": ["mat", "bias"], "DW": ["mat", "bias"], "F": ["mat", "off"]}[k]
            exactly = (k in ("S", "V", "P", "W", "Z") and dy) or (k in ("I", "L", "D", "F") and integer)
            if k == "W": keys = ["mat", "off", "out"] if exactly else []      # rotation freedom only when the covariance differs by rounding
            for key in keys:
                if not same_vals(ob[key], o[key], 1e-8, exactly):
                    bad.append((i, "%s:batch-partition:%s" % ({"S": "Statistics::meanvar", "V": "NormalizeComponentsUnitVariance", "I": "NormalizeComponentsUnitInterval",
                                "L": "LinearRegression", "W": "NormalizeComponentsWhitening", "Z": "NormalizeComponentsZCA", "P": "PCA", "D": "LDA", "DW": "LDA(weighted)", "F": "FisherLDA"}[k], key),
                                "%s differs between batch partitions %s and %s of the same data%s" % (key, base["sizes"], c["sizes"], " (exactly representable: must be identical)" if exactly else ""))); break
        elif rel.startswith("scale"):
            f = Fr(rel[5:]); exactly = fsqrt(f) is not None and rep(fsqrt(f)) and (f.numerator & (f.numerator - 1)) == 0 and (f.denominator & (f.denominator - 1)) == 0
            for key in ("mat", "bias"):
                if not same_vals(ob[key], o[key], 1e-8, exactly):
                    bad.append((i, "LDA::train(weighted):weight-scale:%s" % key, "%s changes when all weights are multiplied by %s%s" % (key, f, " (power of 4: must be identical)" if exactly else ""))); break
        elif rel == "translate":
            # Fisher directions do not depend on the origin
            # only the first K-1 rows: the K-th eigenvalue of Sw^-1 Sb is 0, its direction arbitrary (FisherLDA.h: at most K-1 dimensions)
            d_ = c["d"]
            for a in range(min(o["rows"], ob["rows"], c["K"] - 1)):
                u, v = ob["mat"][a * d_:(a + 1) * d_], o["mat"][a * d_:(a + 1) * d_]
                if not (same_vals(u, v, 1e-7, False) or same_vals(u, [-x for x in v], 1e-7, False)):
                    bad.append((i, "FisherLDA::train:translation", "direction %d changes when the data is translated: %s vs %s" % (a, u, v))); break
    return bad

# ------------------------------------------------------------------------------------------------ model vs implementation
def compare(c, o, mo):
    """list of messages where the extracted model and the C++ differ (beyond the stated rounding rules)"""
    if mo.startswith("FAIL") or mo.endswith(" -"): return ["model driver: " + mo]
    md = {}
    for t in mo.split():
        k, _, v = t.partition("=")
        md[k] = int(v) if k in ("mrank", "mx") else None if v == "NONE" else [unbin(x) for x in v.split(",")] if v else []
    k = c["kind"]; n, d = c["n"], c["d"]; dis = []
    def D(msg): dis.append(msg)
    if o is None or (k in ("L", "D", "DW") and not allfinite(o)):
        if k == "L" and o is None and md.get("mbeta", 0) is not None: D("as-coded model returns weights, the implementation raised an exception")
        if k in ("D", "DW") and o is None and md.get("mz", 0) is not None and not (k == "D" and n <= c["K"]):
            D("as-coded model returns a rule, the implementation raised an exception")
        return dis
    if k == "S":
        dy = all(rep(x) for x in md["mean"])
        for j in range(d):
            if not exact(o["mean"][j], md["mean"][j]): D("mean[%d]" % j)
        for key in ("var", "cov"):
            for j, r in enumerate(md[key]):
                if not (exact(o[key][j], r) if dy else close(o[key][j], r, 1e-12, float(max(md["var"] + [1])))): D("%s[%d] model %s impl %r" % (key, j, r, o[key][j]))
    elif k == "V":
        zm = c["args"][0] == "1"
        for j in range(d):
            ex = md["law"][j] == 1 and rep(md["mean"][j]) and rep(md["var"][j])
            if md["var"][j] == 0: ex = True
            for key in ("diag",) + (("off",) if zm else ()):
                if not (exact(o[key][j], md[key][j]) if ex else close(o[key][j], md[key][j], 1e-12)): D("%s[%d] model %s impl %r" % (key, j, md[key][j], o[key][j]))
    elif k == "I":
        for j in range(d):
            if not exact(o["diag"][j], md["diag"][j]): D("diag[%d] model %s impl %r" % (j, md["diag"][j], o["diag"][j]))
            ex = rep(md["diag"][j])
            if not (exact(o["off"][j], md["off"][j]) if ex else close(o["off"][j], md["off"][j], 1e-12)): D("off[%d] model %s impl %r" % (j, md["off"][j], o["off"][j]))
            ex = ex and rep(md["off"][j])
            for i in range(n):
                x = o["out"][i * d + j]; r = md["out"][i * d + j]
                # one multiply-add in doubles: the rounding error is relative to |diag x| + |offset|, not to the (possibly cancelled) result
                sc = abs(float(md["diag"][j] * c["rows"][i][j])) + abs(float(md["off"][j]))
                if not (exact(x, r) if ex else close(x, r, 1e-12, sc)): D("out[%d,%d] model %s impl %r" % (i, j, r, x)); break
    elif k == "L":
        lam = fr(c["args"][0]); od = c["o"]
        for cc in range(od):
            beta = o["mat"][cc * d:(cc + 1) * d] + [o["off"][cc]]
            if not all(finite(x) for x in beta): continue
            for j in range(d + 1):
                g = md["grad"][cc * (d + 1) + j]
                sc = 2 * sum((abs(sum(float(a) * b for a, b in zip(r + [1], beta))) + abs(float(y[cc]))) * abs(float((r + [1])[j])) for r, y in zip(c["rows"], c["Y"])) + 1
                if abs(float(g)) > TOL * sc: D("model gradient[%d,%d] = %.3e at the returned weights" % (cc, j, float(g)))
        if "mx" in md:
            # C15SolveModel.lrc_train (assembled system as coded + the C02 model of the semi-definite solver)
            if md["mbeta"] is None: D("as-coded model raises an exception, the implementation returned weights"); return dis
            ext = [r + [Fr(1)] for r in c["rows"]]
            Am = [[sum(e[j] * e[l] for e in ext) + (lam if j == l and j < d else 0) for l in range(d + 1)] for j in range(d + 1)]
            rk = frank(Am); c["_mx"] = md["mx"]
            cnd = cond_inf(Am) if rk == d + 1 else None
            if md["mx"] == 1 and md["mrank"] != rk: D("as-coded model (exact run): rank %d, exact rank of the system %d" % (md["mrank"], rk))
            if md["mx"] == 1 or (cnd is not None and cnd <= 1e6):
                tol = 1e-9 if md["mx"] == 1 else 1e-11 * max(cnd, 100.0)
                for cc in range(od):
                    mb = md["mbeta"][cc * (d + 1):(cc + 1) * (d + 1)]; ib = o["mat"][cc * d:(cc + 1) * d] + [o["off"][cc]]
                    sc = max([abs(float(x)) for x in mb] + [1.0])
                    for j in range(d + 1):
                        if abs(ib[j] - float(mb[j])) > tol * sc:
                            D("as-coded model (%s): beta[%d,%d] model %r impl %r (rank %d of %d)" % ("exact" if md["mx"] else "double", cc, j, float(mb[j]), ib[j], rk, d + 1)); break
    elif k in ("W", "Z"):
        if not allfinite(o): return []
        tv = fr(c["args"][0]); r = o["rows"]
        want = [[float(tv * x) for x in row] for row in fproj(fcov(c["rows"]))] if k == "Z" and r == d else [[float(tv) if a == b else 0.0 for b in range(r)] for a in range(r)]
        for a in range(r):
            if abs(float(md["omean"][a])) > 1e-8 * (abs(o["off"][a]) + 1): D("model: mean of output %d = %.3e" % (a, float(md["omean"][a])))
            if not close(o["off"][a], md["coff"][a], 1e-9, abs(float(md["coff"][a])) + 1): D("offset[%d] model -W mean = %r impl %r" % (a, float(md["coff"][a]), o["off"][a]))
            for b in range(r):
                if abs(float(md["ocov"][a * r + b]) - want[a][b]) > 1e-7 * max(1.0, float(tv)): D("model: covariance of outputs (%d,%d) = %r" % (a, b, float(md["ocov"][a * r + b])))
        if "zW" in md:
            # C15ZcaModel.zca_train with the recorded answer of the eigen-decomposition as oracle
            if md["zW"] is None: D("as-coded ZCA model raises an exception, the implementation returned a model"); return dis
            sc = max([abs(x) for x in o["mat"]] + [1e-300])
            for t, (x, y) in enumerate(zip(o["mat"], md["zW"])):
                if abs(x - float(y)) > 1e-9 * sc: D("as-coded ZCA model: matrix entry %d model %r impl %r" % (t, float(y), x)); break
            so = max([abs(x) for x in o["off"]] + [sc * max([abs(float(v)) for rr in c["rows"] for v in rr] + [1.0])])
            for t, (x, y) in enumerate(zip(o["off"], md["zoff"])):
                if abs(x - float(y)) > 1e-9 * so: D("as-coded ZCA model: offset %d model %r impl %r" % (t, float(y), x)); break
    elif k == "P":
        for j in range(d):
            if not exact(o["mean"][j], md["mean"][j]): D("mean[%d]" % j)
        vc = o["vcols"]; mreq = int(c["args"][1]); meff = min(mreq if mreq else min(n, d), vc)
        ev0 = max(abs(o["ev"][0]), 1e-300) if o["ev"] and finite(o["ev"][0]) else 1.0
        if not allfinite(o): return []
        for i in range(meff):
            for l in range(meff):
                if abs(float(md["gram"][i * vc + l]) - (1.0 if i == l else 0.0)) > 1e-9: D("model: gram(%d,%d) = %r" % (i, l, float(md["gram"][i * vc + l])))
            for j in range(d):
                if abs(float(md["eigres"][i * d + j])) > 1e-9 * ev0: D("model: eigen residual (%d,%d) = %.3e" % (i, j, float(md["eigres"][i * d + j])))
        if "mev" in md:
            # C15PcaModel.pca_setdata / pca_encoder / pca_decoder with the recorded answer of the decomposition as oracle
            on = o["on"]; small = d > n; wh = c["args"][0] == "1"
            if len(md["mev"]) != len(o["ev"]) or len(md["mevec"]) != len(o["evec"]): D("setData model: shapes differ"); return dis
            for i in range(vc):
                if not exact(o["ev"][i], md["mev"][i]): D("setData model: eigenvalue %d model %r impl %r" % (i, float(md["mev"][i]), o["ev"][i]))
            MV = mat(md["mevec"], d, vc); V = mat(o["evec"], d, vc); tied = False
            for i in range(vc):
                if small and md["mev"][i] == 0:
                    # completion of the basis: the start vector is the arg-max of the residuals; a tie decided by rounding is not a difference.
                    # The residuals are recomputed here from the PRINTED vectors, not with the statements of the C++ code, so bitwise equality
                    # of the recomputed values says nothing about the values the code compared (seed 5: exactly tied residuals of a symmetric
                    # data set, the code's own rounding picked the other coordinate): every near-tie is skipped; any completion is a valid
                    # answer and the orthonormality / zero-variance monitors still judge it
                    res = sorted((1.0 - sum(V[j][k] * V[j][k] for k in range(i)) for j in range(d)), reverse=True)
                    if len(res) > 1 and res[0] - res[1] < 1e-9: tied = True
                if tied: c["_pca_tied"] = True; break
                for j in range(d):
                    ok = exact(V[j][i], MV[j][i]) if not small else abs(V[j][i] - float(MV[j][i])) <= 1e-10
                    if not ok: D("setData model: eigenvector entry (%d,%d) model %r impl %r" % (j, i, float(MV[j][i]), V[j][i])); break
            if not tied and not dis:
                er = o["erows"]
                for key, r_, c_ in (("encA", er, d), ("decA", d, er)):
                    if len(md[key]) != len(o[key]): D("%s model: shape" % key); continue
                    sc = max([abs(x) for x in o[key]] + [1.0])
                    for t, (x, y) in enumerate(zip(o[key], md[key])):
                        ok = exact(x, y) if not (wh or small) else abs(x - float(y)) <= 1e-10 * sc
                        if not ok: D("%s model: entry %d model %r impl %r" % (key, t, float(y), x)); break
                if len(md["encb"]) != len(o["encb"]): D("encb model: shape")
                else:
                    sc = max([abs(x) for x in o["encA"]] + [1.0]) * max([abs(float(x)) for x in md["mean"]] + [1.0]) * d
                    for t, (x, y) in enumerate(zip(o["encb"], md["encb"])):
                        if abs(x - float(y)) > 1e-10 * sc: D("encb model: entry %d model %r impl %r" % (t, float(y), x)); break
                for t, (x, y) in enumerate(zip(o["decb"], md["decb"])):
                    if not exact(x, y): D("decb model: entry %d" % t); break
    elif k in ("D", "DW"):
        if "_lda" not in c or not allfinite(o): return []
        mc, Cp, pr = c["_lda"]; K = c["K"]
        if md["prior"] != pr: D("model priors %s python %s" % (md["prior"], pr))
        if md["means"] != [x for r in mc for x in r]: D("model class means differ from the direct evaluation")
        if md["cov"] != [x for r in Cp for x in r]: D("model pooled covariance differs from the direct evaluation")
        if is_pd(Cp):
            for cc in range(K):
                for l in range(d):
                    sc = max(sum(abs(o["mat"][cc * d + j] * float(Cp[j][l2])) for j in range(d)) + abs(float(mc[cc][l2])) for l2 in range(d))
                    if abs(float(md["res"][cc * d + l])) > 1e-8 * max(sc, 1e-300): D("model: residual z C - m (%d,%d) = %.3e" % (cc, l, float(md["res"][cc * d + l])))
        for cc in range(K):
            want = float(md["bpart"][cc]) + math.log(float(pr[cc]))
            if not close(o["bias"][cc], want, 1e-9, abs(float(md["bpart"][cc])) + 1): D("bias[%d] model %r impl %r" % (cc, want, o["bias"][cc]))
        if "zmeans" in md:
            # C15SolveModel.ldac_train / ldaw_train: statistics as coded (exact), then the C02 model of the semi-definite solver
            sq_exact = all(fsqrt(x) is not None and rep(fsqrt(x)) for x in md["wmet"])
            if md["zmeans"] != [x for r in mc for x in r]: D("as-coded class means differ from the direct evaluation")
            if md["mprior"] != pr: D("as-coded priors differ from the direct evaluation")
            flatC = [x for r in Cp for x in r]
            if sq_exact:
                if md["zcov"] != flatC: D("as-coded pooled covariance differs from the direct evaluation")
            elif any(abs(float(a) - float(b)) > 1e-12 * max(abs(float(b)), 1.0) for a, b in zip(md["zcov"], flatC)): D("as-coded pooled covariance differs from the direct evaluation (rounded sqrt of the weights)")
            if md.get("mz", 0) is None: D("as-coded model raises an exception, the implementation returned a rule"); return dis
            rk = frank(Cp); c["_mx"] = md["mx"]
            cnd = cond_inf(Cp) if rk == d else None
            if md["mx"] == 1 and md["mrank"] != rk: D("as-coded model (exact run): rank %d, exact rank of the pooled covariance %d" % (md["mrank"], rk))
            if md["mx"] == 1 or (cnd is not None and cnd <= 1e6):
                tol = 1e-9 if md["mx"] == 1 else 1e-11 * max(cnd, 100.0)
                sc = max([abs(float(x)) for x in md["mz"]] + [1.0])
                for t, (x, y) in enumerate(zip(o["mat"], md["mz"])):
                    if abs(x - float(y)) > tol * sc: D("as-coded model (%s): z[%d] model %r impl %r (rank %d of %d)" % ("exact" if md["mx"] else "double", t, float(y), x, rk, d)); break
                for cc in range(K):
                    want = float(md["mbp"][cc]) + math.log(float(pr[cc])); bs = sum(abs(float(a) * b) for a, b in zip(mc[cc], o["mat"][cc * d:(cc + 1) * d])) + 1
                    if abs(o["bias"][cc] - want) > max(tol * sc * max(abs(float(a)) for a in mc[cc] + [1]) * d, 1e-9 * bs): D("as-coded model: bias[%d] model %r impl %r" % (cc, want, o["bias"][cc])); break
    return dis

# ------------------------------------------------------------------------------------------------ generators
def gen_rows(rng, n, d, style):
    R = [[Fr(rng.randint(-4, 4)) for _ in range(d)] for _ in range(n)]
    if style == "const":
        j = rng.randrange(d); cst = Fr(rng.choice([-3, -2, -1, 1, 2, 3, 5]))
        for r in R: r[j] = cst
    elif style == "dup" and d >= 2:
        j, l = rng.sample(range(d), 2); f = rng.choice([1, 2, -1])
        for r in R: r[l] = f * r[j]
    elif style == "sq":
        for j in range(d):
            cst = rng.randint(-3, 3); a = rng.choice([1, 2, 4, 3, Fr(1, 2)])
            sg = [1] * (n // 2) + [-1] * (n - n // 2); rng.shuffle(sg)
            for r, s in zip(R, sg): r[j] = cst + s * a
    elif style == "lowrank" and d >= 2:
        u = [Fr(rng.randint(-2, 2)) for _ in range(d)]; v = [Fr(rng.randint(-2, 2)) for _ in range(d)]; b = [Fr(rng.randint(-3, 3)) for _ in range(d)]
        R = [[b[j] + s * u[j] + (t * v[j] if d > 2 else 0) for j in range(d)] for s, t in ((rng.randint(-3, 3), rng.randint(-3, 3)) for _ in range(n))]
    elif style == "half":
        R = [[x / 2 for x in r] for r in R]
    elif style == "duprows" and n >= 3:
        for i in range(1, n, 2): R[i] = list(R[i - 1])
    return R

def gen_sizes(rng, n):
    s = []; left = n
    while left > 0:
        k = rng.randint(1, left); s.append(k); left -= k
    rng.shuffle(s); return s

def partitions(rng, n, cnt=2):
    out = [[n]]
    for _ in range(cnt):
        s = gen_sizes(rng, n)
        if s not in out: out.append(s)
    return out

def flat(R): return " ".join(tok(x) for r in R for x in r)
STYLES = ["int", "int", "const", "dup", "sq", "lowrank", "half", "duprows"]
NS = [2, 3, 4, 4, 5, 6, 8, 8, 16]

def gen_group(rng, kind, big=False):
    """list of (line, relation to the first line)"""
    d = rng.choice([1, 2, 2, 3, 3, 4] + ([5, 6] if big else [])); n = rng.choice(NS + ([12, 32] if big else [])); st = rng.choice(STYLES)
    G = []
    if kind in ("S", "V", "I"):
        if kind == "I": st = rng.choice(["int", "int", "const", "dup", "lowrank", "duprows"])
        if rng.random() < 0.06: n = 1
        R = gen_rows(rng, n, d, st)
        hd = {"S": "S %d %d", "V": "V " + rng.choice("01") + " %d %d", "I": "I %d %d"}[kind] % (n, d)
        for s in partitions(rng, n): G.append(("%s | %s | %s" % (hd, " ".join(map(str, s)), flat(R)), "batch"))
    elif kind == "L":
        o = rng.choice([1, 1, 2]); lam = rng.choice(["0", "0", "1/4", "1", "8"])
        if rng.random() < 0.3: d = rng.choice([3, 4, 5]); n = rng.choice([2, 3, 4])       # more features than points
        R = gen_rows(rng, n, d, st); Y = [[Fr(rng.randint(-5, 5)) for _ in range(o)] for _ in range(n)]
        if rng.random() < 0.3:   # exactly realisable targets
            wv = [[rng.randint(-2, 2) for _ in range(d)] for _ in range(o)]; b = [rng.randint(-2, 2) for _ in range(o)]
            Y = [[sum(a * x for a, x in zip(wv[c], r)) + b[c] for c in range(o)] for r in R]
        for s in partitions(rng, n): G.append(("L %s %d %d %d | %s | %s | %s" % (lam, n, d, o, " ".join(map(str, s)), flat(R), flat(Y)), "batch"))
    elif kind in ("W", "Z"):
        tv = rng.choice(["1", "1", "4", "1/4", "2", "9"]); n = max(n, d + 1) if rng.random() < 0.93 else d
        st = rng.choice(["int", "int", "half", "sq"] + (["const", "dup", "lowrank", "duprows"] if kind == "W" else []))
        R = gen_rows(rng, n, d, st)
        for s in partitions(rng, n): G.append(("%s %s %d %d | %s | %s" % (kind, tv, n, d, " ".join(map(str, s)), flat(R)), "batch"))
    elif kind == "ZR":      # ZCA on rank-deficient data
        n = max(n, d + 1); d = max(d, 2); n = max(n, d + 1); R = gen_rows(rng, n, d, rng.choice(["const", "dup"]))
        G.append(("Z 1 %d %d | %d | %s" % (n, d, n, flat(R)), "batch"))
    elif kind == "P":
        wh = rng.choice("01")
        if rng.random() < 0.35: d = rng.choice([3, 4, 5]); n = rng.choice([2, 3, 4]); n = min(n, d - 1) if rng.random() < 0.7 else n
        n = max(n, 2) if rng.random() < 0.95 else 1
        R = gen_rows(rng, n, d, rng.choice(["int", "int", "int", "half", "sq", "const", "dup", "duprows"]))
        top = min(n, d); small = d > n
        m = rng.choice([0] + list(range(1, top + 1))) if not small else rng.choice(list(range(1, max(2, n))))   # small-sample branch: at most n-1 directions carry variance
        if wh == "1": m = max(1, min(m if m else top, frank(fcov(R)) if n >= 2 else 1))   # whitening needs positive variance on the used directions
        for s in partitions(rng, n): G.append(("P %s %d %d %d | %s | %s" % (wh, m, n, d, " ".join(map(str, s)), flat(R)), "batch"))
    elif kind == "PS":      # PCA, more features than points, all min(n,d) components requested
        d = rng.choice([3, 4, 5]); n = rng.choice([2, 3]); R = gen_rows(rng, n, d, "int")
        G.append(("P 0 0 %d %d | %d | %s" % (n, d, n, flat(R)), "batch"))
    elif kind == "PX":      # PCA: the shapes around the branch switch, rank-deficient / constant / duplicated data
        d = rng.choice([2, 3, 4]); n = max(2, rng.choice([d - 1, d, d + 1, d + 1])); wh = "0"
        R = gen_rows(rng, n, d, rng.choice(["int", "const", "dup", "duprows", "lowrank"]))
        m = rng.choice([0, 1, min(n, d)])
        for s in partitions(rng, n, 1): G.append(("P %s %d %d %d | %s | %s" % (wh, m, n, d, " ".join(map(str, s)), flat(R)), "batch"))
    elif kind == "LX":      # LinearRegression, lambda = 0, exactly representable run of the solver (full rank or singular X^T X)
        n = rng.choice([4, 4, 16]); d = rng.choice([1, 2, 3]); r = rng.choice([d, d, max(d - 1, 0)]); o = rng.choice([1, 2])
        R = design(rng, n, d, r)
        if rng.random() < 0.3: j = rng.randrange(d); cst = Fr(rng.choice([1, 2, 4])); R = [[cst if l == j else x for l, x in enumerate(row)] for row in R]   # constant feature = multiple of the bias column
        Y = [[Fr(rng.randint(-4, 4)) for _ in range(o)] for _ in range(n)]
        for s in partitions(rng, n, 1): G.append(("L 0 %d %d %d | %s | %s | %s" % (n, d, o, " ".join(map(str, s)), flat(R), flat(Y)), "batch"))
    elif kind == "DWX":     # weighted LDA, lambda = 0, pooled covariance T T^T exactly (weights: one square per class)
        K = rng.choice([2, 3]); d = rng.choice([1, 2, 3]); r = rng.choice([d, d, max(d - 1, 0)]); R = []; labs = []; w = []
        T = None; st = rng.getstate()
        for cc in range(K):
            rng.setstate(st); blk = design(rng, 4, d, r)       # the same design for every class
            mu = [Fr(rng.randint(-3, 3)) for _ in range(d)] if cc else [Fr(0)] * d
            wc = Fr(rng.choice([1, 4, Fr(1, 4)]))
            for row in blk: R.append([x + m_ for x, m_ in zip(row, mu)]); labs.append(cc); w.append(wc)
        n = len(R)
        for s in partitions(rng, n, 1): G.append(("DW 0 %d %d %d | %s | %s | %s | %s" % (n, d, K, " ".join(map(str, s)), flat(R), " ".join(map(str, labs)), " ".join(tok(x) for x in w)), "batch"))
    elif kind == "DE":      # LDA: a class without examples (exception), singleton classes
        K = 3; d = rng.choice([1, 2]); n = rng.choice([4, 5, 6]); R = gen_rows(rng, n, d, "int")
        if rng.random() < 0.5: labs = [rng.choice([0, 2]) for _ in range(n)]; labs[0] = 2; labs[1] = 0        # class 1 empty
        else: labs = [0, 1] + [2] * (n - 2)                                                               # two singleton classes
        for kd in ("D", "DW"):
            G.append(("%s 1/2 %d %d %d | %d | %s | %s%s" % (kd, n, d, K, n, flat(R), " ".join(map(str, labs)), " | " + " ".join(["1"] * n) if kd == "DW" else ""), "batch"))
            G = G[-1:] if rng.random() < 0.5 else G[:1]
            break
    elif kind == "OFF":     # data far from the origin (|mean| / spread up to 2^22: time stamps, ids, sensor offsets) for every trainer
        # that goes through mean / meanvar: the centred statistics must not lose the spread to cancellation
        base = rng.choice(["S", "S", "V", "V", "I", "W", "Z", "P"])
        H = gen_group(rng, base, big)
        d_ = int(H[0][0].split("|")[0].split()[-1])
        offs = [Fr(rng.choice([1, -1]) * rng.choice([2 ** 16, 2 ** 20, 3 * 2 ** 18, 2 ** 22, 5 * 2 ** 19 + 1, 1000003])) for _ in range(d_)]
        if rng.random() < 0.3: offs[rng.randrange(d_)] = Fr(0)
        # a third of the groups instead: features of very different SCALE (exact powers of two, 2^-34 .. 2^20): a non-constant feature of
        # tiny spread is not a constant feature; the statistics / normalisers are scale-free
        scl = [Fr(1)] * d_
        if base in ("S", "V", "I") and rng.random() < 0.34:
            offs = [Fr(0)] * d_; scl = [Fr(2) ** rng.choice([-34, -30, -28, -20, 0, 10, 20]) for _ in range(d_)]
        for l, rel in H:
            secs = l.split(" | "); vals = [fr(x) for x in secs[2].split()]
            secs[2] = " ".join(tok(x * scl[i % d_] + offs[i % d_]) for i, x in enumerate(vals))
            G.append((" | ".join(secs), rel))
    elif kind in ("D", "DW", "F"):
        K = rng.choice([2, 2, 3]); n = max(n, K + 1)
        if kind == "F": n = max(n, d + K + 2); st = rng.choice(["int", "int", "half"])
        R = gen_rows(rng, n, d, st)
        labs = list(range(K)) + [rng.randrange(K) for _ in range(n - K)]; rng.shuffle(labs)
        if kind == "F":
            wh = rng.choice("01"); m = rng.choice([0, 1, 1, min(2, d)])
            if (m if m else K) > d: m = 1
            base = "F %s %d %d %d %d" % (wh, m, n, d, K)
            for s in partitions(rng, n, 1): G.append(("%s | %s | %s | %s" % (base, " ".join(map(str, s)), flat(R), " ".join(map(str, labs))), "batch"))
            t = [Fr(rng.choice([-8, 8, 16, 64])) for _ in range(d)]
            G.append(("%s | %d | %s | %s" % (base, n, flat([[x + tt for x, tt in zip(r, t)] for r in R]), " ".join(map(str, labs))), "translate"))
        else:
            lam = rng.choice(["0", "0", "1/2", "2"])
            if kind == "D":
                for s in partitions(rng, n): G.append(("D %s %d %d %d | %s | %s | %s" % (lam, n, d, K, " ".join(map(str, s)), flat(R), " ".join(map(str, labs))), "batch"))
            else:
                w = [Fr(rng.choice([1, 1, 2, 3, 4, Fr(1, 4), 9])) for _ in range(n)]
                if rng.random() < 0.4: w = [Fr(rng.choice([1, 4, Fr(1, 4), 16])) for _ in range(n)]
                for s in partitions(rng, n, 1): G.append(("DW %s %d %d %d | %s | %s | %s | %s" % (lam, n, d, K, " ".join(map(str, s)), flat(R), " ".join(map(str, labs)), " ".join(tok(x) for x in w)), "batch"))
                if lam == "0" or True:
                    for f in (4, 3):
                        G.append(("DW %s %d %d %d | %d | %s | %s | %s" % (lam, n, d, K, n, flat(R), " ".join(map(str, labs)), " ".join(tok(x * f) for x in w)), "scale%d" % f))
    return G

# ---- exactly representable runs of the semi-definite solver: X = H T^T with H the zero-sum columns of a Hadamard matrix
# (H^T H = n I) and T lower triangular with diagonal 2^k and column-wise dominance, so that the pivoted Cholesky factorisation
# of X^T X / n = T T^T keeps the order, takes roots of squares of powers of two only and stops at exact zeros for rank r < d
def hadamard(n):
    H = [[1]]
    while len(H) < n: H = [r + r for r in H] + [r + [-x for x in r] for r in H]
    return H
def gen_T(rng, d, r):
    for _ in range(200):
        dg = sorted([rng.choice([4, 2, 1, Fr(1, 2)]) for _ in range(r)], reverse=True)
        T = [[Fr(0)] * d for _ in range(d)]
        for i in range(d):
            for k in range(min(i, r)): T[i][k] = Fr(rng.choice([0, 0, 1, -1, Fr(1, 2), -Fr(1, 2), 2]))
            if i < r: T[i][i] = Fr(dg[i])
        if all(sum(T[i][k] ** 2 for k in range(cc, r)) <= T[cc][cc] ** 2 for cc in range(r) for i in range(cc + 1, d)): return T
    return [[Fr(4 >> i if i < r and i == k else 0) for k in range(d)] for i in range(d)]
def design(rng, n, d, r):
    H = hadamard(n); cols = rng.sample(range(1, n), d); T = gen_T(rng, d, r)
    return [[sum(H[i][cols[k]] * T[j][k] for k in range(d)) for j in range(d)] for i in range(n)]

MIX = [("S", 3), ("V", 3), ("I", 3), ("L", 4), ("W", 3), ("Z", 2), ("P", 4), ("D", 3), ("DW", 3), ("F", 2), ("ZR", 0.15), ("PS", 0.15),
       ("PX", 0.6), ("LX", 0.8), ("DWX", 0.8), ("DE", 0.3), ("OFF", 2.5)]

# replay / corpus files: one line per group member, "#rel <relation>" comment lines give the relation of the next line
def group_text(G): return "".join(("#rel %s\n" % r if r != "batch" else "") + l + "\n" for l, r in G)
def read_groups(path):
    G = []; rel = "batch"; out = []
    for l in open(path).read().split("\n"):
        if l.startswith("#rel "): rel = l[5:].strip(); continue
        if l.startswith("#--"):
            if G: out.append(G); G = []
            continue
        if not l.strip() or l.startswith("#"): continue
        G.append((l, rel)); rel = "batch"
    if G: out.append(G)
    return out

# ------------------------------------------------------------------------------------------------ running
class Runner:
    def __init__(self, ck, exe, model, tmpd):
        self.ck, self.exe, self.model, self.tmpd = ck, exe, model, tmpd
    def impl(self, groups, tag="impl"):
        # tiny matrices: one thread (the OpenMP / OpenBLAS pools only spin on a shared machine); results do not depend on it
        return run_cases(self.exe, [[l for l, _ in G] for G in groups], os.path.join(self.tmpd, tag + "_in.txt"),
                         env={"OMP_NUM_THREADS": "1", "OPENBLAS_NUM_THREADS": "1"})
    def run(self, groups, tag="main", with_model=True):
        """returns per group: (cases, outs, monitor findings, disagreements)"""
        io = self.impl(groups, tag)
        allc = []; mlines = []; midx = []
        for gi, G in enumerate(groups):
            o, rc, err = io[gi]; cs = []; os_ = []
            for li, (l, rel) in enumerate(G):
                c = parse_case(l); c["rel"] = rel; cs.append(c)
                c["li"] = li
                os_.append(parse_out(o[li]) if li < len(o) else None)
            allc.append((cs, os_, rc, err, len(o)))
            if with_model and rc == 0:
                for li, (c, oo) in enumerate(zip(cs, os_)):
                    if c["kind"] == "F": continue
                    ml = model_line(c, oo)
                    if ml is not None: mlines.append(ml); midx.append((gi, li))
        mout = {}
        if mlines:
            rc, ol, err = run_lines(self.model, mlines, os.path.join(self.tmpd, tag + "_model_in.txt"), timeout=1500)
            if rc != 0 or len(ol) != len(mlines): raise RuntimeError("model driver failed: rc=%s %s" % (rc, err[-500:]))
            mout = dict(zip(midx, ol))
        res = []
        for gi, G in enumerate(groups):
            cs, os_, rc, err, got = allc[gi]
            if rc != 0:
                res.append((cs, os_, [(got, "%s:crash" % cs[min(got, len(cs) - 1)]["kind"], "implementation crashed/stopped after %d of %d lines (rc=%s) %s" % (got, len(cs), rc, err.strip()[-200:]))], [])); continue
            mon = mon_group(cs, os_); dis = []
            if not mon:
                for li, (c, oo) in enumerate(zip(cs, os_)):
                    if (gi, li) in mout:
                        for msg in compare(c, oo, mout[(gi, li)]): dis.append((li, msg))
            res.append((cs, os_, mon, dis))
        return res

def keep_points(line, keep):
    """the case line restricted to the data points `keep` (batches shrink; an emptied batch disappears)"""
    c = parse_case(line); secs = [s.strip() for s in line.split("|")]
    n, d = c["n"], c["d"]; keep = sorted(keep)
    if not keep: return None
    sizes = []; acc = 0
    for s in c["sizes"]:
        cnt = sum(1 for i in keep if acc <= i < acc + s); acc += s
        if cnt: sizes.append(cnt)
    hd = secs[0].split(); k = hd[0]
    pos = {"S": -2, "V": -2, "I": -2, "W": -2, "Z": -2, "P": -2, "L": 2, "D": -3, "DW": -3, "F": -3}[k]
    hd[pos] = str(len(keep))
    def cut(sec, w):
        t = sec.split(); return " ".join(x for i in keep for x in t[i * w:(i + 1) * w])
    new = [" ".join(hd), " ".join(map(str, sizes)), cut(secs[2], d)]
    if k == "L": new.append(cut(secs[3], c["o"]))
    if k in ("D", "DW", "F"):
        new.append(cut(secs[3], 1))
        if sorted(set(new[-1].split())) != [str(x) for x in range(c["K"])]: return None     # every class keeps an example
    if k == "DW": new.append(cut(secs[4], 1))
    return " | ".join(new)

def shrink(rn, G, key):
    """ddmin over the data points (removed from every member of the group) while the same finding key persists"""
    def fails(H):
        try: r = rn.run([H], "shrink", with_model=False)[0]
        except Exception: return False
        return any(k == key for _, k, _ in r[2])
    def restrict(idx):
        H = []
        for l, rel in G:
            x = keep_points(l, idx)
            if x is None: return None
            H.append((x, rel))
        return H
    n = parse_case(G[0][0])["n"]
    idx = ddmin(list(range(n)), lambda ix: (lambda H: H is not None and fails(H))(restrict(ix)), max_runs=30)
    cur = restrict(idx) or G
    if not fails(cur): cur = G
    # a finding of a single line does not need the other members
    for l, rel in cur:
        if fails([(l, "batch")]): return [(l, "batch")]
    return cur

def main():
    ck = Check(PID)
    ck.trusted = DEFAULT_TRUSTED + [
        "modelled not verified: remora's symmetric eigen-decomposition (an ORACLE in C15PcaModel.v: its contract - orthogonal Q, eigen-equation, order - is the hypothesis of the PCA theorems and is evaluated on every run on the recorded values, to 1e-9) and sqrt/log (exact on the values met in the theorems)",
        "the semi-definite solver is the C02 model (pstrf / potrf / substitutions, proved in C02 and tied to remora by tools/c02.py); the C15 theorems about the RETURNED LinearRegression / LDA parameters assume semi_exact (exact pivoted factorisation: exact roots, zero Schur complement at the stop), which floating point fulfils only up to rounding (finding LDA::train(weighted):solve:singular is a run where it fails)",
        "the harness re-forms X0 X0^T / n with the statements of PCA::setData to record the eigen-decomposition's answer in the small-sample branch (the decomposition object is a local variable of setData)",
        "Python Fraction arithmetic of the independent monitor"]
    ck.assumptions = ["datasets are non-empty with at least two points for the normalisers and PCA, more points than dimensions for whitening/ZCA, more points than classes and no empty class for LDA (the documented / checked preconditions; violations must raise shark::Exception)",
                      "theorems about whitening, PCA and LDA are conditional on the contract of the eigen-decomposition / semi-definite solver (C02 checks the solver); floating-point rounding is outside the theorems: exact comparison on exactly representable data, 1e-9 relative elsewhere",
                      "weights are positive; regularisation lambda >= 0; target variance > 0"]
    ck.proofs()
    model = extract_model(PID, "C15Extract.v", "c15_driver.ml")
    exe, err = cxx_build("c15_trainers", [os.path.join(ROOT, "harness", "c15_trainers.cpp")] + repo_src(*SRC))
    if exe is None:
        ck.oblige("harness builds against /repo", False, err); ck.finish()
    tmpd = os.path.join(BUILD, "tmp", PID); os.makedirs(tmpd, exist_ok=True)
    rn = Runner(ck, exe, model, tmpd)
    big = ck.tier == "thorough"
    groups = []; ncorpus = 0
    if ck.replay:
        groups = read_groups(ck.replay)
    else:
        cdir = os.path.join(ROOT, "corpus", PID)
        if os.path.isdir(cdir):
            for f in sorted(os.listdir(cdir)): groups += read_groups(os.path.join(cdir, f))
        ncorpus = len(groups)
        per = 30 if not big else 220
        for kind, wgt in MIX:
            for _ in range(max(1, int(per * wgt))): groups.append(gen_group(ck.rng, kind, big))
    res = rn.run(groups)
    nmon = ndis = 0; reported = {}; first_dis = None; unknown_groups = set(); nknown_hits = 0
    # object history: every trainer (and the model it writes into) first trains on an unrelated earlier data set (other size and
    # dimension) and then on the case data; the result must be bit-identical to the one of fresh objects
    io_fresh = rn.impl(groups, "fresh")
    io_reuse = run_cases(exe, [[l for l, _ in G] for G in groups], os.path.join(tmpd, "reuse_in.txt"),
                         env={"OMP_NUM_THREADS": "1", "OPENBLAS_NUM_THREADS": "1"}, args=("reuse",))
    nreuse = 0; reuse_bad = {}
    for gi, G in enumerate(groups):
        (a, rca, _), (b, rcb, eb) = io_fresh[gi], io_reuse[gi]
        for li, (l, _) in enumerate(G):
            nreuse += 1
            x = a[li] if li < len(a) else "<crash>"; y = b[li] if li < len(b) else "<crash rc=%s>" % rcb
            if x != y:
                kind = l.split()[0]; key = "%s:object-reuse" % kind
                if key not in reuse_bad:
                    reuse_bad[key] = True
                    cf = ck.write_replay("reuse_%s.txt" % kind, l + "\n")
                    fx, fy = x.split(), y.split()
                    d = next((u + "  vs  " + v for u, v in zip(fx, fy) if u != v), "")[:300]
                    ck.violation(key, {"case_file": cf, "case": [l], "fresh_objects": x[:2000], "reused_objects": y[:2000],
                                       "replay_cmd": "build/bin/std/c15_trainers reuse " + cf},
                                 "trainer %s: training with a trainer/model object that was trained before on other data gives a different result than fresh objects: %s" % (kind, d))
    ck.oblige("object history does not matter: %d cases trained with reused trainer/model objects equal the fresh results" % nreuse, not reuse_bad, ", ".join(reuse_bad))
    for gi, (cs, os_, mon, dis) in enumerate(res):
        if mon:
            nmon += 1
            seen = []
            for li, key, msg in mon:
                if key in seen: continue
                seen.append(key)
                if ck.match_known(key) is not None:
                    ck.violation(key, {}, msg); nknown_hits += 1; continue
                unknown_groups.add(gi)
                if key in reported or len(reported) >= 24: continue
                reported[key] = True
                small = shrink(rn, groups[gi], key) if not ck.replay and gi >= ncorpus else groups[gi]   # corpus inputs are kept as stored
                r2 = rn.run([small], "report", with_model=False)[0]
                msg2 = next((m for _, k, m in r2[2] if k == key), msg)
                cf = ck.write_replay("case_%d_%d.txt" % (gi, len(seen)), group_text(small))
                ck.violation(key, {"case_file": cf, "case": [l for l, _ in small], "relations": [r for _, r in small],
                                   "implementation_output": rn.impl([small], "rep2")[0][0], "monitor": [m for _, _, m in r2[2]] or [msg],
                                   "replay_cmd": "python3 tools/c15.py --replay " + cf},
                             "spec monitor fails on the implementation: [%s] %s" % (key, msg2))
        elif dis:
            ndis += 1
            if first_dis is None: first_dis = gi
    if ndis and not unknown_groups:
        # correspondence broken, monitor silent: search with more inputs of the disagreeing kinds
        kinds = sorted(set(res[gi][0][0]["kind"] for gi in range(len(res)) if res[gi][3]))
        extra = [gen_group(ck.rng, kd, True) for kd in kinds for _ in range(150)]
        found = False
        for gi2, (cs, os_, mon, dis) in enumerate(rn.run(extra, "search", with_model=False)):
            if mon:
                li, key, msg = mon[0]; small = shrink(rn, extra[gi2], key)
                cf = ck.write_replay("search_%d.txt" % gi2, group_text(small))
                ck.violation(key, {"case_file": cf, "case": [l for l, _ in small], "monitor": msg, "replay_cmd": "python3 tools/c15.py --replay " + cf},
                             "spec monitor fails on the implementation (found by search after the correspondence broke): [%s] %s" % (key, msg))
                found = True; break
        ck.notes["search_cases"] = len(extra)
        if not found:
            cs, os_, mon, dis = res[first_dis]
            cf = ck.write_replay("dis_%d.txt" % first_dis, group_text(groups[first_dis]))
            ck.violation("correspondence", {"case_file": cf, "case": [l for l, _ in groups[first_dis]], "differences": [m for _, m in dis][:10],
                                            "replay_cmd": "python3 tools/c15.py --replay " + cf},
                         "correspondence C15Model vs trainers no longer checks (%d groups differ, e.g. %s); the spec monitor passes on every explored input" % (ndis, dis[0][1]), no_input=True)
    known_only = nmon > 0 and not unknown_groups
    ck.oblige("correspondence C15Model (exact rationals) = closed-form trainers, and spec monitor, on %d groups" % len(groups),
              (nmon == 0 and ndis == 0) or (known_only and ndis == 0),
              ("%d groups hit known findings only (%s)" % (nmon, ", ".join(k["id"] for k in ck.known_hits)) if known_only and not ndis else "") if not (unknown_groups or ndis)
              else "%d groups with monitor findings (%s), %d groups with model/implementation differences" % (len(unknown_groups), ", ".join(sorted(reported)), ndis))
    nx = sum(1 for cs, _, _, _ in res for c in cs if c.get("_mx") == 1); nf = sum(1 for cs, _, _, _ in res for c in cs if c.get("_mx") == 0)
    ck.notes["as_coded_solver_model_runs"] = {"exact_over_Qc": nx, "double_arithmetic": nf}
    ck.notes["pca_model_runs_small_sample"] = sum(1 for cs, os_, _, _ in res for c, o in zip(cs, os_) if c["kind"] == "P" and c["d"] > c["n"] >= 2 and o is not None)
    ck.notes["pca_start_vector_ties_skipped"] = sum(1 for cs, _, _, _ in res for c in cs if c.get("_pca_tied"))
    lines = [l for G in groups for l, _ in G]
    kinds = {}
    for l in lines: kinds[l.split()[0]] = kinds.get(l.split()[0], 0) + 1
    ck.cov["evaluations"] = len(lines)
    ck.cov["distinct_nontrivial"] = len(set(l for l in lines if parse_case(l)["n"] >= 3))
    ck.cov["rule"] = ("groups of trainer calls on generated datasets (n in 1..16 (32 thorough), d in 1..4 (6), integer / half-integer entries; styles: generic, constant feature, "
                      "duplicated feature, low rank, duplicated points, perfect-square variances, d > n) under 2-3 batch partitions each; weighted LDA additionally with all weights times 4 and times 3; "
                      "FisherLDA additionally on a translated copy; extension streams: PCA shapes n = d-1, d, d+1 with rank-deficient / constant / duplicated data, "
                      "LinearRegression and weighted LDA on exactly representable designs X = H T^T (lambda = 0, full rank and singular, constant feature = multiple of the bias column), "
                      "LDA with an empty class (exception) and singleton classes; non-trivial = at least 3 points; distinct = distinct case lines")
    ck.cov["samples"] = [groups[0][0][0], groups[len(groups) // 2][0][0]] if groups else []
    ck.notes["lines_per_trainer"] = kinds
    ck.notes["groups"] = len(groups); ck.notes["groups_with_monitor_findings"] = nmon; ck.notes["groups_model_differs"] = ndis
    ck.cov["traces_validated_against_impl"] = len(lines)
    ck.finish()

if __name__ == "__main__":
    main()
