#!/usr/bin/env python3
"""C07 — trained SVMs are optimal dual solutions.

proofs (Properties_C07.v, on the solver model of C08) + trainer-level runs of the real trainers
(C-SVM with/without bias, class-specific C, weighted examples, epsilon-regression, one-class) over
{shrinking} x {precomputed / cached, float/double cache} x {cold / warm}; the spec monitor checks every
result against an independently computed kernel matrix: box, equality constraint, KKT violation <= eps,
bias inside its interval, reported objective = recomputed, objective agreement across configurations
within the proved bound 2*eps*sum(U-L).  The step-level tie of the model is C08's check.

Extension (C07Setup.v / C07Cert.v, extracted to build/ocaml/C07): on every run the harness also prints the quadratic
program the REAL trainer handed to QpSolver (linear term, box, initial alpha; observed inside QpSolver::solve) and
  (a) the extracted assembly model, run on IEEE doubles, must reproduce it bit for bit (incl. the warm-start clipping,
      the log-encoded regularisation parameters, the 2n-variable eps-SVR problem with its block matrix index map and the
      way the returned coefficient is formed, the one-class box and initial point);
  (b) the extracted, proved `certify` (exact rational arithmetic) is run on the trainer's returned variables with the
      kernel matrix computed independently (exact Gram matrix of the dyadic data for the linear kernel, Python's doubles
      converted exactly for the Gaussian kernel) and must accept with eps + the printed rounding allowance.

Extension "degenerate geometry" (op code D, gen_degenerate / monitor_deg; theorems C07_smo_step_* of Properties_C07.v): every
trainer family on near-duplicate pairs (distance 1e-3..1e-7, same / opposite labels or targets), exact duplicates, collinear
points, tiny and huge feature scales, x {float, double cache} x {precomputed, big cache, 2-row cache} x {shrinking on/off},
kernels linear / polynomial / wide and narrow Gaussian.  Results reported as accurate are judged against the DOUBLE kernel
matrix computed here: box exactly (also the solver's own variables), equality to 1e-12 relative, eps-KKT / bias interval /
objective with the derived allowance for the rounding of the kernel entries (see deg_kernel, deg_allow), agreement across
configurations, and the extracted certify."""
import os, sys, re, math, struct, json
sys.path.insert(0, os.path.dirname(os.path.abspath(__file__)))
from vlib import *

PID = "C07"
EPSM = 2.220446049250313e-16

def fhex(x): return float(x).hex()
def f32(x): return struct.unpack("f", struct.pack("f", x))[0]

CS = ("csvm", "csvmw", "csvmu")

def gen_problem(rng, pid, big):
    tr = rng.choice(["csvm", "csvm", "csvm", "csvmw", "epssvr", "oneclass"])
    unc = False
    n = rng.randint(4, 12) if rng.random() < 0.7 else rng.randint(13, 30 if big else 20)
    d = rng.randint(1, 3)
    kernel = rng.choice(["lin", "rbf", "rbf"]) if tr != "oneclass" else "rbf"
    mode = "int" if (kernel == "rbf" or rng.random() < 0.6) else "dy"
    x = [[float(rng.randint(-3, 3)) if mode == "int" else rng.randint(-8, 8) / 4.0 for _ in range(d)] for _ in range(n)]
    if rng.random() < 0.4:
        for _ in range(rng.randint(1, max(1, n // 4))):
            a, b = rng.randrange(n), rng.randrange(n); x[a] = list(x[b])
    p = {"pid": pid, "trainer": tr, "n": n, "d": d, "kernel": kernel, "gamma": rng.choice([0.125, 0.5, 1.0, 2.0]) if kernel == "rbf" else 0.0, "x": x}
    C = rng.choice([0.125, 1.0, 10.0, 100.0, 1000.0])
    p["Cneg"] = C; p["Cpos"] = C * (rng.choice([1, 1, 0.5, 4]) if tr in ("csvm", "csvmw") else 1)
    # a quarter of the plain csvm problems go through the log-encoded parameter interface; the decision is drawn from a side
    # stream so that the main random stream (and with it the problem population of earlier rounds) stays what it was
    unc = tr == "csvm" and random.Random("csvmu:%s:%r" % (pid, x)).random() < 0.25
    if unc:
        # log-encoded regularisation parameters: the trainer gets log C through setParameterVector and uses exp(log C)
        p["trainer"] = tr = "csvmu"; p["logC"] = (math.log(p["Cneg"]), math.log(p["Cpos"]))
        p["Cneg"] = math.exp(p["logC"][0]); p["Cpos"] = math.exp(p["logC"][1])
    p["eps"] = rng.choice([1e-3, 1e-2, 1e-5])
    p["param"] = 0.0; p["w"] = None
    if tr in CS:
        y = [rng.randint(0, 1) for _ in range(n)]
        if len(set(y)) == 1: y[rng.randrange(n)] ^= 1
        if rng.random() < 0.15: y = [1] + [0] * (n - 1)
        p["y"] = [float(v) for v in y]; p["bias"] = rng.randint(0, 1)
        if tr == "csvmw": p["w"] = [rng.choice([0.25, 0.5, 1.0, 2.0]) for _ in range(n)]
    elif tr == "epssvr":
        p["y"] = [rng.randint(-8, 8) / 4.0 for _ in range(n)]; p["bias"] = 1; p["param"] = rng.choice([0.0625, 0.25, 0.5])
    else:
        p["y"] = [0.0] * n; p["bias"] = 1; p["param"] = rng.choice([0.25, 0.5, 0.75])
    return p

def gen_special(rng, k, big):
    """structures the generic generator does not reach (own random stream):
       'norms'  : machine WITHOUT bias, linear kernel (non-constant diagonal), inputs whose norms differ by factors 2^-3..2^4, enough
                  points for periodic shrinking: the two-variable step then often moves only ONE variable onto / off a bound;
       'vertex' : one-class machine on a small set with a LINEAR kernel and nu*n integer: the optimum is a vertex of the feasible
                  set (no free variable), the bias has to come from the bounded variables."""
    fam = ["norms", "vertex"][k % 2]
    if fam == "norms":
        n = rng.randint(12, 40 if big else 28); d = rng.randint(1, 3)
        x = [[rng.randint(-4, 4) * 2.0 ** rng.randint(-3, 4) for _ in range(d)] for _ in range(n)]
        for q in x:
            if all(v == 0 for v in q): q[0] = 1.0
        tr = rng.choice(["csvm", "csvm", "csvmw"]); C = rng.choice([2.0 ** -6, 0.125, 1.0, 10.0])   # kernel values reach 1e4: larger C needs millions of iterations
        p = {"pid": "s%d" % k, "trainer": tr, "n": n, "d": d, "kernel": "lin", "gamma": 0.0, "x": x, "Cneg": C, "Cpos": C * rng.choice([1, 1, 0.5, 4]),
             "eps": rng.choice([1e-3, 1e-2, 1e-5]), "param": 0.0, "w": None, "bias": 0 if rng.random() < 0.8 else 1}
        y = [rng.randint(0, 1) for _ in range(n)]
        if len(set(y)) == 1: y[0] ^= 1
        p["y"] = [float(v) for v in y]
        if tr == "csvmw": p["w"] = [rng.choice([0.25, 0.5, 1.0, 2.0]) for _ in range(n)]
        return p
    n = rng.choice([2, 4, 4, 6, 8]); d = rng.randint(1, 2); nu = rng.choice([v for v in (0.25, 0.5, 0.75) if (v * n) == int(v * n)])
    x = [[float(rng.randint(1, 6)) for _ in range(d)] for _ in range(n)]
    return {"pid": "s%d" % k, "trainer": "oneclass", "n": n, "d": d, "kernel": "lin", "gamma": 0.0, "x": x, "Cneg": 1.0, "Cpos": 1.0,
            "eps": rng.choice([1e-3, 1e-5]), "param": nu, "w": None, "bias": 1, "y": [0.0] * n}

def configs(p, rng):
    out = []
    for shrink in (0, 1):
        for prec, cs in ((1, 100000), (0, 0x4000000), (0, 2 * p["n"] * (2 if p["trainer"] == "epssvr" else 1))):
            for warm in ((0, 1) if p["trainer"] in CS else (0,)):
                ct = "d" if p["trainer"] not in CS else rng.choice(["d", "d", "f"])
                out.append({"shrink": shrink, "prec": prec, "cachesize": cs, "warm": warm, "ctype": ct})
    # warm = 2: the first training uses 4*C, so the old coefficients leave the new box and the clipping of the warm start
    # matters.  (With an offset the clipped point used to violate sum(alpha) = 0 and the trainer returned an infeasible
    # solution: finding `equality:csvm*:bias1:warm2`, corpus/C07/finding_warmclip.txt, since repaired in /repo by rescaling
    # the heavier side; the assembly model C07Setup.rebalance follows the repair.)
    if p["trainer"] in ("csvm", "csvmw"):
        for shrink in (0, 1):
            out.append({"shrink": shrink, "prec": 1 - shrink, "cachesize": 0x4000000, "warm": 2, "ctype": "d"})
    # warm = 3: restart from the solution of the same problem (same C, same accuracy): nothing is truncated, the start point
    # must be the old solution bit for bit (commit 73617c7d rebalances only after a truncation)
    if p["trainer"] in CS:
        out.append({"shrink": 1, "prec": 1, "cachesize": 100000, "warm": 3, "ctype": "d"})
    # warm = 4: REUSED TRAINER: the trainer object first trains to convergence, then trains again (fresh model object) with
    # maxIterations = a handful; its report (R line) must not depend on the first call: compared with a fresh trainer (RF line)
    out.append({"shrink": 1, "prec": 1, "cachesize": 100000, "warm": 4, "ctype": "d"})
    out.append({"shrink": 0, "prec": 0, "cachesize": 0x4000000, "warm": 4, "ctype": "d"})
    return out

def case_line(p, c, cid):
    if p.get("deg"): return deg_case_line(p, c, cid)
    t = ["T", cid, p["trainer"], str(p["bias"]), str(c["shrink"]), str(c["prec"]), str(c["cachesize"]), c["ctype"], p["kernel"],
         fhex(p["gamma"])] + ([fhex(v) for v in p["logC"]] if p["trainer"] == "csvmu" else [fhex(p["Cneg"]), fhex(p["Cpos"])]) + \
        [fhex(p["eps"]), fhex(p["param"]), str(p["n"]), str(p["d"]), str(c["warm"])]
    t += [fhex(v) for v in p["y"]] + [fhex(v) for q in p["x"] for v in q]
    if p["trainer"] == "csvmw": t += [fhex(v) for v in p["w"]]
    return " ".join(t)

def parse_case_line(l):
    t = l.split(); pf = float.fromhex
    p = {"pid": t[1], "trainer": t[2], "bias": int(t[3]), "kernel": t[8], "gamma": pf(t[9]), "Cneg": pf(t[10]), "Cpos": pf(t[11]),
         "eps": pf(t[12]), "param": pf(t[13]), "n": int(t[14]), "d": int(t[15]), "w": None}
    c = {"shrink": int(t[4]), "prec": int(t[5]), "cachesize": int(t[6]), "ctype": t[7], "warm": int(t[16])}
    n, d = p["n"], p["d"]; q = 17
    p["y"] = [pf(v) for v in t[q:q + n]]; q += n
    p["x"] = [[pf(t[q + i * d + k]) for k in range(d)] for i in range(n)]; q += n * d
    if p["trainer"] == "csvmw": p["w"] = [pf(v) for v in t[q:q + n]]
    if p["trainer"] == "csvmu":
        p["logC"] = (p["Cneg"], p["Cpos"]); p["Cneg"] = math.exp(p["logC"][0]); p["Cpos"] = math.exp(p["logC"][1])
    return p, c

def kernel_matrix(p):
    n = p["n"]; x = p["x"]
    K = [[0.0] * n for _ in range(n)]
    for i in range(n):
        for j in range(n):
            if p["kernel"] == "lin": K[i][j] = math.fsum(a * b for a, b in zip(x[i], x[j]))
            else: K[i][j] = math.exp(-p["gamma"] * math.fsum((a - b) ** 2 for a, b in zip(x[i], x[j])))
    return K

def dual_view(p, coef):
    """the dual variables of the problem the trainer documents, from the returned coefficients:
       list of (value, lo, hi, lin, index of the training point) + equality flag"""
    n = p["n"]; tr = p["trainer"]; V = []
    if tr in CS:
        for i in range(n):
            w = p["w"][i] if p["w"] else 1.0
            if p["y"][i]: V.append((coef[i], 0.0, p["Cpos"] * w, 1.0, i))
            else: V.append((coef[i], -p["Cneg"] * w, 0.0, -1.0, i))
        return V, bool(p["bias"])
    if tr == "epssvr":
        C = p["Cpos"]; e = p["param"]
        for i in range(n): V.append((max(coef[i], 0.0), 0.0, C, p["y"][i] - e, i))
        for i in range(n): V.append((min(coef[i], 0.0), -C, 0.0, p["y"][i] + e, i))
        return V, True
    U = 1.0 / (p["param"] * n)
    for i in range(n): V.append((coef[i], 0.0, U, 0.0, i))
    return V, True

def monitor(p, c, K, res):
    """res = (type, iterations, value, accuracy, nbias, bias, coef) -> list of (key, msg); also returns recomputed objective"""
    typ, it, value, acc, nb, bias, coef = res
    n = p["n"]; bad = []
    if len(coef) != n: return [("shape", "number of coefficients %d != %d" % (len(coef), n))], None
    V, eq = dual_view(p, coef)
    f = [math.fsum(K[i][j] * coef[j] for j in range(n)) for i in range(n)]
    scale = max(1.0, max(sum(abs(K[i][j] * coef[j]) for j in range(n)) for i in range(n)))
    frel = 2.0 ** -22 if c["ctype"] == "f" else 64 * EPSM            # float cache: entries (and warm-start products) are rounded to float
    tol = frel * scale + 256 * EPSM * scale * math.sqrt(it + 1)
    eps = p["eps"]
    g = [lin - f[i] for (v, lo, hi, lin, i) in V]
    for (v, lo, hi, lin, i) in V:
        if not (lo <= v <= hi): bad.append(("box", "coefficient %r of point %d outside [%r,%r]" % (v, i, lo, hi))); break
    asum = sum(abs(v) for v in coef)
    if eq:
        s = math.fsum(coef); want = 1.0 if p["trainer"] == "oneclass" else 0.0
        # every SMO step rounds two coefficients (error <= eps * |alpha| <= eps * box size each): the drift of the sum is bounded
        # LINEARLY in the number of steps; the warm start adds the rounding of the rescaled old coefficients
        amax = max([abs(v) for v in coef] + [abs(lo) for (v, lo, hi, lin, i) in V] + [abs(hi) for (v, lo, hi, lin, i) in V if hi < 1e300] + [1.0])
        steps = it + 4 + (20000 if c["warm"] else 0)     # a warm start inherits the drift of the (unreported) steps of the first training
        if not abs(s - want) <= 64 * EPSM * (asum + 1) + 4 * EPSM * steps * amax: bad.append(("equality", "sum of coefficients %r, equality constraint demands %r" % (s, want)))
    up = [g[k] for k, (v, lo, hi, lin, i) in enumerate(V) if v < hi]
    dn = [g[k] for k, (v, lo, hi, lin, i) in enumerate(V) if v > lo]
    if eq:
        viol = (max(up) - min(dn)) if (up and dn) else -1e100
    else:
        viol = max([0.0] + up + [-x for x in dn])
    if typ == 1 and not viol <= eps + 2 * tol:
        bad.append(("kkt", "accuracy reported as reached but KKT violation %r > eps %r against the independent kernel matrix (tol %.3g)" % (viol, eps, 2 * tol)))
    if eq and typ == 1 and nb == 1 and up and dn and not bad:
        lo_b = max(up) - eps - 2 * tol; hi_b = min(dn) + eps + 2 * tol       # admissible multipliers up to eps
        if not (lo_b <= bias <= hi_b): bad.append(("bias", "bias %r outside the interval [%r,%r] allowed by the optimality conditions" % (bias, lo_b, hi_b)))
    if not eq and p["trainer"] in CS and nb != 0 and bias != 0.0:
        bad.append(("bias", "bias-free training returned offset %r" % bias))
    obj = math.fsum(lin * v for (v, lo, hi, lin, i) in V) - 0.5 * math.fsum(coef[i] * f[i] for i in range(n))
    otol = (frel * 4 + 64 * EPSM * math.sqrt(it + 1)) * max(1.0, scale * asum)
    # the property's premise is "accuracy reached" (typ == 1).  A run stopped on the iteration limit is judged on the objective only
    # in the reused-trainer stage below (where it is waived with a count): QpSolver::solve reports functionValue() of a still shrunk
    # problem on that path (harness/c07_findings.txt), which is outside the claim
    if (typ == 1 or c["warm"] == 4) and not abs(value - obj) <= otol: bad.append(("objective", "reported dual objective %r, recomputed %r (tol %.3g)" % (value, obj, otol)))
    return bad, obj


# ---------------------------------------------------------------------------------------------------------------------
# degenerate-geometry stream (op code D): near-duplicates, duplicates, collinear points, extreme scales; float and double cache

U53 = 2.0 ** -53          # unit roundoff of double (round to nearest)
U24 = 2.0 ** -24          # unit roundoff of float: |float(x) - x| <= 2^-24 |x| for normal results, <= 2^-150 for subnormal ones
DEG_FAMILIES = [("csvm", 1, "one"), ("csvm", 0, "one"), ("csvm", 1, "cls"), ("csvmw", 1, "one"), ("csvmw", 0, "cls"), ("epssvr", 1, "one"), ("oneclass", 1, "one")]
DEG_GEOM = ["near", "near", "near", "dup", "line", "mixed"]
DEG_DELTAS = [1e-3, 1e-4, 1e-5, 3e-6, 1e-6, 1e-7]

def gen_degenerate(rng, k, big):
    tr, bias, cmode = DEG_FAMILIES[k % len(DEG_FAMILIES)]
    geom = DEG_GEOM[(k // len(DEG_FAMILIES)) % len(DEG_GEOM)]
    d = rng.randint(1, 3)
    kern = rng.choice(["lin", "lin", "poly", "rbfw", "rbfn"])
    m = rng.randint(3, 14 if big else 10)                    # base points
    generic = rng.random() < 0.6
    def pt(): return [rng.uniform(-3, 3) if generic else float(rng.randint(-3, 3)) for _ in range(d)]
    def unit():
        while True:
            v = [rng.uniform(-1, 1) for _ in range(d)]; nv = math.sqrt(sum(a * a for a in v))
            if nv > 0.1: return [a / nv for a in v]
    if geom == "line" or (geom == "mixed" and rng.random() < 0.5):
        a0 = pt() if rng.random() < 0.6 else [0.0] * d; v0 = unit()
        base = [[a + rng.randint(-6, 6) / 2.0 * b for a, b in zip(a0, v0)] for _ in range(m)]
    else:
        base = [pt() for _ in range(m)]
    x = []; twin = []                                         # twin[i] = (index of the partner, distance) or None
    for b in base:
        kind = {"near": "n", "dup": "e", "line": rng.choice("nes"), "mixed": rng.choice("nnes")}[geom]
        if geom in ("near", "dup") and rng.random() < 0.15: kind = "s"
        x.append(list(b)); i = len(x) - 1
        if kind == "s": twin.append(None); continue
        delta = rng.choice(DEG_DELTAS) if kind == "n" else 0.0
        u = unit(); x.append([a + delta * c for a, c in zip(b, u)])
        twin.append((i + 1, delta)); twin.append((i, delta))
    scale = rng.choice([1.0, 1.0, 1.0, 2.0 ** -6, 2.0 ** 6, 1e-4, 1e4])
    x = [[a * scale for a in q] for q in x]
    n = len(x)
    p = {"deg": True, "pid": "g%d" % k, "trainer": tr, "n": n, "d": d, "bias": bias, "geom": geom, "scale": scale, "w": None, "param": 0.0,
         "maxit": 200000}
    if kern == "lin": p["kernel"] = "lin"; p["gamma"] = 0.0; p["kp2"] = 0.0
    elif kern == "poly": p["kernel"] = "poly"; p["gamma"] = float(rng.choice([2, 3])); p["kp2"] = rng.choice([0.0, 1.0])
    else:
        g0 = rng.choice([2.0 ** -8, 2.0 ** -5] if kern == "rbfw" else [1.0, 8.0])
        p["kernel"] = "rbf"; p["gamma"] = g0 / (scale * scale if rng.random() < 0.6 else 1.0); p["kp2"] = 0.0
    C = rng.choice([0.125, 1.0, 1.0, 10.0, 100.0, 1000.0])
    p["Cneg"] = C; p["Cpos"] = C * (rng.choice([0.5, 4.0]) if cmode == "cls" else 1.0)
    p["eps"] = rng.choice([1e-2, 1e-3, 1e-3, 1e-5])
    if tr in CS:
        y = [0] * n
        for i in range(n):
            if twin[i] is None or twin[i][0] > i: y[i] = rng.randint(0, 1)
            else: y[i] = y[twin[i][0]] ^ (1 if rng.random() < 0.5 else 0)          # opposite labels on half of the pairs
        if len(set(y)) == 1: y[rng.randrange(n)] ^= 1
        p["y"] = [float(v) for v in y]
        if tr == "csvmw": p["w"] = [rng.choice([0.25, 0.5, 1.0, 2.0]) for _ in range(n)]
    elif tr == "epssvr":
        y = [0.0] * n
        for i in range(n):
            if twin[i] is None or twin[i][0] > i: y[i] = rng.randint(-8, 8) / 4.0
            else: y[i] = y[twin[i][0]] + rng.choice([0.0, 0.0, 1e-3, 0.5, -2.0])     # same / slightly different / contradicting targets
        p["y"] = y; p["param"] = rng.choice([0.0625, 0.25])
    else:
        p["y"] = [0.0] * n; p["param"] = rng.choice([0.25, 0.5, 0.75])
    if rng.random() < 0.5:                                    # pairs need not be neighbours in the data set
        perm = list(range(n)); rng.shuffle(perm)
        p["x"] = [x[i] for i in perm]; p["y"] = [p["y"][i] for i in perm]
        if p["w"]: p["w"] = [p["w"][i] for i in perm]
    else: p["x"] = x
    p["min_pair_distance"] = min([tw[1] * scale for tw in twin if tw is not None] + [float("inf")])
    return p

def deg_configs(p):
    nv = p["n"] * (2 if p["trainer"] == "epssvr" else 1)
    return [{"shrink": sh, "prec": prec, "cachesize": cs, "warm": 0, "ctype": ct}
            for sh in (0, 1) for (prec, cs) in ((1, 100000), (0, 0x4000000), (0, 2 * nv)) for ct in ("f", "d")]

def deg_case_line(p, c, cid):
    t = ["D", cid, p["trainer"], str(p["bias"]), str(c["shrink"]), str(c["prec"]), str(c["cachesize"]), c["ctype"], p["kernel"],
         fhex(p["gamma"]), fhex(p["kp2"]), fhex(p["Cneg"]), fhex(p["Cpos"]), fhex(p["eps"]), fhex(p["param"]), str(p["n"]), str(p["d"]), str(p["maxit"])]
    t += [fhex(v) for v in p["y"]] + [fhex(v) for q in p["x"] for v in q]
    if p["trainer"] == "csvmw": t += [fhex(v) for v in p["w"]]
    return " ".join(t)

def parse_deg_line(l):
    t = l.split(); pf = float.fromhex
    p = {"deg": True, "pid": t[1], "trainer": t[2], "bias": int(t[3]), "kernel": t[8], "gamma": pf(t[9]), "kp2": pf(t[10]), "Cneg": pf(t[11]), "Cpos": pf(t[12]),
         "eps": pf(t[13]), "param": pf(t[14]), "n": int(t[15]), "d": int(t[16]), "maxit": int(t[17]), "w": None}
    c = {"shrink": int(t[4]), "prec": int(t[5]), "cachesize": int(t[6]), "ctype": t[7], "warm": 0}
    n, d = p["n"], p["d"]; q = 18
    p["y"] = [pf(v) for v in t[q:q + n]]; q += n
    p["x"] = [[pf(t[q + i * d + k]) for k in range(d)] for i in range(n)]; q += n * d
    if p["trainer"] == "csvmw": p["w"] = [pf(v) for v in t[q:q + n]]
    return p, c

def deg_kernel(p):
    """(K, E): K the double kernel matrix computed here, independently of the library; E an entrywise bound of
       |value the library computes in double - exact value| + |K_ij - exact value| (standard model of floating point, u = 2^-53):
         linear      inner_prod = d rounded products, d-1 rounded additions: <= d u S, S = sum_k |x_ik x_jk|; here: rounded products, exact sum, one rounding
         polynomial  base b = inner product + offset (one more rounding), pow within 1 ulp: deg |b|^(deg-1) db + 2u|K|
         Gaussian    r2 = sum (a-b)^2: relative (d+2)u, times gamma: (d+3)u, exp within 1 ulp: K (gamma r2 (d+3)u + 2u)
       Third result EP: the same bound for the PRECOMPUTED matrix.  PrecomputedMatrix fills itself through the batch evaluation of the
       kernel; for the Gaussian kernel and >= 10 points that is distanceSqrBlockBlock (LinAlg/Metrics.h), which expands
       r2 = |x|^2 + |y|^2 - 2<x,y> (matrix product): absolute error of r2 <= (d+4) u (|x|^2 + |y|^2 + 2 sum_k |x_k y_k|), no longer relative
       to r2 (it may even come out negative for nearly identical points far from the origin), so
       |K~_ij - K_ij| <= K_ij (exp(gamma dr2) - 1) + 2u K~_ij.  Linear / polynomial batch evaluation: a matrix product, same bound as inner_prod."""
    n = p["n"]; x = p["x"]; d = p["d"]
    K = [[0.0] * n for _ in range(n)]; E = [[0.0] * n for _ in range(n)]; EP = [[0.0] * n for _ in range(n)]
    for i in range(n):
        for j in range(n):
            if p["kernel"] in ("lin", "poly"):
                ip = math.fsum(a * b for a, b in zip(x[i], x[j])); S = math.fsum(abs(a * b) for a, b in zip(x[i], x[j]))
                if p["kernel"] == "lin":
                    K[i][j] = ip; E[i][j] = (2 * d + 2) * U53 * S + 1e-320
                else:
                    deg = int(p["gamma"]); b = ip + p["kp2"]; K[i][j] = b ** deg
                    db = (d + 2) * U53 * (S + abs(p["kp2"]))
                    E[i][j] = 2 * (deg * (abs(b) + db) ** (deg - 1) * db + 2 * U53 * abs(K[i][j])) + 1e-320
            else:
                r2 = math.fsum((a - b) ** 2 for a, b in zip(x[i], x[j])); e = p["gamma"] * r2
                K[i][j] = math.exp(-e); E[i][j] = 2 * K[i][j] * (e * (d + 3) * U53 * 1.001 + 2 * U53) + 1e-320
                S = math.fsum(abs(a * b) for a, b in zip(x[i], x[j])); nx = math.fsum(a * a for a in x[i]); ny = math.fsum(b * b for b in x[j])
                dr2 = (d + 4) * U53 * (nx + ny + 2 * S) * 1.001
                EP[i][j] = E[i][j] + K[i][j] * math.expm1(p["gamma"] * dr2) * (1 + 4 * U53) + 2 * U53 * K[i][j] * math.exp(p["gamma"] * dr2)
            if p["kernel"] != "rbf": EP[i][j] = E[i][j]
    return K, E, EP

def deg_allow(p, c, K, E, it, absv):
    """per-point allowance for the difference between the solver's own gradient and lin - K alpha with the DOUBLE matrix K computed here.
       absv[j] = |alpha_j| (eps-SVR: |alpha+_j| + |alpha-_j|, the solver's own variables).
         gerr_i = sum_j T_ij absv_j,  T_ij = E_ij                                         double cache / precomputed double matrix (E: see deg_kernel)
                                      T_ij = E_ij + 2^-24 (|K_ij| + E_ij) + 2^-150        float cache / precomputed float matrix: every entry the
                                             solver reads is the library's double value rounded to float (KernelMatrix::entry, the diagonal too)
         drift  = 256 u' scale sqrt(iterations+1), u' = 2^-52, scale = max_i sum_j |K_ij| absv_j: rounding of the incrementally updated
                  double gradient (the allowance the other streams of this check use, unchanged)
       The solver accepts when ITS violation is < eps, so against K:  max_up (g_a - gerr_a) - min_down (g_b + gerr_b) <= eps + 2 drift."""
    n = p["n"]; isf = c["ctype"] == "f"
    gerr = [0.0] * n; fpart = 0.0
    # (single evaluations, batch evaluation of the precomputed matrix).  C07_PREC_SINGLE_BOUND=1 judges the precomputed matrix by the bound of
    # the single evaluations as well: the runs it then flags are the observation recorded in harness/c07_findings.txt (precomputed Gaussian
    # matrix of points far from the origin), not a different code path of the check
    if isinstance(E, tuple): E = E[1] if (c["prec"] and not os.environ.get("C07_PREC_SINGLE_BOUND")) else E[0]
    for i in range(n):
        e = 0.0; f = 0.0
        for j in range(n):
            e += E[i][j] * absv[j]
            if isf: f += (U24 * (abs(K[i][j]) + E[i][j]) + 2.0 ** -150) * absv[j]
        gerr[i] = (e + f) * (1 + 1e-12); fpart = max(fpart, f)
    scale = max(1.0, max(sum(abs(K[i][j]) * absv[j] for j in range(n)) for i in range(n)))
    drift = 256 * EPSM * scale * math.sqrt(it + 1)
    return gerr, drift, scale, fpart

def deg_eq_tol(asum, amax, it):
    """equality constraint: NO allowance for the kernel; only the rounding of the two coefficients moved per SMO step
       (<= 2^-52 * max|alpha| each, linear in the number of steps), capped at 1e-12 relative"""
    return min(64 * EPSM * (asum + 1) + 4 * EPSM * (it + 4) * amax, 1e-12 * max(1.0, asum, amax))

def monitor_deg(p, c, K, E, res, solver):
    """the monitors of `monitor`, judged against the double matrix K with the derived allowances; box exact.
       solver = (variables, lo, hi) of the solver's own problem (F and Q lines of the harness) or None.
       returns (list of (key, msg), recomputed objective, total KKT allowance, float part of it)"""
    typ, it, value, acc, nb, bias, coef = res
    n = p["n"]; bad = []
    if len(coef) != n: return [("shape", "number of coefficients %d != %d" % (len(coef), n))], None, 0.0, 0.0
    V, eq = dual_view(p, coef)
    absv = [abs(v) for v in coef]
    if solver is not None:
        sv, slo, shi = solver
        if p["trainer"] == "epssvr" and len(sv) == 2 * n: absv = [abs(sv[i]) + abs(sv[i + n]) for i in range(n)]
        for k in range(len(sv)):
            if not (slo[k] <= sv[k] <= shi[k]):
                bad.append(("box", "solver variable %d = %r outside its box [%r,%r] (no rounding allowance applies to the box)" % (k, sv[k], slo[k], shi[k]))); break
    gerr, drift, scale, fpart = deg_allow(p, c, K, E, it, absv)
    f = [math.fsum(K[i][j] * coef[j] for j in range(n)) for i in range(n)]
    eps = p["eps"]
    g = [lin - f[i] for (v, lo, hi, lin, i) in V]
    tk = [gerr[i] + drift for (v, lo, hi, lin, i) in V]
    if not bad:
        for (v, lo, hi, lin, i) in V:
            if not (lo <= v <= hi): bad.append(("box", "coefficient %r of point %d outside [%r,%r] (no rounding allowance applies to the box)" % (v, i, lo, hi))); break
    asum = sum(abs(v) for v in coef)
    amax = max([abs(v) for v in coef] + [abs(lo) for (v, lo, hi, lin, i) in V] + [abs(hi) for (v, lo, hi, lin, i) in V if hi < 1e300] + [1.0])
    eqtol = deg_eq_tol(asum, amax, it)
    if eq:
        s = math.fsum(coef); want = 1.0 if p["trainer"] == "oneclass" else 0.0
        if not abs(s - want) <= eqtol:
            bad.append(("equality", "sum of coefficients %r, equality constraint demands %r (tolerance %.3g = rounding of the coefficients only)" % (s, want, eqtol)))
    upk = [k for k, (v, lo, hi, lin, i) in enumerate(V) if v < hi]
    dnk = [k for k, (v, lo, hi, lin, i) in enumerate(V) if v > lo]
    kall = 0.0
    if eq:
        if upk and dnk:
            a = max(upk, key=lambda k: g[k] - tk[k]); b = min(dnk, key=lambda k: g[k] + tk[k])
            viol = (g[a] - tk[a]) - (g[b] + tk[b]); raw = g[a] - g[b]; kall = tk[a] + tk[b]
        else: viol = raw = -1e100
    else:
        cand = [(g[k] - tk[k], g[k], tk[k]) for k in upk] + [(-g[k] - tk[k], -g[k], tk[k]) for k in dnk]
        viol, raw, kall = max(cand + [(0.0, 0.0, 0.0)])
    kmax = 2 * max(tk) if eq else max(tk)
    if typ == 1 and not viol <= eps:
        bad.append(("kkt", "accuracy reported as reached but KKT violation %r > eps %r against the independent double kernel matrix "
                           "(allowance at the violating pair %.3g: float rounding of the cached entries %.3g, double evaluation + gradient drift %.3g)"
                    % (raw, eps, kall, 2 * fpart if eq else fpart, kall - (2 * fpart if eq else fpart))))
    if eq and typ == 1 and nb == 1 and upk and dnk and not bad:
        lo_b = max(g[k] - tk[k] for k in upk) - eps; hi_b = min(g[k] + tk[k] for k in dnk) + eps
        if not (lo_b <= bias <= hi_b): bad.append(("bias", "bias %r outside the interval [%r,%r] allowed by the optimality conditions" % (bias, lo_b, hi_b)))
    if not eq and p["trainer"] in CS and nb != 0 and bias != 0.0:
        bad.append(("bias", "bias-free training returned offset %r" % bias))
    obj = math.fsum(lin * v for (v, lo, hi, lin, i) in V) - 0.5 * math.fsum(coef[i] * f[i] for i in range(n))
    otol = 0.5 * sum(abs(v) * tk[k] for k, (v, lo, hi, lin, i) in enumerate(V)) + 64 * EPSM * math.sqrt(it + 1) * max(1.0, scale * asum)
    if typ == 1 and not abs(value - obj) <= otol: bad.append(("objective", "reported dual objective %r, recomputed %r (tol %.3g)" % (value, obj, otol)))
    return bad, obj, kmax, (2 * fpart if eq else fpart)


# ---------------------------------------------------------------------------------------------------------------------
# extension: extracted assembly model + certified checker next to the real trainers

def canon(h):
    """canonical text of a hex double (the sign of zero is kept)"""
    return float.fromhex(h).hex()

def driver_A(p, c, cid, k, prev):
    """A line of ocaml/c07_driver.ml for the k-th QpSolver::solve call of a run (prev: hex coefficients of the warm start)"""
    tr = p["trainer"]; kind = {"csvmu": "csvm"}.get(tr, tr); n = p["n"]
    unc = 1 if tr == "csvmu" else 0
    if tr == "csvmu": r0, r1 = p["logC"]
    elif tr == "epssvr": r0, r1 = p["Cpos"], p["Cpos"]
    else: r0, r1 = p["Cneg"], p["Cpos"]
    if c["warm"] == 2 and k == 0: r0, r1 = 4.0 * r0, 4.0 * r1          # t.setRegularizationParameters(4.0 * reg)
    two = 0 if (tr in CS and r0 == r1) or tr not in CS else 1
    t = ["A", "%s#%d" % (cid, k), kind, str(p["bias"]), str(n), str(two), str(unc), fhex(r0), fhex(r1), fhex(p["param"]), "1" if prev is not None else "0"]
    t += [fhex(v) for v in p["y"]]
    if tr == "csvmw": t += [fhex(v) for v in p["w"]]
    if prev is not None: t += prev
    return " ".join(t)

def psd_min_pivot(K):
    """smallest pivot of a symmetric-pivoting LDL^T of K relative to the largest diagonal entry (monitor of the PSD assumption)"""
    n = len(K); A = [row[:] for row in K]; m = 0.0; dmax = max([abs(A[i][i]) for i in range(n)] + [1e-300])
    idx = list(range(n))
    for k in range(n):
        j = max(range(k, n), key=lambda i: A[i][i])
        if j != k:
            A[k], A[j] = A[j], A[k]
            for r in A: r[k], r[j] = r[j], r[k]
        piv = A[k][k]; m = min(m, piv / dmax)
        if piv <= 1e-13 * dmax:
            m = min(m, min(A[i][i] for i in range(k, n)) / dmax); break
        for i in range(k + 1, n):
            f = A[i][k] / piv
            if f != 0.0:
                for q in range(k + 1, n): A[i][q] -= f * A[k][q]
    return m

def allowances(p, c, K, it, coef, var, lohi):
    """rounding allowances handed to certify, the same formulas as the Python monitor uses:
       tol: error of the solver's incrementally updated double gradient w.r.t. the exact lin - K alpha (float cache: entries
            rounded to float) -- the solver stops on ITS gradient, so the exact violation may exceed eps by 2*tol;
       slack: drift of sum(alpha) (every SMO step rounds two coefficients), plus the rounding of the initial point"""
    n = p["n"]
    scale = max(1.0, max(sum(abs(K[i][j] * coef[j]) for j in range(n)) for i in range(n)))
    # float cache: certify gets the float-rounded matrix the solver sees, so no allowance for the entries is needed; only the
    # warm start loses precision there (setInitialSolution multiplies the float row by the coefficient CAST TO FLOAT)
    frel = 2.0 ** -22 if (c["ctype"] == "f" and c["warm"]) else 64 * EPSM
    tol = frel * scale + 256 * EPSM * scale * math.sqrt(it + 1)
    asum = sum(abs(v) for v in var)
    amax = max([abs(v) for v in var] + [abs(x) for x in lohi if abs(x) < 1e300] + [1.0])
    steps = it + 4 + (20000 if c["warm"] else 0)
    slack = 64 * EPSM * (asum + 1) + 4 * EPSM * steps * amax
    return tol, slack

NSOLVE = {0: 1, 1: 2, 2: 2, 3: 2, 4: 3}      # QpSolver::solve calls per run (warm = 4: converged call, fresh reference, reused trainer)
CERT_CODES = {1: "negative-eps", 2: "box", 3: "equality", 4: "kkt", 5: "bias"}

def main():
    ck = Check(PID)
    ck.trusted = DEFAULT_TRUSTED + ["the trainers' problem set-up code is modelled (C07Setup.v) and compared bit for bit on every run, not translated from the source; "
                                    "the observation point is a partial specialisation of QpSolver in the harness TU that prints the problem and forwards to the unchanged primary template",
                                    "rounding allowance (eps + 2*tol) and equality slack handed to the proved checker are computed by this script (formula in coverage.certify_allowances), not proved",
                                    "std::exp of the log-encoded regularisation parameters: the model uses the exp of OCaml's runtime (the same libm) and is compared bit for bit",
                                    "not verified: termination of the solver"]
    ck.assumptions = ["kernel matrix symmetric positive semidefinite: PROVED for the linear kernel (exact Gram matrix, C07_linear_kernel_gram_is_sym_psd, and the eps-SVR block matrix); for the Gaussian kernel "
                      "the double-valued matrix is an input and its positive semidefiniteness is an assumption monitored by a pivoted LDL^T on every run",
                      "results are judged only when the trainer reports QpAccuracyReached; the iteration limit is 2e6",
                      "main stream: data with integer/dyadic coordinates, C in 0.125..1000 (the extreme-scale family of finding F3 is C08's extreme stream); degenerate-geometry stream: generic doubles, feature scales 1e-4..1e4, "
                      "iteration limit 2e5; the floating-point error bounds of the kernel evaluations (standard model, pow/exp within 1 ulp) behind its KKT allowance are derived in tools/c07.py deg_kernel / deg_allow, not proved"]
    ck.proofs()
    exe, err = cxx_build("c07_train", [os.path.join(ROOT, "harness", "c07_train.cpp")] + repo_src("src/Core/Random.cpp"))
    if exe is None:
        ck.oblige("harness builds against /repo", False, err); ck.finish()
    model = extract_model(PID, "C07Extract.v", "c07_driver.ml")
    tmpd = os.path.join(BUILD, "tmp", PID); os.makedirs(tmpd, exist_ok=True)
    big = ck.tier == "thorough"
    items = []          # (problem, config, id)
    if ck.replay:
        for l in open(ck.replay).read().split("\n"):
            if l.startswith("T "):
                p, c = parse_case_line(l); items.append((p, c, l.split()[1]))
            elif l.startswith("D "):
                p, c = parse_deg_line(l); items.append((p, c, l.split()[1]))
    else:
        cdir = os.path.join(ROOT, "corpus", PID)
        if os.path.isdir(cdir):
            for fn in sorted(os.listdir(cdir)):
                for l in open(os.path.join(cdir, fn)).read().split("\n"):
                    if l.startswith("T "):
                        p, c = parse_case_line(l); items.append((p, c, "corpus_" + l.split()[1]))
        for k in range(1500 if big else 150):
            p = gen_problem(ck.rng, "p%d" % k, big)
            for ci, c in enumerate(configs(p, ck.rng)): items.append((p, c, "p%d_%d" % (k, ci)))
        # special structures (no-bias machines on inputs of very different norms; one-class vertex optima): own random stream
        srng = random.Random(ck.seed * 104729 + 11)
        for k in range(200 if big else 36):
            p = gen_special(srng, k, big)
            for ci, c in enumerate(configs(p, srng)): items.append((p, c, "s%d_%d" % (k, ci)))
        # degenerate-geometry stream: its own random stream, so the problem population above stays what it was
        drng = random.Random(ck.seed * 7919 + 7)
        for k in range(len(DEG_FAMILIES) * (100 if big else 14)):
            p = gen_degenerate(drng, k, big)
            for ci, c in enumerate(deg_configs(p)): items.append((p, c, "g%d_%d" % (k, ci)))
    cf = os.path.join(tmpd, "cases.txt" if ck.replay is None and os.path.realpath(REPO) == os.path.realpath("/repo") and ck.tier == "quick" else "cases_%d.txt" % os.getpid())
    open(cf, "w").write("\n".join(case_line(p, c, cid) for p, c, cid in items) + "\n")
    rc, out, err = sh([exe, cf], timeout=3000, env={"OMP_NUM_THREADS": "1", "OPENBLAS_NUM_THREADS": "1"})
    results = {}; hq = {}; hf = {}; hw = {}; hm = {}; hn = {}; r1 = {}; rfresh = {}          # harness lines Q/F/M by (id, k), W by id (hex strings)
    for l in out.split("\n"):
        t = l.split()
        if not t: continue
        if t[0] in ("Q", "F", "M"): {"Q": hq, "F": hf, "M": hm}[t[0]][(t[1], int(t[2]))] = t[4:]
        elif t[0] == "W": hw[t[1]] = t[3:]
        elif t[0] == "N": hn[t[1]] = int(t[2])
        elif t[0] in ("R1", "RF"):
            na = int(t[8])
            (r1 if t[0] == "R1" else rfresh)[t[1]] = (int(t[2]), int(t[3]), float.fromhex(t[4]), float.fromhex(t[5]), int(t[6]), float.fromhex(t[7]), [float.fromhex(v) for v in t[9:9 + na]])
        if t[0] == "R":
            na = int(t[8])
            results[t[1]] = (int(t[2]), int(t[3]), float.fromhex(t[4]), float.fromhex(t[5]), int(t[6]), float.fromhex(t[7]), [float.fromhex(v) for v in t[9:9 + na]])
        elif t[0] in ("EXC", "STDEXC"): results[t[1]] = l
    nrep = 0; keys = {}; nacc = 0; groups = {}; Kc = {}; monfail = set(); nreuse = 0; objlim = []
    Dk = {}; Dall = {}                     # degenerate stream: (K, E) by problem; total KKT allowance by run
    dstat = {"runs": 0, "judged": 0, "judged_float": 0, "judged_nontrivial": 0, "judged_with_kkt_allowance_below_eps": 0, "judged_float_with_kkt_allowance_below_eps": 0,
             "judged_with_kkt_allowance_below_eps/100": 0, "max_float_allowance/eps": 0.0, "max_kkt_allowance/eps": 0.0,
             "judged_by_family": {}, "judged_by_kernel": {}, "judged_by_geometry": {}}
    def rep(p, c, cid, key, msg):
        nonlocal nrep
        k2 = "%s:%s:bias%d:warm%d" % (key, p["trainer"], p["bias"], c["warm"]); keys[k2] = keys.get(k2, 0) + 1
        if keys[k2] > 1 or nrep >= 5: return
        nrep += 1
        line = case_line(p, c, cid)
        path = ck.write_replay("case_%s.txt" % cid, "# C07 replay: %s\n%s\n" % (msg, line))
        ck.violation(k2, {"case_file": path, "case": line, "observed": msg, "expected": "eps-KKT solution of the documented dual (Properties_C07.v)",
                          "problem": {k: v for k, v in p.items()}, "config": c, "replay_cmd": "python3 tools/c07.py --replay %s" % path},
                     "spec monitor fails on the implementation: " + msg)
    for p, c, cid in items:
        r = results.get(cid)
        if r is None:
            rep(p, c, cid, "crash", "implementation crashed/stopped before run %s (rc=%s) %s" % (cid, rc, err.strip()[-200:])); break
        if isinstance(r, str):
            rep(p, c, cid, "exception", "trainer threw: " + r); continue
        if p.get("deg"):
            if id(p) not in Dk: Dk[id(p)] = deg_kernel(p)
            solver = None
            if (cid, 0) in hf and (cid, 0) in hq:
                sv = [float.fromhex(v) for v in hf[(cid, 0)]]; q_ = hq[(cid, 0)]; dm = len(q_) // 4
                if len(sv) == dm: solver = (sv, [float.fromhex(v) for v in q_[dm:2 * dm]], [float.fromhex(v) for v in q_[2 * dm:3 * dm]])
            if r[0] != 1:
                bad, obj, kall, fall = [], None, 0.0, 0.0           # premise of the property: only results reported as accurate are judged
            else:
                bad, obj, kall, fall = monitor_deg(p, c, Dk[id(p)][0], Dk[id(p)][1:], r, solver)
                dstat["judged"] += 1; dstat["judged_float"] += c["ctype"] == "f"
                dstat["max_float_allowance/eps"] = max(dstat["max_float_allowance/eps"], fall / p["eps"])
                dstat["max_kkt_allowance/eps"] = max(dstat["max_kkt_allowance/eps"], kall / p["eps"])
                if r[1] >= 2: dstat["judged_nontrivial"] += 1
                # how sharp the KKT judgement is: runs whose whole allowance is below eps / below eps/100 (box and equality are exact in every run)
                if kall <= p["eps"]: dstat["judged_with_kkt_allowance_below_eps"] += 1; dstat["judged_float_with_kkt_allowance_below_eps"] += c["ctype"] == "f"
                if kall <= 0.01 * p["eps"]: dstat["judged_with_kkt_allowance_below_eps/100"] += 1
                fk = "%s%s" % (p["trainer"], "" if p["trainer"] not in CS else ":bias%d" % p["bias"])
                dstat["judged_by_family"][fk] = dstat["judged_by_family"].get(fk, 0) + 1
                dstat["judged_by_kernel"][p["kernel"]] = dstat["judged_by_kernel"].get(p["kernel"], 0) + 1
                dstat["judged_by_geometry"][p.get("geom", "replay")] = dstat["judged_by_geometry"].get(p.get("geom", "replay"), 0) + 1
            dstat["runs"] += 1; Dall[cid] = kall
        else:
            if id(p) not in Kc:
                Kd = kernel_matrix(p); Kc[id(p)] = (Kd, [[f32(v) for v in row] for row in Kd])
            bad, obj = monitor(p, c, Kc[id(p)][1 if c["ctype"] == "f" else 0], r)
        if c["warm"] == 4 and r[0] != 1 and bad and all(k == "objective" for k, _ in bad):
            # outside the premise of the property (the run stopped on the iteration limit, nothing is claimed): QpSolver::solve
            # reports functionValue() of a still SHRUNK problem (stale gradients of the shrunk variables) when it stops on the
            # iteration limit.  Reported to the lead (harness/c07_findings.txt); counted, not a violation of C07.
            objlim.append((cid, bad[0][1])); bad = []
        if c["warm"] == 4:
            # reused trainer: (ii) the iteration limit must be reported as such, (iii) the report must equal a fresh trainer's
            nreuse += 1
            fr = rfresh.get(cid); m = hn.get(cid); viol = r[3]
            if fr is None or m is None: bad = bad + [("reuse:missing", "no reference run of a fresh trainer")]
            else:
                if r[1] == m and r[0] != 4 and fr[0] == 4:
                    bad = [("reuse:stale-type", "second train() on a reused trainer performed exactly maxIterations = %d iterations (final KKT violation %r, eps %r) but reports type %d; a fresh trainer on the same problem reports %d (QpMaxIterationsReached); first call on that trainer: type %s"
                            % (m, viol, p["eps"], r[0], fr[0], r1.get(cid, ("?",))[0]))] + bad
                elif (r[0], r[1]) != (fr[0], fr[1]) or float(r[2]).hex() != float(fr[2]).hex() or float(r[3]).hex() != float(fr[3]).hex() or [float(v).hex() for v in r[6]] != [float(v).hex() for v in fr[6]] or float(r[5]).hex() != float(fr[5]).hex():
                    bad = bad + [("reuse:depends-on-earlier-call", "solutionProperties / result of the second train() on a reused trainer (type %d, %d iterations, value %r, accuracy %r) differ from a fresh trainer with the same settings (type %d, %d iterations, value %r, accuracy %r)"
                                  % (r[0], r[1], r[2], r[3], fr[0], fr[1], fr[2], fr[3]))]
        if bad: monfail.add(cid)
        for key, msg in bad[:1]: rep(p, c, cid, key, "%s [%s shrink=%d prec=%d cache=%s warm=%d]" % (msg, p["trainer"], c["shrink"], c["prec"], c["ctype"], c["warm"]))
        if r[0] == 1:
            nacc += 1
            if not bad: groups.setdefault(id(p), []).append((p, c, cid, r, obj))
    # agreement across configurations: proved bound 2*eps*sum(U-L) (eps_KKT_near_optimal applied both ways)
    nagree = 0
    for gid, lst in groups.items():
        p = lst[0][0]; V, eq = dual_view(p, lst[0][3][6])
        if not eq: bound = None
        else: bound = 2 * p["eps"] * sum(hi - lo for (v, lo, hi, lin, i) in V)
        objs = [o for (_, _, _, _, o) in lst]
        spread = max(objs) - min(objs)
        sc = max(1.0, max(abs(o) for o in objs))
        lim = (bound if bound is not None else 2 * p["eps"] * sum(hi - lo for (v, lo, hi, lin, i) in V)) + 1e-9 * sc
        if p.get("deg"):
            # every accepted result is a feasible (eps + A)-KKT point of the SAME double-matrix problem, A = its KKT allowance:
            # each lies within (eps + A) * sum(U-L) below the optimum (C07_eps_KKT_near_optimal), so the spread is at most the largest such term
            S_ = sum(hi - lo for (v, lo, hi, lin, i) in V if hi - lo < 1e300)
            lim = (p["eps"] + max(Dall.get(z[2], 0.0) for z in lst)) * S_ + 1e-9 * sc + 2e-12 * max(1.0, S_) * max(abs(z[3][5]) for z in lst)
        nagree += len(lst)
        if not spread <= lim:
            a = max(lst, key=lambda z: z[4]); b = min(lst, key=lambda z: z[4])
            rep(p, b[1], b[2], "config-dependence", "dual objective depends on the configuration: %r (shrink=%d prec=%d warm=%d) vs %r (shrink=%d prec=%d warm=%d), allowed spread %r"
                % (b[4], b[1]["shrink"], b[1]["prec"], b[1]["warm"], a[4], a[1]["shrink"], a[1]["prec"], a[1]["warm"], lim))

    # ---- extension: assembly model and certified checker (extracted from Coq) next to the real trainers ----
    dl = []; want = {}           # driver input lines; want[cid] = what to compare
    psd_min = 0.0; allow_max = {"eps_allowance_2tol": 0.0, "slack_eq": 0.0, "bound_slack_term": 0.0}
    for p, c, cid in items:
        r = results.get(cid)
        if r is None or isinstance(r, str): continue
        n = p["n"]; nsolve = NSOLVE[c["warm"]]
        if any((cid, k) not in hq or (cid, k) not in hf for k in range(nsolve)): continue      # reported below as missing
        for k in range(nsolve):
            prev = hw.get(cid) if (k == 1 and c["warm"] in (1, 2, 3)) else None
            dl.append(driver_A(p, c, cid, k, prev))
        last = nsolve - 1
        var = [float.fromhex(v) for v in hf[(cid, last)]]
        if p["trainer"] == "epssvr": dl.append("S %s %d %s" % (cid, n, " ".join(hf[(cid, last)])))
        if r[0] != 1: continue                                  # certify only what the trainer claims to be accurate
        q = hq[(cid, last)]; dims = len(q) // 4
        lohi = [float.fromhex(v) for v in q[dims:3 * dims]]
        if p.get("deg"):
            # degenerate stream: certify judges against the DOUBLE matrix (linear kernel: the exact Gram matrix of the data) with
            # eps + the largest pair allowance of deg_allow; equality slack = deg_eq_tol (no kernel allowance)
            Kuse = Dk[id(p)][0]
            absv = [abs(var[i]) + abs(var[i + n]) for i in range(n)] if p["trainer"] == "epssvr" else [abs(v) for v in var]
            gerr, drift, _, _ = deg_allow(p, c, Kuse, Dk[id(p)][1:], r[1], absv)
            tol = max(gerr) + drift
            amax_ = max([abs(v) for v in r[6]] + [abs(x) for x in lohi if abs(x) < 1e300] + [1.0])
            slack = deg_eq_tol(sum(abs(v) for v in r[6]), amax_, r[1])
        else:
            Kd, K32 = Kc[id(p)]; Kuse = K32 if c["ctype"] == "f" else Kd
            tol, slack = allowances(p, c, Kuse, r[1], r[6], var, lohi)
        eq = 1 if (p["trainer"] not in CS or p["bias"]) else 0
        target = 1.0 if p["trainer"] == "oneclass" else 0.0
        eps_c = p["eps"] + 2 * tol
        if p["kernel"] == "lin": km = "lin %d %d %s" % (n, p["d"], " ".join(fhex(v) for row in p["x"] for v in row))
        else:
            km = "mat %d %s" % (n, " ".join(fhex(v) for row in Kuse for v in row))
            if id(p) not in want: psd_min = min(psd_min, psd_min_pivot(Kuse))
        dl.append("C %s %d %s %d %s %s %s %s %s %s" % (cid, eq, fhex(target), 1 if (eq and r[4] == 1) else 0, fhex(r[5]), fhex(eps_c), fhex(slack), fhex(0.0), km, " ".join(hf[(cid, last)])))
        want[cid] = (eps_c, slack, 2 * tol); want[id(p)] = True
        ak_ = "eps_allowance_2tol" if not (c["ctype"] == "f" and c["warm"]) else "eps_allowance_2tol_float_warm"
        if p.get("deg"): ak_ = "eps_allowance_2tol_degenerate_float_cache" if c["ctype"] == "f" else "eps_allowance_2tol_degenerate_double_cache"
        allow_max[ak_] = max(allow_max.get(ak_, 0.0), 2 * tol / p["eps"])
        allow_max["slack_eq"] = max(allow_max["slack_eq"], slack)
        allow_max["bound_slack_term"] = max(allow_max["bound_slack_term"], abs(r[5]) * 2 * slack)
    mf = os.path.join(tmpd, os.path.basename(cf).replace("cases", "model_in"))
    if cf.endswith("_%d.txt" % os.getpid()):
        import atexit
        atexit.register(lambda: [os.remove(f) for f in (cf, mf) if os.path.exists(f)])
    open(mf, "w").write("\n".join(dl) + "\n")
    mrc, mout, merr = sh([model, mf], timeout=3000)
    if mrc != 0: raise RuntimeError("model driver failed: rc=%s %s" % (mrc, merr[-2000:]))
    mq = {}; mb = {}; mcoef = {}; mcert = {}
    for l in mout.split("\n"):
        t = l.split()
        if not t: continue
        if t[0] == "Q": mq[t[1]] = t[3:]
        elif t[0] == "B": mb[t[1]] = [int(v) for v in t[3:]]
        elif t[0] == "COEF": mcoef[t[1]] = t[3:]
        elif t[0] == "CERT": mcert[t[1]] = t[2:]
    keys2 = {}; nasm = 0; ncert = 0; ncoef = 0; nblock = 0
    def rep2(p, c, cid, key, msg, extra=None):
        nonlocal nrep
        k2 = "%s:%s:bias%d:warm%d" % (key, p["trainer"], p["bias"], c["warm"]); keys2[k2] = keys2.get(k2, 0) + 1
        if keys2[k2] > 1 or nrep >= 8: return
        nrep += 1
        line = case_line(p, c, cid)
        path = ck.write_replay("case_%s.txt" % cid, "# C07 replay: %s\n%s\n" % (msg, line))
        d = {"case_file": path, "case": line, "observed": msg, "expected": "the problem assembled by the model C07Setup.v / a result accepted by the proved checker C07Cert.certify (Properties_C07.v)",
             "problem": {k: v for k, v in p.items()}, "config": c, "replay_cmd": "python3 tools/c07.py --replay %s" % path}
        if extra: d.update(extra)
        # decision logic of BUILDERS.md: a broken correspondence on an input where neither the spec monitor nor the proved checker
        # finds a fault of the result is reported as such (the case is still the replay)
        noinp = not key.startswith("certify:") and cid not in monfail and mcert.get(cid, ["0"])[0] == "0"
        ck.violation(k2, d, "extracted model vs implementation: " + msg + (" (the spec monitor and the proved checker accept the trainer's result on this input)" if noinp else ""), no_input=noinp)
    fields = ["linear", "boxMin", "boxMax", "initial alpha"]
    for p, c, cid in items:
        r = results.get(cid)
        if r is None or isinstance(r, str): continue
        n = p["n"]; nsolve = NSOLVE[c["warm"]]
        miss = [k for k in range(nsolve) if (cid, k) not in hq or (cid, k) not in hf]
        if miss or (cid, nsolve) in hq:
            rep2(p, c, cid, "assembly:solve-calls", "the trainer entered QpSolver::solve %d times, expected %d" % (sum(1 for k in range(4) if (cid, k) in hq), nsolve)); continue
        for k in range(nsolve):
            a = [canon(v) for v in hq[(cid, k)]]; b = [canon(v) for v in mq.get("%s#%d" % (cid, k), [])]
            nasm += 1
            if a != b:
                dims = len(a) // 4
                if len(a) != len(b): msg = "problem of %d variables, the model assembles %d" % (dims, len(b) // 4)
                else:
                    j = next(i for i in range(len(a)) if a[i] != b[i])
                    msg = "%s(%d) of the problem the trainer built is %s (%r), the assembly model gives %s (%r)" % (fields[j // dims], j % dims, a[j], float.fromhex(a[j]), b[j], float.fromhex(b[j]))
                rep2(p, c, cid, "assembly:" + ("warm-start" if (k == 1 and c["warm"] in (1, 2, 3)) else "problem"), msg + " [solve call %d, %s shrink=%d prec=%d cache=%s warm=%d]" % (k, p["trainer"], c["shrink"], c["prec"], c["ctype"], c["warm"]),
                     {"implementation_problem": hq[(cid, k)], "model_problem": mq.get("%s#%d" % (cid, k))}); break
        last = nsolve - 1; fin = [canon(v) for v in hf[(cid, last)]]
        if p["trainer"] == "epssvr":
            # (i) returned coefficient = model's svr_coef of the 2n solver variables, (ii) block matrix structure
            ncoef += 1
            mc = [canon(v) for v in mcoef.get(cid, [])]; rc_ = [float(v).hex() for v in r[6]]
            if mc != rc_:
                j = next((i for i in range(min(len(mc), len(rc_))) if mc[i] != rc_[i]), 0)
                rep2(p, c, cid, "svr-coef", "returned coefficient %d is %r, the model forms %s from the two solver variables" % (j, r[6][j] if j < len(r[6]) else None, mc[j] if j < len(mc) else None))
            M = hm.get((cid, 0)); idx = mb.get("%s#0" % cid)
            if M is not None and idx is not None:
                nblock += 1; dims = 2 * n; Mv = [float.fromhex(v) for v in M]
                if p.get("deg"):
                    Kd = Dk[id(p)][0]; Ed = Dk[id(p)][2 if (c["prec"] and not os.environ.get("C07_PREC_SINGLE_BOUND")) else 1]; isf = c["ctype"] == "f"       # entry bound of deg_kernel / deg_allow instead of the flat 1e-12
                    mtol = lambda i, j: (Ed[i][j] + ((U24 * (abs(Kd[i][j]) + Ed[i][j]) + 2.0 ** -150) if isf else 0.0)) * (1 + 1e-12)
                else:
                    Kd = Kc[id(p)][0]; mtol = lambda i, j: 1e-12 * max(1.0, abs(Kd[i][j]))
                badm = None
                for i in range(dims):
                    for j in range(dims):
                        if Mv[i * dims + j] != Mv[idx[i] * dims + idx[j]]: badm = "entry (%d,%d) of the 2n x 2n matrix is %r, entry (%d,%d) of its upper left block is %r" % (i, j, Mv[i * dims + j], idx[i], idx[j], Mv[idx[i] * dims + idx[j]])
                        if i < n and j < n and not abs(Mv[i * dims + j] - Kd[i][j]) <= mtol(i, j): badm = "entry (%d,%d) of the matrix the solver sees is %r, the kernel gives %r" % (i, j, Mv[i * dims + j], Kd[i][j])
                if badm: rep2(p, c, cid, "blockmatrix", badm)
        else:
            if fin != [float(v).hex() for v in r[6]]:
                rep2(p, c, cid, "coef-copy", "the returned coefficients differ from the solver's final variables")
        if cid in want:
            ncert += 1
            cr = mcert.get(cid)
            if cr is None: rep2(p, c, cid, "certify:missing", "the model driver gave no verdict")
            elif cr[0] != "0":
                eps_c, slack, al = want[cid]
                rep2(p, c, cid, "certify:" + CERT_CODES.get(int(cr[0]), cr[0]),
                     "the proved checker rejects the trainer's result (%s): exact KKT violation %s, eps %r + allowance %.3g; equality slack %.3g; multiplier %s [%s shrink=%d prec=%d cache=%s warm=%d]"
                     % (CERT_CODES.get(int(cr[0]), cr[0]), float.fromhex(cr[1]) if len(cr) > 1 else "?", p["eps"], al, slack, float.fromhex(cr[2]) if len(cr) > 2 else "?", p["trainer"], c["shrink"], c["prec"], c["ctype"], c["warm"]),
                     {"certify_code": cr[0], "eps_with_allowance": eps_c, "slack_eq": slack})
    ak = {k: v for k, v in keys2.items() if not k.startswith("certify:")}; ckk = {k: v for k, v in keys2.items() if k.startswith("certify:")}
    ck.oblige("assembly model (C07Setup.v, extracted, IEEE doubles) reproduces the problem the real trainer hands to QpSolver bit for bit "
              "(%d solve calls; %d eps-SVR coefficient vectors; %d block matrices)" % (nasm, ncoef, nblock), not ak, "" if not ak else json.dumps(ak))
    ck.oblige("proved checker C07Cert.certify (extracted, exact rationals) accepts every result reported as accurate (%d runs)" % ncert, not ckk, "" if not ckk else json.dumps(ckk))
    ck.notes["certify_allowances"] = {"formula": "eps_certify = eps + 2*tol, tol = frel*scale + 256*u*scale*sqrt(iterations+1) (u = 2^-52, frel = 64u, 2^-22 for a warm start with a float cache, whose initial gradient is formed with the coefficients cast to float; scale = max_i sum_j |K_ij alpha_j|): "
                                      "the solver stops on its own incrementally updated double gradient; slack_eq = 64u(sum|alpha|+1) + 4u*steps*max(|alpha|,|box|): rounding of two coefficients per SMO step; slack_bias = 0",
                                      "max 2*tol/eps": allow_max["eps_allowance_2tol"], "max 2*tol/eps (warm start with float cache)": allow_max.get("eps_allowance_2tol_float_warm", 0.0), "max slack_eq": allow_max["slack_eq"], "max |bias|*2*slack_eq (slack term of the proved bound)": allow_max["bound_slack_term"]}
    ck.notes["psd_monitor_min_pivot_rel"] = psd_min
    ck.oblige("kernel matrices handed to certify as doubles (Gaussian kernel) are positive semidefinite up to rounding (pivoted LDL^T, smallest pivot %.3g relative)" % psd_min, psd_min >= -1e-9)
    ck.notes["model_failures_by_key"] = keys2; ck.notes["assembly_solve_calls_compared"] = nasm; ck.notes["certified_runs"] = ncert
    log("model failures by key: %s; %d solve calls compared, %d runs certified" % (keys2, nasm, ncert))
    ck.oblige("trainer results satisfy the eps-KKT spec against an independent kernel matrix (%d runs, %d reported accuracy reached)" % (len(items), nacc), not keys,
              "" if not keys else json.dumps(keys))
    ck.cov["evaluations"] = len(items)
    ck.cov["distinct_nontrivial"] = len(set(case_line(p, c, "x") for p, c, cid in items if not isinstance(results.get(cid), str) and results.get(cid) and results[cid][1] >= 2))
    ck.cov["rule"] = ("trainer-level runs: CSvmTrainer (bias / no bias, class-specific C, one- and two-regulariser constructors, log-encoded regularisation parameters, weighted examples, float/double cache), EpsilonSvmTrainer, OneClassSvmTrainer on n=4..30 points "
                      "(integer/dyadic coordinates, duplicates, unbalanced classes), linear/Gaussian kernels, C in 0.125..1000, eps in 1e-2..1e-5, each problem under "
                      "{shrinking on/off} x {precomputed, default cache, 2-row cache} x {cold, warm}, plus warm starts after the regularisation constants were lowered by a factor 4 (clipping + rebalancing of the old solution); "
                      "reused-trainer stage: a trainer that has converged once trains again with maxIterations = 2..4; its report (type, iterations, value, accuracy, result) must equal a fresh trainer's and pass every monitor whenever it claims accuracy; "
                      "degenerate-geometry stream (op code D): C-SVM with/without bias, class-specific and per-example C, eps-SVR, one-class on near-duplicate pairs at distance 1e-3..1e-7 (same / opposite labels or targets), exact duplicates, "
                      "collinear points (rank-deficient Gram matrix), feature scales 1e-4..1e4, generic (non-dyadic) coordinates, kernels linear / polynomial (degree 2, 3) / wide and narrow Gaussian, C in 0.125..1000, "
                      "each problem under {shrinking on/off} x {precomputed, big cache, 2-row cache} x {float, double cache}; judged against the double kernel matrix with the derived entry-rounding allowance (coverage.degenerate_geometry_stream.formula), box exact; "
                      "every run: problem assembled by the extracted model == problem observed inside the trainer's QpSolver::solve call, and the extracted proved checker certify accepts the returned variables; non-trivial = at least 2 solver iterations")
    ck.cov["samples"] = [case_line(p, c, cid)[:300] for p, c, cid in items[:2]]
    ck.cov["traces_validated_against_impl"] = len(items)
    ck.cov["disagreements_checked"] = sum(keys.values())
    ck.notes["reused_trainer_runs"] = nreuse
    dstat["formula"] = ("judged against the DOUBLE kernel matrix K computed by this script.  Solver's gradient vs lin - K alpha, per point i: gerr_i = sum_j T_ij |alpha_j|, "
                        "T_ij = E_ij (+ 2^-24 (|K_ij| + E_ij) + 2^-150 with a float cache or a precomputed float matrix: every entry the solver reads is the library's double value rounded to float, "
                        "relative error <= 2^-24); E_ij = entrywise bound of the two double evaluations (linear (2d+2) 2^-53 sum_k |x_ik x_jk|; polynomial 2 (deg |b|^(deg-1) db + 2^-52 |K_ij|), "
                        "db = (d+2) 2^-53 (sum_k |x_ik x_jk| + |offset|); Gaussian 2 K_ij (gamma r^2 (d+3) 2^-53 + 2^-52); PRECOMPUTED Gaussian matrix (batch evaluation expands r^2 = |x|^2 + |y|^2 - 2<x,y>): in addition "
                        "K_ij (exp(gamma dr2) - 1) + 2^-52 K_ij, dr2 = (d+4) 2^-53 (|x_i|^2 + |x_j|^2 + 2 sum_k |x_ik x_jk|)); drift = 256 2^-52 scale sqrt(iterations+1) as in the other streams. "
                        "eps-KKT: max_up (g_a - gerr_a) - min_down (g_b + gerr_b) <= eps + 2 drift; bias interval and objective (1/2 sum |alpha_k| (gerr_k + drift)) with the same terms; "
                        "box: exact, no allowance (returned coefficients and the solver's own variables); equality: min(64u(sum|alpha|+1) + 4u(iterations+4) max|alpha|, 1e-12 max(1, sum|alpha|, max|alpha|, box)), no kernel allowance; "
                        "certify: eps + 2 (max_i gerr_i + drift), slack_eq as above; agreement: spread <= (eps + largest KKT allowance of the group) sum(U-L)")
    dstat["max 2*tol/eps handed to certify (float cache)"] = allow_max.get("eps_allowance_2tol_degenerate_float_cache", 0.0)
    dstat["max 2*tol/eps handed to certify (double cache)"] = allow_max.get("eps_allowance_2tol_degenerate_double_cache", 0.0)
    ck.notes["degenerate_geometry_stream"] = dstat
    if not ck.replay:
        fams = ["csvm:bias1", "csvm:bias0", "csvmw:bias1", "csvmw:bias0", "epssvr", "oneclass"]
        missing = [f_ for f_ in fams if not dstat["judged_by_family"].get(f_)]
        ck.oblige("degenerate-geometry stream: every trainer family has results reported as accurate and judged (%d of %d runs judged, %d with a float cache)"
                  % (dstat["judged"], dstat["runs"], dstat["judged_float"]), not missing, "no judged result for " + ", ".join(missing) if missing else "")
    log("degenerate-geometry stream: %d runs, %d judged (%d float cache; KKT allowance below eps in %d, of them %d float cache; below eps/100 in %d), max float allowance/eps %.3g, max KKT allowance/eps %.3g"
        % (dstat["runs"], dstat["judged"], dstat["judged_float"], dstat["judged_with_kkt_allowance_below_eps"], dstat["judged_float_with_kkt_allowance_below_eps"],
           dstat["judged_with_kkt_allowance_below_eps/100"], dstat["max_float_allowance/eps"], dstat["max_kkt_allowance/eps"]))
    ck.notes["objective_mismatch_at_iteration_limit(not a claim of the property; see harness/c07_findings.txt)"] = {"runs": len(objlim), "samples": objlim[:3]}
    ck.notes["accuracy_reached"] = nacc; ck.notes["monitor_failures_by_key"] = keys; ck.notes["runs_in_agreement_groups"] = nagree
    by = {}
    for p, c, cid in items: by[p["trainer"]] = by.get(p["trainer"], 0) + 1
    ck.notes["runs_by_trainer"] = by
    log("monitor failures by key: %s; accuracy reached in %d of %d runs" % (keys, nacc, len(items)))
    ck.finish()

if __name__ == "__main__":
    main()
