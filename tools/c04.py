#!/usr/bin/env python3
"""C04 — models: batch = single evaluation, parameter vector round trip, derivatives are the derivatives.

  proofs          Properties_C04.v (axiom-free, any commutative ring).  LinearModel x activations, ConcatenatedModel, Normalizer,
                  Classifier: batch = single, parameter round trip + count, combined = separate, chain rule (dual numbers), Linear
                  activations = exact polynomial identity.  Extension: Conv2DModel at index level (im2mat/im2mat_pad + gemm, reorder,
                  backprop filters; batch = single, round trip, derivative core for any delta, Linear activation = exact polynomial
                  identity, activation pair = dual numbers); PoolingLayer (value at coded arg max, tie rule = first maximum, cleared
                  buffer, derivative routes to the arg max, exact affine identity where the arg max does not move); ResizeLayer (linear map,
                  scatter derivative = adjoint, exact); ConcatenatedModel over arbitrary layers with optimisation flags (round trip skips
                  frozen layers, batch = single, chain rule with gradient blocks only for optimised layers; instantiated for Conv2D /
                  Linear / Neuron / Pooling / Resize layers); RBFLayer (batch = single, round trip through log(gamma)); CMACMap (linear in
                  the parameters, scatter derivative = gradient, exact); Ensemble (batch = single); KernelExpansion for any kernel (batch =
                  single, round trip, independence of the basis batching, linear in the parameters); softmax / normaliser: coded
                  multiplyDerivative = adjoint of the dual-number tangent over every field, lifted to LinearModel layers and (softmax)
                  to concatenations.
  correspondence  extracted model (float instantiation) vs harness/c04_models.cpp compiled from /repo on generated cases:
                  LinearModel x 7 activations, NeuronLayer x 7, Normalizer, Classifier<LinearModel>, Conv2DModel x activations (both
                  paddings, even / odd / one-sided / image-sized / larger-than-image filters, channels and filters > 1), PoolingLayer
                  (incl. tie and non-divisible streams), ResizeLayer, RBFLayer, CMACMap, Ensemble<LinearModel>, ConcatenatedModel of
                  any of these with optimisation flags on/off (parameter vector, features, eval, all three derivative calls);
                  exact on dyadic inputs with Linear / Rectifier activations, for pooling, CMAC and (bit for bit: same order of floating
                  point operations) ResizeLayer; 1e-12 relative otherwise.  KernelExpansion with Linear / Polynomial / Gaussian kernels,
                  basis in explicitly given unequal batches (KEXB), offset on/off, zero rows of alpha: exact on integer data.
  spec monitor    (independent of the model, on ALL anchored classes)
                  batch eval with state = without state = eval(single) = operator() = row alone = row in a reversed / padded batch;
                  numberOfParameters = independent formula = length of parameterVector(), set/get round trip;
                  combined derivative call = separate calls; both = central finite differences of the weighted output sum.
"""
import os, sys, math
sys.path.insert(0, os.path.dirname(os.path.abspath(__file__)))
from vlib import *

PID = "C04"
SRC = ["src/Models/RBFLayer.cpp", "src/Models/CMAC.cpp", "src/Core/Random.cpp"]
H = 2.0 ** -17
ACT = ["Linear", "Rectifier", "Tanh", "Logistic", "FastSigmoid", "Softmax", "Normalizer"]
TOL = 1e-12          # model vs implementation, batch vs single where transcendental functions / divisions occur
FD_TOL = 2e-6        # derivative vs central difference, relative to max(1, |gradient|_inf, |S|)


def fh(s):
    if s in ("nan", "-nan"): return float("nan")
    if s == "inf": return float("inf")
    if s == "-inf": return float("-inf")
    return float.fromhex(s) if ("x" in s or "X" in s) else float(s)

def hx(v):
    return float(v).hex()

def parse_out(line):
    """OK k=v,v k=... -> dict of lists of floats; None for EXC / crash"""
    t = line.split()
    if not t or t[0] != "OK": return None
    d = {}
    for x in t[1:]:
        k, v = x.split("=", 1)
        if k == "ERR": d[k] = v
        else: d[k] = [fh(y) for y in v.split(",")] if v else []
    return d


# ------------------------------------------------------------------------------------------------ spec analysis (python side)
class Spec:
    """independent description of a model spec: expected parameter count, shapes, exactness, class name"""
    def __init__(self):
        self.np = 0; self.nin = 0; self.nout = 0; self.exact = True; self.name = ""; self.shape = ""; self.modelled = False
        self.hp = True; self.hi = True; self.kinds = []; self.convs = []

def c1(n, v):
    return "%s%s" % (n, "=%d" % v if v <= 1 else ">1")

def analyse(tok, p=0):
    """returns (Spec, next position).  np = number of parameters the model must report.
    Spec.name/shape: exact description (messages); Spec.kname/kshape: coarse class used in violation keys."""
    s, q = analyse0(tok, p)
    k = tok[p]; I = lambda i: int(tok[p + i])
    s.kname = s.name; s.kshape = s.shape
    if k == "LIN": s.kshape = "%s %s offset=%d" % (c1("nin", I(3)), c1("nout", I(4)), I(2))
    elif k == "NEU": s.kshape = c1("n", I(2))
    elif k == "NRM": s.kshape = "%s offset=%d" % (c1("n", I(1)), I(2))
    elif k == "CONV": s.kname = "conv2d"
    elif k == "POOL": s.kshape = "%s patch=%s" % (c1("channels", I(3)), "1x1" if (I(4), I(5)) == (1, 1) else "larger")
    elif k == "RESIZE": s.kshape = "%s %s" % (c1("channels", I(3)), "shrink" if I(4) * I(5) < I(1) * I(2) else "enlarge")
    elif k == "RBF": s.kshape = "%s %s trainCenters=%d trainWidth=%d" % (c1("nin", I(1)), c1("nout", I(2)), I(3), I(4))
    elif k == "CMAC": s.kshape = "%s %s %s" % (c1("nin", I(1)), c1("nout", I(2)), c1("tilings", I(3)))
    elif k == "KEXP": s.kshape = "%s %s offset=%d basis-batches%s" % (c1("nin", I(5)), c1("nout", I(6)), I(7), "=1" if I(4) <= I(3) else ">1")
    elif k == "KEXB":
        nbat = I(3); s.kshape = "%s %s offset=%d basis-batches%s" % (c1("nin", I(4 + nbat)), c1("nout", I(5 + nbat)), I(6 + nbat), "=1" if nbat <= 1 else ">1")
    elif k == "ENS": s.kshape = c1("members", I(1))
    elif k == "CLS": s.kshape = "%s offset=%d bias=%d" % (c1("classes", I(3)), I(1), 1 if I(4) else 0)
    elif k == "NET":
        s.kname = "ConcatenatedModel"
        fl = s.shape.split("optimize=")[1]
        s.kshape = "kinds=%s optimize=%s" % ("+".join(sorted(set(s.kinds[1:]))), "all" if "0" not in fl else ("none" if "1" not in fl else "mixed"))
        if s.convs: s.kshape += " conv[" + "|".join(sorted(set(s.convs))) + "]"
    return s, q

def analyse0(tok, p=0):
    s = Spec(); k = tok[p]; I = lambda i: int(tok[p + i]); s.kinds = [k]
    if k == "LIN":
        a, off, ni, no = I(1), I(2), I(3), I(4)
        s.np = ni * no + (no if off else 0); s.nin, s.nout = ni, no; s.exact = a in (0, 1); s.modelled = True
        s.name = "LinearModel<%s>" % ACT[a]; s.shape = "nin=%d nout=%d offset=%d" % (ni, no, off); return s, p + 5
    if k == "NEU":
        a, n = I(1), I(2); s.nin = s.nout = n; s.exact = a in (0, 1); s.name = "NeuronLayer<%s>" % ACT[a]; s.shape = "n=%d" % n; return s, p + 3
    if k == "NRM":
        n, off = I(1), I(2); s.np = n + (n if off else 0); s.nin = s.nout = n; s.modelled = True; s.hp = s.hi = False
        s.name = "Normalizer"; s.shape = "n=%d offset=%d" % (n, off); return s, p + 3
    if k == "CONV":
        a, Hh, W, C, F, fh_, fw, pad = [I(i) for i in range(1, 9)]
        s.np = F * fh_ * fw * C + F; s.nin = Hh * W * C
        s.nout = (Hh * W * F) if pad else ((Hh - fh_ + 1) * (W - fw + 1) * F); s.exact = a in (0, 1)
        s.name = "Conv2DModel<%s>" % ACT[a]; s.modelled = True
        s.shape = "%s %s filter=%s%s" % ("channels>1" if C > 1 else "channels=1", "filters>1" if F > 1 else "filters=1",
                                          "even" if (fh_ % 2 == 0 or fw % 2 == 0) else "odd", " zeropad" if pad else " valid")
        s.detail = "image %dx%dx%d filters %dx(%dx%d)" % (Hh, W, C, F, fh_, fw); s.convs = [s.shape]
        return s, p + 9
    if k == "POOL":
        Hh, W, C, ph, pw = [I(i) for i in range(1, 6)]
        s.nin = Hh * W * C; s.nout = (Hh // ph) * (W // pw) * C; s.name = "PoolingLayer"; s.modelled = True; s.shape = "image %dx%dx%d patch %dx%d" % (Hh, W, C, ph, pw); return s, p + 6
    if k == "RESIZE":
        Hh, W, C, oh, ow = [I(i) for i in range(1, 6)]
        s.nin = Hh * W * C; s.nout = oh * ow * C; s.exact = False; s.modelled = True; s.model_exact = True; s.name = "ResizeLayer"; s.shape = "image %dx%dx%d -> %dx%d" % (Hh, W, C, oh, ow); return s, p + 6
    if k == "RBF":
        ni, no, tc, tw = I(1), I(2), I(3), I(4)
        s.np = (ni * no if tc else 0) + (no if tw else 0); s.nin, s.nout = ni, no; s.exact = False; s.hi = False
        s.name = "RBFLayer"; s.shape = "nin=%d nout=%d trainCenters=%d trainWidth=%d" % (ni, no, tc, tw); return s, p + 5 + no
    if k == "CMAC":
        ni, no, tilings, tiles = I(1), I(2), I(3), I(4)
        s.np = (tiles ** ni) * tilings * no; s.nin, s.nout = ni, no; s.hi = False
        s.name = "CMACMap"; s.shape = "nin=%d nout=%d tilings=%d tiles=%d" % (ni, no, tilings, tiles); return s, p + 7
    if k == "KEXP":
        kern, bs, nb, ni, no, off = I(1), I(3), I(4), I(5), I(6), I(7)
        s.np = nb * no + (no if off else 0); s.nin, s.nout = ni, no; s.exact = kern != 1; s.hp = s.hi = False
        s.name = "KernelExpansion<%s>" % ("LinearKernel" if kern == 0 else "GaussianRbfKernel" if kern == 1 else "PolynomialKernel"); s.shape = "basis=%d batch=%d nin=%d nout=%d offset=%d" % (nb, bs, ni, no, off)
        return s, p + 8 + nb * ni
    if k == "KEXB":
        kern, nbat = I(1), I(3); sz = [I(4 + i) for i in range(nbat)]; nb = sum(sz); ni, no, off = I(4 + nbat), I(5 + nbat), I(6 + nbat)
        s.np = nb * no + (no if off else 0); s.nin, s.nout = ni, no; s.exact = kern != 1; s.hp = s.hi = False; s.modelled = True
        s.name = "KernelExpansion<%s>" % ("LinearKernel" if kern == 0 else "GaussianRbfKernel" if kern == 1 else "PolynomialKernel")
        s.shape = "basis batches=%s nin=%d nout=%d offset=%d" % ("+".join(map(str, sz)), ni, no, off)
        return s, p + 7 + nbat + nb * ni
    if k == "ENS":
        n = I(1); q = p + 2
        for i in range(n):
            sub, q2 = analyse(tok, q + 1); q = q2 + sub.np
            s.nin, s.nout = sub.nin, sub.nout
        s.np = 0; s.exact = False; s.hp = s.hi = False; s.name = "Ensemble<LinearModel>"; s.shape = "members=%d nin=%d nout=%d" % (n, s.nin, s.nout); return s, q
    if k == "NET":
        n = I(1); q = p + 2; names = []; flags = []; s.modelled = True; first = True; s.kinds = ["NET"]
        inputD = True; paramD = True; subs = []
        for i in range(n):
            flag = int(tok[q]); sub, q = analyse(tok, q + 1)
            if not flag: q += sub.np
            else: s.np += sub.np
            if first: s.nin = sub.nin; first = False
            s.nout = sub.nout; s.exact = s.exact and sub.exact
            s.modelled = s.modelled and flag == 1 and sub.kinds == ["LIN"]
            names.append(sub.name); flags.append(flag); subs.append((flag, sub)); s.kinds += sub.kinds; s.convs += sub.convs
        for flag, sub in reversed(subs):      # ConcatenatedModel::enableModelOptimization
            if flag and (not sub.hp or not inputD): paramD = False
            if not sub.hi: inputD = False
        s.hp, s.hi = paramD, inputD
        s.name = "ConcatenatedModel[" + ">>".join(names) + "]"; s.shape = "layers=%d optimize=%s" % (n, "".join(map(str, flags))); return s, q
    if k == "CLS":
        off, ni, no, nb = I(1), I(2), I(3), I(4)
        s.np = ni * no + (no if off else 0); s.nin, s.nout = ni, 1; s.modelled = True; s.hp = s.hi = False
        s.name = "Classifier<LinearModel>"; s.shape = "nin=%d classes=%d offset=%d bias=%d" % (ni, no, off, 1 if nb else 0); return s, p + 5 + nb
    raise ValueError("unknown kind " + k)


class Case:
    def __init__(self, spec, params, X, C, tag=""):
        self.spec, self.params, self.X, self.C, self.tag = spec, params, X, C, tag
        self.an, _ = analyse(spec.split())
    def line(self):
        nin = len(self.X[0]) if self.X else self.an.nin
        xs = " ".join(hx(v) for r in self.X for v in r)
        l = "%s | %s | %d %d %s" % (self.spec, " ".join(hx(v) for v in self.params), len(self.X), nin, xs)
        if self.C is not None: l += " | " + " ".join(hx(v) for r in self.C for v in r)
        return l
    @staticmethod
    def parse(line):
        seg = line.split(" | ")
        params = [fh(x) for x in seg[1].split()]
        t = seg[2].split(); B, nin = int(t[0]), int(t[1]); v = [fh(x) for x in t[2:]]
        X = [v[i * nin:(i + 1) * nin] for i in range(B)]
        C = None
        if len(seg) > 3:
            c = [fh(x) for x in seg[3].split()]; nc = len(c) // B if B else 0
            C = [c[i * nc:(i + 1) * nc] for i in range(B)]
        return Case(seg[0].strip(), params, X, C, "replay")


# ------------------------------------------------------------------------------------------------ generators
def dy(rng, lo, hi, den):
    return rng.randint(lo, hi) / float(den)

def gen_values(rng, n, positive=False, den=4, span=8):
    if positive: return [dy(rng, 1, span, den) for _ in range(n)]
    return [dy(rng, -span, span, den) for _ in range(n)]

def mk(rng, spec, positive=False, B=None, xden=2, xspan=6, pden=4, pspan=8, cspan=3, tag=""):
    an, _ = analyse(spec.split())
    B = B or rng.choice([1, 1, 2, 3, 4, 5])
    params = gen_values(rng, an.np, positive, pden, pspan)
    X = [gen_values(rng, an.nin, positive, xden, xspan) for _ in range(B)]
    C = [[float(rng.randint(-cspan, cspan)) for _ in range(an.nout)] for _ in range(B)]
    if rng.random() < 0.15: C = [[1.0 if (i == rng.randrange(max(an.nout, 1))) else 0.0 for i in range(an.nout)] for _ in range(B)]
    return Case(spec, params, X, C, tag)

def gen_lin(rng, act=None):
    a = rng.randrange(7) if act is None else act
    spec = "LIN %d %d %d %d" % (a, rng.randint(0, 1), rng.choice([1, 1, 2, 3, 4, 5]), rng.choice([1, 2, 2, 3, 4, 5]))
    return mk(rng, spec, positive=(a == 6), tag="lin")

def gen_net(rng):
    k = rng.randint(2, 4); w = [rng.choice([1, 2, 3, 4]) for _ in range(k + 1)]; parts = []; pos = False
    for i in range(k):
        a = rng.choice([0, 0, 1, 2, 3, 4, 5])
        if i == 0 and rng.random() < 0.15: a = 6; pos = True
        parts.append("1 LIN %d %d %d %d" % (a, rng.randint(0, 1), w[i], w[i + 1]))
    return mk(rng, "NET %d %s" % (k, " ".join(parts)), positive=pos, pspan=6, tag="net")

def gen_neu(rng):
    a = rng.randrange(7)
    return mk(rng, "NEU %d %d" % (a, rng.choice([1, 2, 3, 5])), positive=(a == 6), tag="neu")

def gen_nrm(rng):
    return mk(rng, "NRM %d %d" % (rng.choice([1, 2, 3, 5]), rng.randint(0, 1)), tag="nrm")

def conv_spec(rng, small=False):
    a = rng.choice([0, 0, 1, 2, 4]); Hh = rng.randint(1, 4 if small else 5); W = rng.randint(1, 4 if small else 5)
    C = rng.choice([1, 1, 2, 3]); F = rng.choice([1, 1, 2, 3]); fh_ = rng.randint(1, min(3, Hh)); fw = rng.randint(1, min(3, W))
    return "CONV %d %d %d %d %d %d %d %d" % (a, Hh, W, C, F, fh_, fw, rng.randint(0, 1)), (Hh, W, C, F, fh_, fw)

def gen_conv(rng):
    spec, _ = conv_spec(rng)
    return mk(rng, spec, B=rng.choice([1, 2, 3]), pspan=4, xspan=4, tag="conv")

def gen_conv_edge(rng):
    """Conv2DModel streams aimed at the case splits of the index arithmetic: 1x1 image, filter as large as (or, zero padded, larger than)
    the image, even filter sizes (2, 4: extra row/column of the backprop filters), one-sided filters (1xk, kx1), channels and filters > 1"""
    r = rng.randrange(6); a = rng.choice([0, 0, 0, 1]); C = rng.choice([1, 2, 3]); F = rng.choice([1, 2, 3]); pad = rng.randint(0, 1)
    if r == 0: Hh = W = 1; fh_ = fw = 1 if not pad else rng.randint(1, 3)
    elif r == 1: Hh = rng.randint(1, 4); W = rng.randint(1, 4); fh_, fw = Hh, W
    elif r == 2: Hh = rng.randint(2, 5); W = rng.randint(2, 5); fh_ = rng.choice([e for e in (2, 4) if e <= Hh]); fw = rng.choice([e for e in (1, 2, 3, 4) if e <= W])
    elif r == 3: Hh = rng.randint(1, 5); W = rng.randint(1, 5); fh_, fw = rng.choice([(1, rng.randint(1, W)), (rng.randint(1, Hh), 1)])
    elif r == 4: Hh = rng.randint(1, 3); W = rng.randint(1, 3); pad = 1; fh_ = Hh + rng.randint(0, 2); fw = W + rng.randint(0, 2)
    else: Hh = rng.randint(2, 4); W = rng.randint(2, 4); C = rng.choice([2, 3]); F = rng.choice([2, 3]); fh_ = rng.randint(1, Hh); fw = rng.randint(1, W)
    spec = "CONV %d %d %d %d %d %d %d %d" % (a, Hh, W, C, F, fh_, fw, pad)
    c = mk(rng, spec, B=rng.choice([1, 2, 3]), pspan=4, xspan=4, tag="conv-edge")
    if rng.random() < 0.5:       # integer stream
        c.params = [float(rng.randint(-3, 3)) for _ in c.params]; c.X = [[float(rng.randint(-3, 3)) for _ in r_] for r_ in c.X]
    return c

def gen_pool(rng):
    ph, pw = rng.randint(1, 3), rng.randint(1, 3); Hh = rng.randint(ph, 6); W = rng.randint(pw, 6); C = rng.choice([1, 2, 3])
    c = mk(rng, "POOL %d %d %d %d %d" % (Hh, W, C, ph, pw), B=rng.choice([1, 2, 3]), xden=8, xspan=60, tag="pool")
    return c

def gen_pool_ties(rng):
    """max pooling streams aimed at the tie rule (small integer pixels: equal maxima inside a patch are the rule), image sizes not
    divisible by the patch (pixels outside all patches), 1x1 patches, one patch as large as the image, 1x1 images"""
    r = rng.randrange(5); C = rng.choice([1, 2, 3])
    if r == 0: ph, pw = rng.randint(2, 3), rng.randint(2, 3); Hh = ph * rng.randint(1, 2) + rng.randint(1, ph - 1); W = pw * rng.randint(1, 2) + rng.randint(1, pw - 1)
    elif r == 1: ph = pw = 1; Hh = rng.randint(1, 4); W = rng.randint(1, 4)
    elif r == 2: Hh = rng.randint(1, 4); W = rng.randint(1, 4); ph, pw = Hh, W
    elif r == 3: Hh = W = ph = pw = 1
    else: ph, pw = rng.randint(1, 3), rng.randint(1, 3); Hh = rng.randint(ph, 6); W = rng.randint(pw, 6)
    c = mk(rng, "POOL %d %d %d %d %d" % (Hh, W, C, ph, pw), B=rng.choice([1, 2, 3]), tag="pool-ties")
    lo, hi = rng.choice([(0, 1), (-1, 1), (-2, 2), (3, 3)])
    c.X = [[float(rng.randint(lo, hi)) for _ in r_] for r_ in c.X]
    return c

def gen_resize_edge(rng):
    """ResizeLayer: non-square targets (the sample points of setStructure), 1x1 / 1xk images and targets, power-of-two and other sizes"""
    r = rng.randrange(4); C = rng.choice([1, 2, 3])
    if r == 0: Hh, W, oh, ow = rng.randint(1, 4), rng.randint(1, 4), 1, 1
    elif r == 1: Hh, W = 1, 1; oh, ow = rng.randint(1, 5), rng.randint(1, 5)
    elif r == 2: Hh, W = rng.randint(1, 5), rng.randint(1, 5); oh, ow = rng.choice([(1, 5), (5, 1), (2, 7), (7, 2), (3, 4), (4, 3)])
    else: Hh, W = rng.randint(2, 5), rng.randint(2, 5); oh, ow = rng.choice([1, 2, 4, 8]), rng.choice([1, 2, 4, 8])
    c = mk(rng, "RESIZE %d %d %d %d %d" % (Hh, W, C, oh, ow), B=rng.choice([1, 2, 3]), tag="resize-edge")
    if rng.random() < 0.5: c.X = [[float(rng.randint(-3, 3)) for _ in r_] for r_ in c.X]
    return c

def gen_resize(rng):
    return mk(rng, "RESIZE %d %d %d %d %d" % (rng.randint(2, 5), rng.randint(2, 5), rng.choice([1, 2]), rng.randint(1, 7), rng.randint(1, 7)), B=rng.choice([1, 2, 3]), tag="resize")

def gen_rbf(rng):
    ni, no = rng.randint(1, 4), rng.randint(1, 4)
    g = " ".join(hx(dy(rng, 1, 8, 8)) for _ in range(no))
    spec = "RBF %d %d %d %d %s" % (ni, no, rng.randint(0, 1), rng.randint(0, 1), g)
    return mk(rng, spec, xspan=3, pden=8, pspan=8, tag="rbf")

def gen_cmac(rng):
    ni, no = rng.randint(1, 2), rng.randint(1, 3); tilings, tiles = rng.randint(1, 3), rng.randint(2, 4)
    c = mk(rng, "CMAC %d %d %d %d 0 1" % (ni, no, tilings, tiles), tag="cmac")
    c.X = [[rng.randint(0, 57) / 64.0 for _ in range(ni)] for _ in c.X]
    return c

def gen_kexp(rng):
    kern = rng.choice([0, 1, 1, 2]); nb = rng.randint(1, 5); ni = rng.randint(1, 3); no = rng.randint(1, 3)
    basis = " ".join(hx(v) for v in gen_values(rng, nb * ni, den=2, span=4))
    return mk(rng, "KEXP %d %s %d %d %d %d %d %s" % (kern, hx(dy(rng, 1, 8, 8)), rng.randint(1, 3), nb, ni, no, rng.randint(0, 1), basis), tag="kexp")

def gen_kexb(rng):
    """KernelExpansion with the basis in explicitly given, unequal batches (1+3+2, single elements, one batch), Linear / Polynomial
    (degree 2, 3; exact on integer data) / Gaussian kernels, with and without offset, rows of alpha that are zero, one and several outputs"""
    kern = rng.choice([0, 0, 2, 2, 3, 1]); ni = rng.randint(1, 3); no = rng.choice([1, 1, 2, 3]); off = rng.randint(0, 1)
    sz = rng.choice([[1], [2], [1, 1], [1, 3, 2], [3, 1], [2, 2, 1], [1, 1, 1, 1], [4], [2, 3]]); nb = sum(sz)
    par = hx(float(rng.randint(0, 2))) if kern >= 2 else hx(dy(rng, 1, 8, 8))
    basis = " ".join(hx(float(rng.randint(-2, 2))) for _ in range(nb * ni))
    c = mk(rng, "KEXB %d %s %d %s %d %d %d %s" % (kern, par, len(sz), " ".join(map(str, sz)), ni, no, off, basis), tag="kexb")
    c.params = [float(rng.randint(-3, 3)) for _ in c.params]; c.X = [[float(rng.randint(-2, 2)) for _ in r_] for r_ in c.X]
    for r in range(nb):                       # zero rows of alpha
        if rng.random() < 0.3:
            for o in range(no): c.params[r * no + o] = 0.0
    return c

def gen_ens(rng):
    m = rng.randint(1, 3); ni, no = rng.randint(1, 3), rng.randint(1, 3); parts = []
    for _ in range(m):
        off = rng.randint(0, 1); npar = ni * no + (no if off else 0)
        parts.append("%s LIN 0 %d %d %d %s" % (hx(dy(rng, 1, 8, 4)), off, ni, no, " ".join(hx(v) for v in gen_values(rng, npar))))
    return mk(rng, "ENS %d %s" % (m, " ".join(parts)), tag="ens")

def gen_netx(rng):
    """heterogeneous concatenation with optimisation flags on/off"""
    parts = []; width = None
    def add(spec, flag=None):
        an, _ = analyse(spec.split())
        flag = rng.choice([1, 1, 0]) if flag is None else flag
        inline = "" if flag else (" " + " ".join(hx(v) for v in gen_values(rng, an.np, den=4, span=6)) if an.np else "")
        parts.append("%d %s%s" % (flag, spec, inline)); return an.nout
    r = rng.random()
    if r < 0.35:
        spec, (Hh, W, C, F, fh_, fw) = conv_spec(rng, small=True); an, _ = analyse(spec.split()); width = add(spec)
        pad = int(spec.split()[8]); oh, ow = (Hh, W) if pad else (Hh - fh_ + 1, W - fw + 1)
        if rng.random() < 0.5 and oh >= 1 and ow >= 1:
            ph, pw = rng.randint(1, min(2, oh)), rng.randint(1, min(2, ow)); width = add("POOL %d %d %d %d %d" % (oh, ow, F, ph, pw))
    elif r < 0.5:
        ni, no = rng.randint(1, 3), rng.randint(1, 3)
        width = add("RBF %d %d 1 1 %s" % (ni, no, " ".join(hx(dy(rng, 1, 8, 8)) for _ in range(no))), 1)
    elif r < 0.6:
        width = add("NRM %d %d" % (rng.randint(1, 3), rng.randint(0, 1)))
    else:
        width = add("LIN %d %d %d %d" % (rng.choice([0, 1, 2, 3, 4, 5]), rng.randint(0, 1), rng.randint(1, 4), rng.randint(1, 4)))
    for _ in range(rng.randint(1, 3)):
        x = rng.random()
        if x < 0.35: width = add("NEU %d %d" % (rng.choice([0, 1, 2, 3, 4, 5]), width))
        else:
            no = rng.randint(1, 4); width = add("LIN %d %d %d %d" % (rng.choice([0, 0, 1, 2, 3, 4, 5]), rng.randint(0, 1), width, no))
    return mk(rng, "NET %d %s" % (len(parts), " ".join(parts)), B=rng.choice([1, 2, 3]), pspan=5, xspan=4, tag="netx")

def gen_cls(rng):
    off = rng.randint(0, 1); ni = rng.randint(1, 4); no = rng.choice([1, 1, 2, 3, 4]); nb = rng.choice([0, no])
    bias = " ".join(hx(float(rng.randint(-3, 3))) for _ in range(nb))
    spec = ("CLS %d %d %d %d %s" % (off, ni, no, nb, bias)).strip()
    an, _ = analyse(spec.split())
    params = [float(rng.randint(-2, 2)) for _ in range(an.np)]
    X = [[float(rng.randint(-2, 2)) for _ in range(ni)] for _ in range(rng.randint(1, 5))]
    return Case(spec, params, X, None, "cls")

def gen_row_scales(rng):
    """rows of very different magnitude inside ONE batch (row-wise activations: softmax, normaliser): a row must not see its batch
    companions - e.g. a softmax that stabilises with the maximum of the whole batch underflows the rows far below it"""
    a = rng.choice([5, 5, 5, 6, 2, 3])
    n = rng.choice([2, 3, 5])
    if rng.random() < 0.5: spec = "NEU %d %d" % (a, n)
    else: spec = "LIN %d %d %d %d" % (a, rng.randint(0, 1), n, rng.choice([2, 3]))
    c = mk(rng, spec, positive=(a == 6), B=rng.choice([2, 3, 4]), tag="rowscale")
    big = rng.choice([300.0, 400.0, 380.0, 90.0])          # |pre-activation| stays below ~410: exp() neither overflows nor underflows on its own
    for r, row in enumerate(c.X):
        sh = [big, -big, 0.0, big / 2][r % 4] if a != 6 else [big, 1.0, 0.5, big / 2][r % 4]
        c.X[r] = [(v + sh) if a != 6 else (v * sh) for v in row]
    if spec.startswith("LIN") and a != 6:        # weights that keep the scale gap (identity-like, small integers)
        an, _ = analyse(spec.split())
        c.params = [1.0 if (i % (an.nin + 1) == 0) else 0.0 for i in range(an.np)]
    return c

GENS = [(gen_row_scales, 2), (gen_lin, 7), (gen_net, 5), (gen_neu, 2), (gen_nrm, 1), (gen_conv, 4), (gen_conv_edge, 4), (gen_pool, 2), (gen_pool_ties, 3), (gen_resize, 2), (gen_resize_edge, 2), (gen_rbf, 2), (gen_cmac, 2),
        (gen_kexp, 2), (gen_kexb, 3), (gen_ens, 2), (gen_netx, 5), (gen_cls, 3)]

def gen_cases(rng, n):
    tot = sum(w for _, w in GENS); out = []
    for g, w in GENS:
        for _ in range(max(2, n * w // tot)): out.append(g(rng))
    for a in range(7):            # every activation with both offset settings and the degenerate shapes
        for off in (0, 1):
            out.append(mk(rng, "LIN %d %d 1 1" % (a, off), positive=(a == 6), B=1, tag="lin"))
            out.append(mk(rng, "LIN %d %d 3 2" % (a, off), positive=(a == 6), B=3, tag="lin"))
    return out


# ------------------------------------------------------------------------------------------------ spec monitor
def close(a, b, scale, tol):
    if a == b: return True
    if a != a or b != b or math.isinf(a) or math.isinf(b): return False
    return abs(a - b) <= tol * max(scale, 1e-300)

def vdiff(a, b, exact, tol=TOL):
    """index of first differing entry or None"""
    if len(a) != len(b): return -1
    sc = max([abs(x) for x in a + b if x == x and not math.isinf(x)] + [1.0])
    for i, (x, y) in enumerate(zip(a, b)):
        if exact:
            if not (x == y): return i
        elif not close(x, y, sc, tol): return i
    return None

def short(name):
    return name if len(name) < 90 else name[:87] + "..."

def monitor(case, d):
    """the property's predicates on the implementation's output; returns list of (key, message)"""
    an = case.an; bad = []; nm = an.kname; ks = an.kshape; full = "%s %s" % (an.name, an.shape)
    def add(check, msg): bad.append(("%s:%s %s" % (nm, check, ks), "%s: %s" % (full, msg)))
    if d is None: add("exception-or-crash", "no result"); return bad
    if "ERR" in d and d["ERR"] == "paramcount":
        add("parameter-count", "numberOfParameters() = %d, the structure has %d parameters" % (int(d["np"][0]), an.np)); return bad
    if "ERR" in d: add(d["ERR"], d["ERR"]); return bad
    B = len(case.X); at = lambda v, i: (v[i] if 0 <= i < len(v) else "<length %d>" % len(v))
    # ---- parameters
    if int(d["np"][0]) != an.np: add("parameter-count", "numberOfParameters() = %d, expected %d" % (int(d["np"][0]), an.np))
    if len(d["rt"]) != int(d["np"][0]): add("parameter-length", "parameterVector() has %d entries, numberOfParameters() = %d" % (len(d["rt"]), int(d["np"][0])))
    else:
        i = vdiff(d["rt"], case.params, "RBF" not in an.kinds, 1e-12)       # RBFLayer stores exp(p) and returns log(gamma)
        if i is not None: add("parameter-roundtrip", "parameterVector()[%d] = %r after setParameterVector with %r" % (i, at(d["rt"], i), at(case.params, i)))
    # ---- batch vs single
    ref = d["es"] if "es" in d else d["eb"]
    nout = len(ref) // B if B else 0
    for k, what in (("eb", "batch eval without state"), ("e1", "eval(InputType)"), ("eo", "operator()(InputType) / base-class eval(InputType)"), ("ea", "the row alone as a batch of one"),
                    ("er", "the reversed batch"), ("ex", "the row inside a batch padded with other rows"), ("eg", "batch eval into an output buffer holding old values")):
        if k not in d or (k == "eb" and "es" not in d): continue
        i = vdiff(d[k], ref, an.exact)
        if i is not None:
            r = i // nout if (nout and i >= 0) else 0
            sub = "single-eval-with-bias" if (an.kinds == ["CLS"] and k in ("e1", "eo") and "bias=1" in ks) else "batch-vs-single(%s)" % k
            add(sub, "row %d: %s gives %r, batch evaluation%s gives %r" % (r, what, at(d[k], i), " with state" if "es" in d else "", at(ref, i)))
    if "ft" in d:
        ft = int(d["ft"][0]); hp, hi = bool(ft & 1), bool(ft & 4)
        if (hp, hi) != (an.hp, an.hi): add("advertised-derivatives", "features %d, expected parameter=%s input=%s" % (ft, an.hp, an.hi))
        np_ = int(d["np"][0])
        if hp and len(d.get("wpd", [])) != np_: add("parameter-derivative-size", "gradient has %d entries for %d parameters" % (len(d.get("wpd", [])), np_))
        if hi and len(d.get("wid", [])) != B * an.nin: add("input-derivative-size", "input derivative has %d entries for a %dx%d batch" % (len(d.get("wid", [])), B, an.nin))
        # ---- results overwrite their output argument and do not consume the state
        if hp:
            i = vdiff(d["wpd2"], d["wpd"], True)
            if i is not None: add("stale-output-buffer(parameter-derivative)", "weightedParameterDerivative into a gradient vector holding old values gives [%d] = %r, into a fresh vector %r" % (i, at(d["wpd2"], i), at(d["wpd"], i)))
        if hi:
            i = vdiff(d["wid2"], d["wid"], True)
            if i is not None: add("stale-output-buffer(input-derivative)", "weightedInputDerivative into a matrix holding old values (777) gives [%d] = %r, into a fresh matrix %r" % (i, at(d["wid2"], i), at(d["wid"], i)))
        # ---- combined = separate
        if hp and hi:
            i = vdiff(d["wdp"], d["wpd"], an.exact, 1e-13)
            if i is not None: add("combined-vs-separate(parameter)", "weightedDerivatives gradient[%d] = %r, weightedParameterDerivative gives %r" % (i, at(d["wdp"], i), at(d["wpd"], i)))
            i = vdiff(d["wdi"], d["wid"], an.exact, 1e-13)
            if i is not None: add("combined-vs-separate(input)", "weightedDerivatives input derivative[%d] = %r, weightedInputDerivative gives %r" % (i, at(d["wdi"], i), at(d["wid"], i)))
        # ---- finite differences
        s0 = d["s0"][0]
        osc = max([1.0] + [abs(x) for x in ref if x == x and not math.isinf(x)] + d.get("osc", []))
        for kind, g, f, kk in (("parameter", d.get("wpd") if hp else None, d.get("fp"), d.get("kp")), ("input", d.get("wid") if hi else None, d.get("fi"), d.get("ki"))):
            if g is None or f is None or len(f) != 4 * len(g) or kk is None or len(kk) != 2 * len(g): continue
            sc = max([1.0, abs(s0)] + [abs(x) for x in g if x == x])
            worst = None; kinks = 0
            for i in range(len(g)):
                p, m, p2, m2 = f[4 * i:4 * i + 4]
                fwd, bwd, cen, cen2 = (p - s0) / H, (s0 - m) / H, (p - m) / (2 * H), (p2 - m2) / (4 * H)
                if not (p == p and m == m and g[i] == g[i]):
                    worst = (i, g[i], cen, float("inf")); break
                # kink of a rectifier / max / tile border within 2h (forward != backward quotient) or of a fast sigmoid at 0 (C1 only: the
                # central quotients for h and 2h differ by O(h) instead of O(h^2)): excluded by the property's side condition, counted
                # (third test: a slope jump J at the point makes the second differences for h and 2h disagree by J*h/2; they agree to O(h^4) otherwise)
                # the same two tests on every single output entry (harness: k1, k2), since kinks of two entries can cancel in the weighted sum
                if abs(fwd - bwd) > 1e-3 * sc or abs(cen - cen2) > 1e-7 * sc or abs((p - 2 * s0 + m) - (p2 - 2 * s0 + m2) / 4) > 1e-12 * sc \
                   or kk[2 * i] > 1e-12 * osc or kk[2 * i + 1] > 1e-7 * osc: kinks += 1; continue
                err = abs(g[i] - cen)
                if (err > 0 if an.exact else err > FD_TOL * sc) and (worst is None or err > worst[3]): worst = (i, g[i], cen, err)
            d["kinks"] = d.get("kinks", 0) + kinks; d["fd_checked"] = d.get("fd_checked", 0) + len(g) - kinks
            if worst:
                i, gi, cen, err = worst
                where = "parameter %d" % i if kind == "parameter" else "input (%d,%d)" % (i // max(an.nin, 1), i % max(an.nin, 1))
                add("%s-derivative" % kind, "weighted %s derivative at %s = %r, central difference of the weighted output sum = %r (|error| %.3g)" % (kind, where, gi, cen, err))
    return bad


# ------------------------------------------------------------------------------------------------ main
def main():
    ck = Check(PID)
    ck.trusted = DEFAULT_TRUSTED + [
        "float instantiation of the model uses OCaml's IEEE double operations and libm tanh/exp; comparison exact for Linear/Rectifier activations on dyadic inputs, 1e-12 relative otherwise",
        "modelled not verified: BLAS gemm/gemv summation order (irrelevant on the exact stream), libm tanh/exp/log, remora expression templates, distanceSqr's choice of algorithm by batch size",
        "in a non-exact ConcatenatedModel case a rectifier argument or a pooling gap below 1e-10 (relative; reported by the model driver as km) is treated as decided by rounding: derivatives are then not compared, values are",
        "finite differences (h = 2^-17, central, kinks detected by forward/backward disagreement) are the ground truth of the derivative monitor"]
    ck.assumptions = [
        "derivative theorems: element-wise activations enter as a pair (phi, dphi) with the derivative written in the OUTPUT, as in NeuronLayers.h; that dphi o phi is the analytic derivative of tanh/logistic/fast sigmoid is monitored by finite differences, not proved",
        "softmax / normaliser: derivative theorems over every field with the dual quotient / exponential for LinearModel layers (softmax also in concatenations); inside Conv2DModel / NeuronLayer compared only; RBFLayer parameter derivative: compared only",
        "KernelExpansion: the kernel is an abstract function in the theorems; the old KEXP cases (basis cut by createDataFromRange) are compared against a one-batch model, justified by C04_kexp_blocks",
        "max pooling is not differentiable at ties: the theorems give the tie rule (first maximum) and the exact derivative where the arg max does not move; the comparison with the model covers ties exactly",
        "ResizeLayer: proved linear with the scatter derivative as adjoint for arbitrary weights; that the weights are B-spline weights is not proved; the sample points of setStructure are modelled as coded",
        "RBFLayer round trip theorem assumes log(exp x) = x (reals); in floating point the check compares at 1e-12",
        "derivatives are monitored away from kinks (rectifier/fast-sigmoid at 0, pooling ties, CMAC tile borders): entries whose forward and backward difference quotients disagree are skipped and counted",
        "NormalizerNeuron is exercised with positive inputs and weights (its documented domain)",
        "well-shaped arguments (the SIZE_CHECK preconditions of the library)"]
    ck.proofs()
    model = extract_model(PID, "C04Extract.v", "c04_driver.ml")
    exe, err = cxx_build("c04_models", [os.path.join(ROOT, "harness", "c04_models.cpp")] + repo_src(*SRC))
    if exe is None:
        ck.oblige("harness builds against /repo", False, err); ck.finish()
    tmpd = os.path.join(BUILD, "tmp", PID); os.makedirs(tmpd, exist_ok=True)
    big = ck.tier == "thorough"; rng = ck.rng

    if ck.replay:
        cases = [Case.parse(l) for l in open(ck.replay).read().split("\n") if l.strip() and not l.startswith("#")]
    else:
        cases = gen_cases(rng, 2500 if not big else 120000)
        cdir = os.path.join(ROOT, "corpus", PID)
        if os.path.isdir(cdir):
            for f in sorted(os.listdir(cdir)):
                cases += [Case.parse(l) for l in open(os.path.join(cdir, f)).read().split("\n") if l.strip() and not l.startswith("#")]

    def run_impl(cs, name):
        # tiny matrices: one thread (OpenBLAS / OpenMP worker threads only spin, badly so on a loaded machine)
        outs = run_cases(exe, [[c.line()] for c in cs], os.path.join(tmpd, name), env={"OMP_NUM_THREADS": "1", "OPENBLAS_NUM_THREADS": "1"})
        return [(o[0] if o else "CRASH rc=%s %s" % (rc, e.strip()[-200:])) for (o, rc, e) in outs]

    def run_model(cs, name):
        rc, ol, err = run_lines(model, [c.line() for c in cs], os.path.join(tmpd, name))
        if rc != 0 or len(ol) != len(cs): raise RuntimeError("model driver failed: rc=%s %s" % (rc, err[-500:]))
        return ol

    def compare(case, dm, di):
        """model vs implementation on the keys the model prints"""
        for k in ("np", "rt", "ft", "eb", "e1", "wpd", "wid", "wdp", "wdi"):
            if k in dm:
                if k not in di: return "%s missing" % k
                # model_exact: the float instantiation mirrors the order of the floating point operations of the C++ (ResizeLayer)
                i = vdiff(dm[k], di[k], case.an.exact or getattr(case.an, "model_exact", False) or k in ("np", "rt", "ft"))
                if i is not None: return "%s[%d]: model %r implementation %r" % (k, i, dm[k][i] if i >= 0 else len(dm[k]), di[k][i] if i >= 0 else len(di[k]))
        return None

    def shrink(case, key):
        """smallest set of batch rows (ddmin) on which the monitor still reports `key`"""
        if len(case.X) < 2: return case
        def fails(rows):
            c = Case(case.spec, case.params, [case.X[r] for r in rows], None if case.C is None else [case.C[r] for r in rows])
            o = run_impl([c], "shrink.txt")[0]
            return any(k == key for k, _ in monitor(c, parse_out(o)))
        rows = ddmin(list(range(len(case.X))), fails, max_runs=40)
        return Case(case.spec, case.params, [case.X[r] for r in rows], None if case.C is None else [case.C[r] for r in rows])

    iout = run_impl(cases, "impl_in.txt")
    mout = run_model(cases, "model_in.txt")
    evals = 0; nontrivial = set(); seen = {}; nfail = 0; nknown = 0; dis = []; kinks = 0; per_class = {}; ncmp = 0; allkeys = {}; faillog = []; fdn = 0; famcount = {}; nrep = 0
    for c, io, mo in zip(cases, iout, mout):
        di = parse_out(io)
        if di is None and not io.startswith("OK"):
            key = "%s:exception-or-crash %s" % (c.an.kname, c.an.kshape); msgs = [(key, "`%s`: %s" % (c.spec[:120], io[:300]))]
        else:
            msgs = monitor(c, di)
        B = len(c.X)
        evals += 6 * B + 4 + (len(di.get("fp", [])) + len(di.get("fi", [])) if di else 0)
        for key, m_ in msgs:
            allkeys[key] = allkeys.get(key, 0) + 1; faillog.append("# %s :: %s\n%s" % (key, m_, c.line()))
        kinks += (di or {}).get("kinks", 0); fdn += (di or {}).get("fd_checked", 0)
        cls = c.an.name.split("[")[0].split("<")[0]; per_class[cls] = per_class.get(cls, 0) + 1
        if B >= 1 and (c.an.np > 0 or c.an.nin > 0): nontrivial.add(c.line())
        for key, msg in msgs:
            if ck.match_known(key) is not None: nknown += 1
            else: nfail += 1
            fam = key.split(" ")[0]; known = ck.match_known(key) is not None
            if known and key not in seen:
                seen[key] = None; ck.violation(key, {}, msg)        # prints KNOWN-FINDING once per finding, no replay slot used
            elif key not in seen and famcount.get(fam, 0) < 2 and nrep < 12:
                famcount[fam] = famcount.get(fam, 0) + 1; nrep += 1
                small = shrink(c, key)
                so = run_impl([small], "small.txt")[0]
                sm = [m for k, m in monitor(small, parse_out(so)) if k == key] if so.startswith("OK") else [so[:300]]
                cf = ck.write_replay("case_%d.txt" % nrep, "# %s\n%s\n" % (key, small.line()))
                seen[key] = cf
                ck.violation(key, {"case_file": cf, "case": small.line(), "model": c.an.name, "shape": c.an.shape, "detail": getattr(c.an, "detail", ""),
                                   "monitor": sm or [msg], "implementation_output": so[:3000], "replay_cmd": "python3 tools/c04.py --replay %s" % cf},
                             "spec monitor fails on the implementation: %s" % (sm or [msg])[0])
        if not msgs and mo.startswith("OK"):
            ncmp += 1
            why = compare(c, parse_out(mo), di)
            if why: dis.append((c, why, mo, io))
        elif mo.startswith("MODELERR"):
            raise RuntimeError("model driver: %s on %s" % (mo, c.line()[:200]))
    # A derivative disagreement on a NON-exact case may be a rounding-decided kink: a rectifier argument that is 0 in exact arithmetic
    # (e.g. a weight row orthogonal to the previous layer) comes out as 0 or +-1e-17 depending on the summation order (BLAS vs. the model's
    # left-to-right sums), and the two sides take different one-sided derivatives.  The model driver reports the kink margin km =
    # min |rectifier argument| / (1 + sum |w_i x_i| + |b|); with km < 1e-10 on a non-dyadic case the point is non-differentiable up to
    # rounding and only the values (np, rt, eb, e1) are compared.  Exact (dyadic Linear/Rectifier) cases are always compared in full.
    real = [it for it in dis if not (it[1].split("[")[0] in ("wpd", "wid", "wdp", "wdi") and not it[0].an.exact
                                     and parse_out(it[2]).get("km", [1.0])[0] < 1e-10)]
    ck.notes["derivative_disagreements_at_rounding_decided_kinks"] = len(dis) - len(real); dis = real
    # every disagreeing case is dumped; the first one is the replay of the correspondence violation (reported whether or not
    # the monitor failed on other, unrelated cases: a disagreeing case is by construction one on which the monitor passed)
    if dis: ck.write_replay("cor_cases_all.txt", "".join("# %s\n%s\n" % (w, c_.line()) for c_, w, _, _ in dis[:50]))
    if dis:
        c, why, mo, io = dis[0]
        cf = ck.write_replay("cor_case.txt", "# correspondence: %s\n%s\n" % (why, c.line()))
        ck.violation("correspondence", {"case_file": cf, "case": c.line(), "differs": why, "model_output": mo[:3000], "implementation_output": io[:3000],
                                        "replay_cmd": "python3 tools/c04.py --replay %s" % cf, "broken": "correspondence C04Model vs %s" % c.an.name},
                     "correspondence C04Model vs %s no longer checks (%s; %d cases differ); the spec monitor passes on these inputs" % (c.an.name, why, len(dis)), no_input=True)
    ck.oblige("spec monitor (batch = single, parameter round trip, combined = separate, derivatives = finite differences) on %d cases of %d model classes" % (len(cases), len(per_class)),
              nfail == 0, "" if not nfail else "%d failures (%d distinct keys)" % (nfail, len([k for k in allkeys if ck.match_known(k) is None])))
    ck.oblige("correspondence C04 models (float instantiation) = LinearModel / NeuronLayer / Normalizer / Classifier / Conv2DModel / PoolingLayer / ResizeLayer / RBFLayer / CMACMap / Ensemble / KernelExpansion / ConcatenatedModel with optimisation flags on %d cases" % ncmp, not dis,
              "" if not dis else "%d disagreements, first: %s" % (len(dis), dis[0][1]))
    open(os.path.join(tmpd, "failing_cases.txt"), "w").write("\n".join(faillog) + "\n")
    ck.cov["evaluations"] = evals
    ck.cov["distinct_nontrivial"] = len(nontrivial)
    ck.cov["rule"] = ("one evaluation = one model evaluation call whose result enters a comparison (6 per batch row: with/without state, single, operator(), alone, reversed, padded) "
                      "plus one per finite-difference probe (4 per parameter and per input entry); non-trivial = distinct case lines with at least one row and one parameter or input")
    ck.cov["samples"] = [c.line()[:400] for c in cases[:1] + cases[len(cases) // 2:len(cases) // 2 + 1]]
    ck.notes["cases_per_class"] = per_class; ck.notes["cases_compared_with_model"] = ncmp
    ck.notes["finite_difference_entries_skipped_at_kinks"] = kinks; ck.notes["finite_difference_entries_checked"] = fdn
    ck.notes["failures_matching_known_findings"] = nknown; ck.notes["monitor_keys_reported"] = sorted(k for k in seen if seen[k]); ck.notes["failing_keys"] = allkeys
    if allkeys: log("failing keys: " + "; ".join("%s x%d" % kv for kv in sorted(allkeys.items())))
    ck.finish()

if __name__ == "__main__":
    main()
