#!/usr/bin/env python3
"""C16 — multi-class and linear SVM solvers are configuration-invariant and consistent.

  proofs           Properties_C16.v: box / simplex constraints for every history of update steps (model of
                   QpMcBoxDecomp / QpMcSimplexDecomp::updateSMO + updateVarsum), the analytic sub-solvers,
                   the working-set gains, the QpSparseArray merge scan; the STATE MODEL C16State (gradient, linear
                   term, variable / example tables, shrink / unshrink, every history); the linear solvers C16Linear
                   (constraints, w book-keeping); axiom-free over Q.
  correspondence   extracted C16Model (float instantiation) vs the compiled C++, EXACT:
                     free   solveQuadraticEdge / 2DBox / 2DTriangle, maximumGainQuadratic2D(OnLine), QpSparseArray::operator()
                     steps  every updateSMO call of the real QpMcSimplexDecomp / QpMcBoxDecomp in step-by-step
                            driven runs: model step applied to the implementation's own previous state
                     state  C16State.mstep / init_state: the FULL positional state (alpha, gradient, linear, both tables,
                            active counts, varsum, flags) after the constructor and after every updateSMO / shrink /
                            unshrink / addDeltaLinear of the same runs, one operation at a time from the implementation's
                            own previous state (tables read through '#define private public')
                     linear C16Linear.lin_step: every example step of the eight QpMcLinear* classes through their real
                            calcGradient / solveSub / updateWeightVectors; boxlin_epoch: QpBoxLinear::solve, one epoch per
                            call, schedule re-derived from the seed
  spec monitors    (independent of the model, evaluated on the implementation's output)
                     steps  constraints, gradient == linear - Q alpha with Q rebuilt from nu and an independent
                            kernel matrix (active variables after every step, all variables after unshrink),
                            variable/example tables (harness and, independently, on every positional state here: permutations,
                            cross indices, active prefix, labels / diagonal by data index, kernel matrix under the example
                            permutation after shrink), M == (centred) nu nu^T, rows sorted
                     linear box / simplex constraints, mu = alpha' - alpha, w' = w + step(mu) x (formulas written here),
                            QpBoxLinear: 0 <= alpha <= bound, w = sum alpha_i y_i x_i
                     mc     metamorphic runs of the real CSvmTrainer for all nine formulations: base (precomputed, no
                            shrinking) vs shrinking / cache sizes / float cache / permuted examples; tolerance derived
                            from the measured duality gap (primal objective and dual bound recomputed here)
                     bin2   two-class data: the multi-class machinery (solveMcBox/solveMcSimplex) vs the binary trainer
                     lin    LinearCSvmTrainer / QpMcLinear* vs kernel trainer with LinearKernel: primal objectives
"""
import os, sys, re, math, json
sys.path.insert(0, os.path.dirname(os.path.abspath(__file__)))
from vlib import *

PID = "C16"
TYPES = ["WW", "CS", "LLW", "ATM", "ATS", "ADM", "OVA", "MMR", "RI"]
S2Z = {"LLW", "ATM", "ATS", "ADM", "MMR"}          # sumToZero flag of CSvmTrainer::train (projection of the offsets)
# weight vectors constrained to sum to zero (M is the centred Gram matrix of nu): the above + the reinforced machine, whose
# M comes from setupMcParametersATMATS as well (Liu & Yuan's machine has the constraint; QpMcLinearReinforced agrees)
S2ZW = S2Z | {"RI"}
SIMPLEX = {"CS", "ATM", "ADM", "MMR"}
# two classes: multi-class machine with C  ==  binary machine with C * BINC[type]   (derivation in the MANIFEST note)
BINC = {"WW": 0.5, "CS": 0.5, "LLW": 0.5, "ADM": 0.5, "ATM": 0.5, "MMR": 0.5, "ATS": 1.0, "RI": 1.0, "OVA": 1.0}
EPSM = 2.220446049250313e-16
ENV1 = {"OMP_NUM_THREADS": "1", "OPENBLAS_NUM_THREADS": "1"}


def cardP(t, k):
    return {"WW": k - 1, "CS": k - 1, "LLW": k - 1, "ADM": k - 1, "ATM": k, "ATS": k, "RI": k, "MMR": 1}[t]

def fh(s):
    if s in ("nan", "-nan"): return float("nan")
    if s == "inf": return float("inf")
    if s == "-inf": return float("-inf")
    return float.fromhex(s) if "x" in s.lower() else float(s)

def hx(x):
    return float(x).hex()

def kern(c, a, b):
    if c["kernel"] == "lin": return math.fsum(u * v for u, v in zip(a, b))
    return math.exp(-c["gamma"] * math.fsum((u - v) * (u - v) for u, v in zip(a, b)))

def kmat(c, X, Z=None):
    Z = X if Z is None else Z
    return [[kern(c, a, b) for b in Z] for a in X]

# ------------------------------------------------------------------------------------------------
# primal objectives of the nine formulations, written from their definitions

def hinge(v):
    return v if v > 0 else 0.0

def loss(t, k, y, f):
    """f: decision values of one example (already centred for sum-to-zero machines)"""
    if t == "WW": return math.fsum(hinge(1 - 0.5 * (f[y] - f[c])) for c in range(k) if c != y)
    if t == "CS": return max([hinge(1 - 0.5 * (f[y] - f[c])) for c in range(k) if c != y] + [0.0])
    if t == "LLW": return math.fsum(hinge(1 + f[c]) for c in range(k) if c != y)
    if t == "ADM": return max([hinge(1 + f[c]) for c in range(k) if c != y] + [0.0])
    if t == "ATS": return math.fsum(hinge(1 - f[c]) if c == y else hinge(1 + f[c]) for c in range(k))
    if t == "ATM": return max(hinge(1 - f[c]) if c == y else hinge(1 + f[c]) for c in range(k))
    if t == "RI": return hinge((k - 1.0) - f[y]) + math.fsum(hinge(1 + f[c]) for c in range(k) if c != y)
    if t == "MMR": return hinge(1 - f[y])
    if t == "OVA": return math.fsum(hinge(1 - f[c]) if c == y else hinge(1 + f[c]) for c in range(k))
    raise ValueError(t)

def centre_rows(A):
    return [[v - math.fsum(r) / len(r) for v in r] for r in A]

def primal_kernel(t, k, K, y, A, b, C):
    """A: n x k expansion coefficients (n x 1 for the binary machine), b: offsets or []; returns (P, reg, F)"""
    n = len(y)
    if len(A[0]) == 1:           # binary machine
        a = [r[0] for r in A]
        Ka = [math.fsum(K[i][j] * a[j] for j in range(n)) for i in range(n)]
        reg = 0.5 * math.fsum(a[i] * Ka[i] for i in range(n))
        b0 = b[0] if b else 0.0
        F = [[Ka[i] + b0] for i in range(n)]
        ls = math.fsum(hinge(1 - (1 if y[i] else -1) * F[i][0]) for i in range(n))
        return reg + C * ls, reg, F
    if t in S2ZW: A = centre_rows(A)
    if t in S2Z and b: b = [v - math.fsum(b) / len(b) for v in b]
    reg = 0.0; F = [[0.0] * k for _ in range(n)]
    for c in range(k):
        a = [r[c] for r in A]
        Ka = [math.fsum(K[i][j] * a[j] for j in range(n) if a[j] != 0.0) for i in range(n)]
        reg += 0.5 * math.fsum(a[i] * Ka[i] for i in range(n))
        for i in range(n): F[i][c] = Ka[i] + (b[c] if b else 0.0)
    ls = math.fsum(loss(t, k, y[i], F[i]) for i in range(n))
    return reg + C * ls, reg, F

def primal_linear(t, k, X, y, W, b, C):
    n = len(y)
    if len(W) == 1:
        w = W[0]; reg = 0.5 * math.fsum(v * v for v in w); b0 = b[0] if b else 0.0
        F = [[math.fsum(u * v for u, v in zip(w, x)) + b0] for x in X]
        return reg + C * math.fsum(hinge(1 - (1 if y[i] else -1) * F[i][0]) for i in range(n)), reg, F
    if t in S2ZW:
        d = len(W[0]); m = [math.fsum(W[c][j] for c in range(k)) / k for j in range(d)]
        W = [[W[c][j] - m[j] for j in range(d)] for c in range(k)]
    reg = 0.5 * math.fsum(v * v for w in W for v in w)
    F = [[math.fsum(u * v for u, v in zip(W[c], x)) for c in range(k)] for x in X]
    return reg + C * math.fsum(loss(t, k, y[i], F[i]) for i in range(n)), reg, F

# ------------------------------------------------------------------------------------------------
# generation

def gen_data(rng, n, d, k, mode="int", empty_class=False):
    X = []
    for _ in range(n):
        if mode == "int": X.append([float(rng.randint(-3, 3)) for _ in range(d)])
        elif mode == "dyadic": X.append([rng.randint(-12, 12) / 4.0 for _ in range(d)])
        elif mode == "blobs": X.append(None)
        else: X.append([round(rng.gauss(0, 1.5), 3) for _ in range(d)])
    if mode != "blobs" and n >= 4 and rng.random() < 0.3:
        for _ in range(rng.randint(1, max(1, n // 5))):
            X[rng.randrange(n)] = list(X[rng.randrange(n)])           # duplicates, possibly with another label
    y = [i % k for i in range(n)]
    for i in range(k, n):
        if rng.random() < 0.6: y[i] = rng.randrange(k)
    rng.shuffle(y)
    for c in range(k):
        if c not in y: y[rng.randrange(n)] = c
    for c in range(k):                                                   # re-check after the repair above
        if c not in y:
            return gen_data(rng, n, d, k, mode, empty_class)
    if mode == "blobs":                                                  # class-wise clusters on an integer grid: mostly separable
        cen = [[rng.randint(-3, 3) for _ in range(d)] for _ in range(k)]
        X = [[float(cen[y[i]][j] + rng.choice([-1, 0, 0, 1])) for j in range(d)] for i in range(n)]
    return X, y

def data_tokens(c, perm=None):
    idx = perm if perm is not None else list(range(c["n"]))
    return [str(c["y"][i]) for i in idx] + [hx(v) for i in idx for v in c["x"][i]]

def cfg_tokens(c, v):
    return [hx(c["C"]), hx(c["eps"]), str(c.get("maxiter", 0)), c["kernel"], hx(c["gamma"]), str(v["shrink"]), str(v["pre"]),
            str(v["cache"]), v["ctype"]]

def train_line(c, v, rid, typ=None, C=None, probes=True):
    perm = v.get("perm")
    cc = dict(c)
    if C is not None: cc["C"] = C
    pr = c["probes"] if probes else []
    return " ".join(["TRAIN", rid, typ or c["type"], str(c["bias"])] + cfg_tokens(cc, v) + [str(c["n"]), str(c["d"]), str(len(pr))]
                    + data_tokens(c, perm) + [hx(x) for p in pr for x in p])

def raw_line(c, v, rid):
    return " ".join(["RAW", rid, c["type"], str(c["bias"])] + cfg_tokens(c, v) + [str(c["n"]), str(c["d"])] + data_tokens(c, v.get("perm")))

def lin_line(c, rid, seed, direct, bias=0):
    return " ".join(["LIN", rid, c["type"], str(bias), hx(c["C"]), hx(c["eps"]), str(c.get("maxiter", 0)), str(seed), str(direct),
                     str(c["n"]), str(c["d"])] + data_tokens(c))

BASE = {"shrink": 0, "pre": 1, "cache": 100000, "ctype": "d"}

def gen_variants(rng, n, big):
    vs = [dict(BASE)]
    vs.append({"shrink": 1, "pre": 1, "cache": 100000, "ctype": "d", "what": "shrinking"})
    vs.append({"shrink": 1, "pre": 0, "cache": rng.choice([2 * n, 3 * n, n * n]), "ctype": "d", "what": "cache+shrinking"})
    vs.append({"shrink": 0, "pre": 0, "cache": rng.choice([2 * n, 3 * n, 100000]), "ctype": "f", "what": "float-cache"})
    p = list(range(n)); rng.shuffle(p)
    vs.append({"shrink": rng.randint(0, 1), "pre": rng.randint(0, 1), "cache": rng.choice([2 * n, n * n, 100000]), "ctype": "d", "perm": p, "what": "permutation"})
    if big:
        p2 = list(range(n)); p2.reverse()
        vs.append({"shrink": 1, "pre": 0, "cache": 2 * n, "ctype": "f", "perm": p2, "what": "permutation+float-cache+shrinking"})
    return vs

def gen_stress(rng, gid, big, typ=None):
    """offset / shrinking stress: separable-ish integer data, large C, every variant shrinks, two permutations"""
    k = rng.choice([3, 3, 4]); n = rng.randint(7, 12 if not big else 16); d = rng.randint(2, 3)
    t = typ or rng.choice([x for x in TYPES if x != "OVA"])
    c = {"id": gid, "kind": "mc", "type": t, "n": n, "d": d, "k": k, "kernel": rng.choice(["lin", "lin", "rbf"]), "hard": 0, "maxiter": 200000}
    c["gamma"] = rng.choice([0.125, 0.5]) if c["kernel"] == "rbf" else 0.0
    c["x"], c["y"] = gen_data(rng, n, d, k, rng.choice(["blobs", "int"]))
    c["C"] = rng.choice([1.0, 10.0, 10.0, 100.0]); c["eps"] = 1e-3; c["bias"] = rng.randint(0, 1)
    c["probes"] = [list(x) for x in c["x"][:4]] + [[rng.randint(-8, 8) / 2.0 for _ in range(d)] for _ in range(2)]
    vs = [dict(BASE), {"shrink": 1, "pre": 1, "cache": 100000, "ctype": "d", "what": "shrinking"}]
    for j in range(3):
        p = list(range(n)); rng.shuffle(p)
        vs.append({"shrink": 1, "pre": rng.randint(0, 1), "cache": rng.choice([2 * n, n * n, 100000]), "ctype": "d", "perm": p, "what": "permutation"})
    c["variants"] = vs; c["seed"] = rng.randint(1, 10 ** 6)
    return c

def gen_group(rng, gid, kind, big, typ=None, hard=False):
    k = 2 if kind == "bin2" else rng.choice([3, 3, 3, 4, 4, 5])
    if kind == "lin" and rng.random() < 0.25: k = 2
    if hard:
        n = rng.randint(28, 40 if big else 34); d = 2; k = rng.choice([3, 4])
    else:
        n = rng.randint(max(k + 2, 5), 16 if not big else 24); d = rng.randint(1, 3)
    t = typ or rng.choice(TYPES)
    c = {"id": gid, "kind": kind, "type": t, "n": n, "d": d, "k": k}
    c["kernel"] = "lin" if kind == "lin" else rng.choice(["lin", "rbf", "rbf"])
    if hard: c["kernel"] = "rbf"
    c["gamma"] = (rng.choice([1.0, 2.0]) if hard else rng.choice([0.125, 0.5, 1.0])) if c["kernel"] == "rbf" else 0.0
    c["x"], c["y"] = gen_data(rng, n, d, k, "real" if hard else rng.choice(["int", "int", "dyadic"]))
    c["C"] = rng.choice([10.0, 100.0]) if hard else rng.choice([0.125, 0.5, 1.0, 1.0, 4.0, 10.0] + ([100.0] if big else []))
    c["eps"] = rng.choice([1e-3, 1e-4]) if not hard else 1e-3
    c["bias"] = 0 if kind == "lin" else (1 if rng.random() < 0.3 else 0)
    if hard: c["bias"] = 0
    c["probes"] = [list(x) for x in c["x"][:4]] + [[rng.randint(-8, 8) / 2.0 for _ in range(d)] for _ in range(3)]
    c["variants"] = gen_variants(rng, n, big)
    c["seed"] = rng.randint(1, 10 ** 6)
    c["hard"] = int(hard)
    c["maxiter"] = 200000
    return c

# ------------------------------------------------------------------------------------------------
# harness access

class Runner:
    def __init__(self, exe, tmpd, tl=8.0):
        self.exe = exe; self.tmpd = tmpd; self.numcache = {}; self.nruns = 0; self.tl = tl; self.hangs = 0
    def run(self, groups_lines, tag):
        """groups_lines: list of lists of command lines (one output line per command) -> list of (outputs, rc, err).
        A run that does not come back within the time limit yields the output line 'HANG' (the group is re-run line by
        line to find it), a crash 'CRASH rc'."""
        res = []
        for lines in groups_lines:
            self.nruns += len(lines)
            rc, out, err = run_lines(self.exe, lines, os.path.join(self.tmpd, tag + "_in.txt"), env=ENV1, timeout=self.tl * len(lines))
            if rc == 0 and len(out) == len(lines):
                res.append((out, 0, "")); continue
            outs = []
            for l in lines:
                tl = self.tl if self.hangs < 6 else min(self.tl, 3.0)
                rc1, o1, e1 = run_lines(self.exe, [l], os.path.join(self.tmpd, tag + "_one.txt"), env=ENV1, timeout=tl)
                if rc1 == 0 and len(o1) == 1: outs.append(o1[0])
                elif rc1 == -9: outs.append("HANG %s no result within %.0f s" % (l.split()[1], tl)); self.hangs += 1
                else: outs.append("CRASH %s rc=%s %s" % (l.split()[1], rc1, e1.strip()[-200:].replace("\n", " ")))
            res.append((outs, 0, ""))
        return res
    def num(self, t, k, ctype):
        key = (t, k, ctype)
        if key not in self.numcache:
            rc, out, err = run_lines(self.exe, ["NUM %s %d %s" % (t, k, ctype)], os.path.join(self.tmpd, "num_in.txt"), env=ENV1)
            tk = out[0].split()
            r, w = int(tk[1]), int(tk[2]); p = 5
            nu = [[fh(tk[p + i * w + j]) for j in range(w)] for i in range(r)]; p += r * w
            assert tk[p] == "M"; mr, mw = int(tk[p + 1]), int(tk[p + 2]); p += 3
            M = [[fh(tk[p + i * mw + j]) for j in range(mw)] for i in range(mr)]; p += mr * mw
            self.numcache[key] = {"nu": nu, "M": M, "s2z": int(tk[3]), "simplex": int(tk[4]), "sorted": int(tk[p + 1])}
        return self.numcache[key]

def parse_R(l):
    t = l.split()
    if t[0] != "R": return {"exc": l}
    r = {"id": t[1], "stop": int(t[2]), "iters": int(t[3]), "acc": fh(t[4]), "value": fh(t[5]), "cols": int(t[6]), "nb": int(t[7])}
    ia, ib, i_f = t.index("A"), t.index("B"), t.index("F")
    a = [fh(v) for v in t[ia + 1:ib]]; cols = r["cols"]
    r["A"] = [a[i * cols:(i + 1) * cols] for i in range(len(a) // cols)]
    r["B"] = [fh(v) for v in t[ib + 1:i_f]]
    f = [fh(v) for v in t[i_f + 1:]]
    r["F"] = [f[i * cols:(i + 1) * cols] for i in range(len(f) // cols)] if cols else []
    return r

def parse_W(l):
    t = l.split()
    if t[0] != "W": return {"exc": l}
    r = {"id": t[1], "stop": int(t[2]), "iters": int(t[3]), "acc": fh(t[4]), "value": fh(t[5]), "k": int(t[6]), "P": int(t[7])}
    ia, ib = t.index("A"), t.index("B")
    a = [fh(v) for v in t[ia + 1:ib]]; P = r["P"]
    r["alpha"] = [a[i * P:(i + 1) * P] for i in range(len(a) // P)]
    r["b"] = [fh(v) for v in t[ib + 1:]]
    return r

def parse_L(l):
    t = l.split()
    if t[0] != "L": return {"exc": l}
    r = {"id": t[1], "stop": int(t[2]), "iters": int(t[3]), "acc": fh(t[4]), "value": fh(t[5]), "rows": int(t[6])}
    iw, ib = t.index("W"), t.index("B")
    w = [fh(v) for v in t[iw + 1:ib]]; rows = r["rows"]; d = len(w) // rows if rows else 0
    r["W"] = [w[i * d:(i + 1) * d] for i in range(rows)]
    r["B"] = [fh(v) for v in t[ib + 1:]]
    return r

def fail_of(r, what, ctx=""):
    """a run that produced no result line: hang / crash / exception -> (key, message)"""
    l = r["exc"]
    if l.startswith("HANG"): return ("no-termination:" + what, "%sthe run does not terminate: %s" % (ctx, l))
    if l.startswith("CRASH"): return ("crash:" + what, "%sthe run crashed: %s" % (ctx, l))
    return ("exception:" + what, "%sthe run threw: %s" % (ctx, l))

def offset_search(t, k, y, G, b, C):
    """certificate of non-optimal offsets: with the weight vectors fixed, look for offsets with a smaller loss (pattern search
    over single coordinates and, for the sum-to-zero machines, pairs); returns the loss decrease C * (L(b) - L(b'))"""
    n = len(y)
    def L(bb):
        return math.fsum(loss(t, k, y[i], [G[i][c] + bb[c] for c in range(k)]) for i in range(n))
    cur = list(b); best = L(cur); start = best
    step = 1.0
    moves = []
    for c in range(k):
        if t in S2Z:
            for c2 in range(k):
                if c2 != c: moves.append((c, c2))
        else: moves.append((c, None))
    while step > 1e-5:
        improved = False
        for (c, c2) in moves:
            for sg in (1.0, -1.0):
                nb = list(cur); nb[c] += sg * step
                if c2 is not None: nb[c2] -= sg * step
                v = L(nb)
                if v < best - 1e-15 * (abs(best) + 1): best = v; cur = nb; improved = True
        if not improved: step *= 0.5
    return C * (start - best), cur

def unperm_rows(A, perm):
    if perm is None: return A
    out = [None] * len(A)
    for pos, i in enumerate(perm): out[i] = A[pos]
    return out

# ------------------------------------------------------------------------------------------------
# dual side, rebuilt here from the raw dual variables

def raw_to_decision(t, k, nu, y, alpha):
    P = len(alpha[0])
    return [[math.fsum(nu[y[i] * P + p][c] * alpha[i][p] for p in range(P)) for c in range(k)] for i in range(len(y))]

def check_feasible(t, C, alpha):
    """the property's clause: box resp. simplex constraints (the simplex up to the proved 1e-14 slack)"""
    for i, r in enumerate(alpha):
        for p, a in enumerate(r):
            if not (a >= 0.0): return "alpha(%d,%d)=%r is negative" % (i, p, a)
            if t not in SIMPLEX and not (a <= C): return "alpha(%d,%d)=%r exceeds C=%r" % (i, p, a, C)
        if t in SIMPLEX:
            s = math.fsum(r)
            if not (s <= C + 1e-14 * (1 + C) + 4 * EPSM * C * len(r)): return "sum_p alpha(%d,p)=%r exceeds C=%r" % (i, s, C)
    return None

def dual_value(t, k, nu, y, alpha, b, reg):
    P = len(alpha[0]); tot = 0.0
    for i in range(len(y)):
        for p in range(P):
            lin = (k - 1.0) if (t == "RI" and p == y[i]) else 1.0
            if b: lin -= math.fsum(nu[y[i] * P + p][c] * b[c] for c in range(k))
            tot += lin * alpha[i][p]
    return tot - reg

def binary_dual(K, y, A, C, b):
    """dual objective and feasibility of a binary machine / one OVA column from its expansion coefficients"""
    n = len(y); a = A
    for i in range(n):
        s = 1.0 if y[i] else -1.0
        if not (-1e-12 * C <= s * a[i] <= C * (1 + 1e-12)): return None, "coefficient %d = %r outside [0, C] (label sign %d, C=%r)" % (i, a[i], s, C)
    Ka = [math.fsum(K[i][j] * a[j] for j in range(n)) for i in range(n)]
    D = math.fsum((1.0 if y[i] else -1.0) * a[i] for i in range(n)) - 0.5 * math.fsum(a[i] * Ka[i] for i in range(n))
    return D, None

# ------------------------------------------------------------------------------------------------
# metamorphic groups

def gap_bound(c, k, ctype="d"):
    """largest duality gap a solution with KKT violation <= eps can have (box: n P C eps, simplex: 2 n C eps) + rounding slack"""
    n = c["n"]; t = c["type"]
    P = k if t == "OVA" else cardP(t, k)
    if k == 2 and c["kind"] != "bin2" and t != "OVA": P = 1
    base = (2.0 * n if t in SIMPLEX and not (k == 2 and c["kind"] != "bin2") else float(n * P)) * c["C"] * c["eps"]
    return base

def check_group(ck, R, c, stats):
    """returns list of (key, message); fills stats"""
    kind = c["kind"]
    if kind == "lin": return check_lin(ck, R, c, stats)
    if kind == "bin2": return check_bin2(ck, R, c, stats)
    return check_mc(ck, R, c, stats)

def fslack(c, P, ctype):
    return (64 * EPSM + (4e-7 if ctype == "f" else 0.0)) * (abs(P) + 1.0) * c["n"]

def check_mc(ck, R, c, stats):
    t, k, n, C = c["type"], c["k"], c["n"], c["C"]
    # d5: the run trains multi-class offsets with BiasSolver / BiasSolverSimplex (Rprop on a sub-gradient, known finding D5).
    # Every check whose outcome depends on the optimality of those offsets carries a key  <kind>:offset:...  ; OVA and the
    # binary machine solve the offset exactly through the equality constraint and never get such a key.
    d5 = bool(c["bias"]) and t != "OVA"
    vs = c["variants"]
    lines = []
    if t != "OVA": lines.append(raw_line(c, vs[0], c["id"] + "_raw"))
    for vi, v in enumerate(vs): lines.append(train_line(c, v, "%s_v%d" % (c["id"], vi)))
    (out, rc, err), = R.run([lines], "grp")
    if rc != 0 or len(out) != len(lines):
        return [("crash", "implementation crashed/stopped after %d of %d runs (rc=%s) %s" % (len(out), len(lines), rc, err.strip()[-200:]))]
    bad = []
    K = kmat(c, c["x"]); Kp = kmat(c, c["probes"], c["x"]); kpp = [kern(c, p, p) for p in c["probes"]]
    runs = []
    o = 0
    raw = None
    if t != "OVA":
        raw = parse_W(out[0]); o = 1
        if "exc" in raw: return [fail_of(raw, "base", "solveMc*: ")]
    for vi, v in enumerate(vs):
        r = parse_R(out[o + vi])
        if "exc" in r: return [fail_of(r, v.get("what", "base") + (":bias" if c["bias"] else ""), "train(): ")]
        r["A"] = unperm_rows(r["A"], v.get("perm")); r["v"] = v
        if len(r["A"]) != n or r["cols"] != k: return [("shape", "decision function has %d x %d coefficients for %d examples, %d classes" % (len(r["A"]), r["cols"], n, k))]
        P, reg, F = primal_kernel(t, k, K, c["y"], r["A"], r["B"], C)
        r["P"] = P; r["reg"] = reg; r["Ftrain"] = F
        # the model's own evaluation on the probe points against the expansion evaluated here
        for pi in range(len(c["probes"])):
            for cc in range(k):
                want = math.fsum(Kp[pi][j] * r["A"][j][cc] for j in range(n)) + (r["B"][cc] if r["B"] else 0.0)
                sc = math.fsum(abs(Kp[pi][j] * r["A"][j][cc]) for j in range(n)) + 1.0
                if not abs(want - r["F"][pi][cc]) <= 1e-9 * sc:
                    bad.append(("eval", "decision function output %r on probe %d class %d, expansion evaluated independently gives %r" % (r["F"][pi][cc], pi, cc, want)))
        runs.append(r)
    if bad: return bad[:1]
    base = runs[0]
    # ---- dual bound from the raw variables of the base configuration
    Dlow = None
    if t != "OVA":
        nm = R.num(t, k, "d")
        msg = check_feasible(t, C, raw["alpha"])
        if msg: bad.append(("constraints", "dual variables of the base run violate their constraints: " + msg))
        Araw = raw_to_decision(t, k, nm["nu"], c["y"], raw["alpha"])
        for i in range(n):
            for cc in range(k):
                if not abs(Araw[i][cc] - base["A"][i][cc]) <= 1e-12 * (abs(Araw[i][cc]) + C):
                    bad.append(("train-vs-raw", "train() coefficient (%d,%d)=%r but sum_p nu alpha of the same run = %r" % (i, cc, base["A"][i][cc], Araw[i][cc]))); break
            if bad: break
        Dlow = dual_value(t, k, nm["nu"], c["y"], raw["alpha"], raw["b"] if c["bias"] else [], base["reg"])
        if not abs(Dlow - raw["value"]) <= 1e-9 * (abs(Dlow) + 1) * n:
            bad.append(("dual-value", "solutionProperties().value=%r but the dual objective of the returned variables is %r" % (raw["value"], Dlow)))
    else:
        Dlow = 0.0
        for cc in range(k):
            col = [base["A"][i][cc] for i in range(n)]
            Dc, msg = binary_dual(K, [1 if yy == cc else 0 for yy in c["y"]], col, C, None)
            if msg: bad.append(("constraints", "OVA machine %d: %s" % (cc, msg))); break
            Dlow += Dc
            if c["bias"]:
                s = math.fsum(col)
                if not abs(s) <= 1e-9 * C * n: bad.append(("constraints", "OVA machine %d with offset: sum of coefficients %r != 0" % (cc, s))); break
    if bad: return bad[:1]
    bound = gap_bound(c, k)
    if d5:
        # offsets: a trained machine whose loss drops by more than the accuracy-implied amount when ONLY the offsets are moved
        # (weights fixed) is certifiably not a solution within the solver accuracy
        for r in runs:
            v = r["v"]; what = v.get("what", "base")
            bb = r["B"]
            if t in S2Z: bb = [x - math.fsum(bb) / k for x in bb]
            G = [[r["Ftrain"][i][cc] - bb[cc] for cc in range(k)] for i in range(n)]
            gain, nb = offset_search(t, k, c["y"], G, bb, C)
            tolb = 4 * bound + fslack(c, r["P"], v["ctype"])
            stats.setdefault("offset_ratio", []).append((gain / tolb, c["id"] + ":" + what))
            if gain > tolb:
                return [("offset:not-optimal:" + what, "offsets %s are not optimal: with the same weight vectors the offsets %s lower the primal objective from %r by %.6g (> %.3g implied by eps=%g)" % ([round(x, 5) for x in bb], [round(x, 5) for x in nb], r["P"], gain, tolb, c["eps"]))]
    rig = not d5                            # Dlow bounds the optimum of the whole problem (OVA with offset: equality constraint checked)
    stats.setdefault("gap_ratio", []).append(((base["P"] - Dlow) / bound, c["id"]))
    for r in runs:
        v = r["v"]; what = v.get("what", "base")
        sl = fslack(c, r["P"], v["ctype"])
        g = r["P"] - Dlow
        if r["stop"] == 4 or (not d5 and r["iters"] >= c.get("maxiter", 10 ** 18)):
            bad.append(("no-termination:" + what + (":bias" if c["bias"] else ""), "the solver ran into the iteration limit %d without reaching eps=%g (iterations %d, KKT violation %.3g)" % (c.get("maxiter", 0), c["eps"], r["iters"], r["acc"]))); continue
        if rig or r is base:
            if g < -sl:
                bad.append(("weak-duality:" + what, "primal objective %r of the trained machine is below the dual bound %r (gap %.3g)" % (r["P"], Dlow, g))); continue
            if r["stop"] != 4 and not g <= 1.5 * bound + sl:
                bad.append(("accuracy:" + what, "duality gap %.6g exceeds the bound %.6g implied by the stopping accuracy eps=%g (primal %r, dual bound %r, stop=%d, iterations=%d)" % (g, 1.5 * bound + sl, c["eps"], r["P"], Dlow, r["stop"], r["iters"]))); continue
        r["g"] = max(g, 0.0) + sl
    if bad: return bad[:1]
    for r in runs[1:]:
        v = r["v"]; what = v.get("what")
        if rig:
            rad = math.sqrt(2 * r["g"]) + math.sqrt(2 * base["g"])
        else:
            # with offset the dual bound only certifies the inner problem of the base run; offsets are found by Rprop on a
            # sub-gradient: compare objectives and outputs with the accuracy-implied bound as radius
            dP = abs(r["P"] - base["P"])
            tolP = 4 * bound + fslack(c, base["P"], v["ctype"])
            stats.setdefault("biasP_ratio", []).append((dP / tolP, c["id"] + ":" + what))
            if not dP <= tolP:
                bad.append(("offset:invariance-objective:" + what, "primal objective %r vs %r of the base configuration (|diff| %.3g > %.3g)" % (r["P"], base["P"], dP, tolP))); continue
            rad = 2 * math.sqrt(2 * (4 * bound + base["g"]))
        worst = 0.0
        for pi in range(len(c["probes"])):
            f1 = r["F"][pi]; f0 = base["F"][pi]
            if t in S2ZW and not (t == "RI" and c["bias"]):
                f1 = [x - math.fsum(f1) / k for x in f1]; f0 = [x - math.fsum(f0) / k for x in f0]
            for cc in range(k):
                dv = abs(f1[cc] - f0[cc]); tol = rad * math.sqrt(kpp[pi]) + 1e-9
                if d5: tol += rad
                worst = max(worst, dv / tol)
                if not dv <= tol:
                    bad.append((("offset:invariance:" if d5 else "invariance:") + what, "decision value of class %d on probe %d: %r vs %r in the base configuration (|diff| %.3g > %.3g from the duality gaps %.3g / %.3g)" % (cc, pi, f1[cc], f0[cc], dv, tol, r["g"], base["g"])))
                    break
            if bad: break
        stats.setdefault("inv_ratio", []).append((worst, c["id"] + ":" + str(what)))
        if bad: break
    stats["runs"] = stats.get("runs", 0) + len(lines)
    for r in runs:
        v = r["v"]; stats.setdefault("configs", set()).add((t, c["bias"], v["shrink"], v["pre"], v["ctype"], "perm" in v, v["cache"] >= n * n, r["iters"] >= 3))
        stats["max_iters"] = max(stats.get("max_iters", 0), r["iters"])
        if v["shrink"] and r["iters"] > 1000: stats["shrink_long_runs"] = stats.get("shrink_long_runs", 0) + 1
    return bad[:1]

def check_bin2(ck, R, c, stats):
    """two-class data: the multi-class machinery must give the binary machine (with C scaled by BINC)"""
    t, n, C = c["type"], c["n"], c["C"]
    vs = c["variants"]; bad = []
    Cb = C * BINC[t]
    vshr = {"shrink": 1, "pre": 0, "cache": 3 * n, "ctype": "d"}
    if t == "OVA":
        # train() dispatches two-class data to the binary machine whatever the type; OVA's own reduction is oneVersusRest
        lines = [train_line(c, vs[0], c["id"] + "_bin", C=Cb), train_line(c, vshr, c["id"] + "_bin_s", C=Cb)]
    else:
        lines = [raw_line(c, vs[0], c["id"] + "_raw"), raw_line(c, vshr, c["id"] + "_raw_s"), train_line(c, vs[0], c["id"] + "_bin", C=Cb)]
    (out, rc, err), = R.run([lines], "grp")
    if rc != 0 or len(out) != len(lines):
        return [("crash", "implementation crashed/stopped after %d of %d runs (rc=%s) %s" % (len(out), len(lines), rc, err.strip()[-200:]))]
    K = kmat(c, c["x"]); Kp = kmat(c, c["probes"], c["x"]); kpp = [kern(c, p, p) for p in c["probes"]]
    rb = parse_R(out[-1])
    if "exc" in rb: return [fail_of(rb, "binary", "binary train(): ")]
    if rb["cols"] != 1: return [("shape", "binary machine has %d output columns" % rb["cols"])]
    Pb, regb, Fb = primal_kernel(t, 2, K, c["y"], rb["A"], rb["B"], Cb)
    Db, msg = binary_dual(K, c["y"], [r[0] for r in rb["A"]], Cb, rb["B"])
    if msg: return [("constraints:binary", msg)]
    cb = dict(c); cb["C"] = Cb; cb["kind"] = "mc"
    boundb = gap_bound(cb, 2)
    gb = Pb - Db
    if c["bias"]:
        s = math.fsum(r[0] for r in rb["A"])
        if not abs(s) <= 1e-9 * Cb * n: return [("constraints:binary", "sum of coefficients %r != 0 with offset" % s)]
    if gb < -fslack(c, Pb, "d"): return [("weak-duality:binary", "binary primal %r below its dual %r" % (Pb, Db))]
    if rb["stop"] != 4 and not gb <= 1.5 * boundb + fslack(c, Pb, "d"):
        return [("accuracy:binary", "binary machine: duality gap %.6g exceeds %.6g (eps=%g)" % (gb, 1.5 * boundb, c["eps"]))]
    gb = max(gb, 0.0) + fslack(c, Pb, "d")
    stats["runs"] = stats.get("runs", 0) + len(lines)
    if t == "OVA":
        r2 = parse_R(out[0])
        if "exc" in r2: return [fail_of(r2, "binary")]
        return []
    nm = R.num(t, 2, "d")
    for oi, what in ((0, "base"), (1, "cache+shrinking")):
        raw = parse_W(out[oi])
        if "exc" in raw: return [fail_of(raw, what + (":bias" if c["bias"] else ""), "solveMc* on two classes: ")]
        msg = check_feasible(t, C, raw["alpha"])
        if msg: return [("constraints:" + what, "two-class run: " + msg)]
        A = raw_to_decision(t, 2, nm["nu"], c["y"], raw["alpha"])
        b = raw["b"] if c["bias"] else []
        Pm, regm, Fm = primal_kernel(t, 2, K, c["y"], A, b, C)
        Dm = dual_value(t, 2, nm["nu"], c["y"], raw["alpha"], b, regm)
        gm = Pm - Dm
        bound = gap_bound(c, 2)
        sl = fslack(c, Pm, "d")
        if gm < -sl: return [("weak-duality:" + what, "two-class %s: primal %r below dual %r" % (t, Pm, Dm))]
        if not c["bias"] and raw["stop"] != 4 and not gm <= 1.5 * bound + sl:
            return [("accuracy:" + what, "two-class %s: duality gap %.6g exceeds %.6g (eps=%g, iterations %d)" % (t, gm, 1.5 * bound + sl, c["eps"], raw["iters"]))]
        gm = max(gm, 0.0) + sl
        rad = math.sqrt(2 * gm) + math.sqrt(2 * gb)
        if c["bias"]: rad = 2 * math.sqrt(2 * (4 * bound + gm)) + 2 * math.sqrt(2 * (4 * boundb + gb))
        worst = 0.0
        for pi in range(len(c["probes"])):
            f = [math.fsum(Kp[pi][j] * A[j][cc] for j in range(n)) + (b[cc] if b else 0.0) for cc in range(2)]
            dmc = 0.5 * (f[1] - f[0])
            fb = rb["F"][pi][0]
            tol = rad * math.sqrt(kpp[pi]) + 1e-9 + (rad if c["bias"] else 0.0)
            worst = max(worst, abs(dmc - fb) / tol)
            if not abs(dmc - fb) <= tol:
                return [(("offset:two-class-reduction:" if c["bias"] else "two-class-reduction:") + what, "%s on two classes, C=%r: (f_1-f_0)/2 = %r on probe %d but the binary machine with C=%r gives %r (|diff| %.3g > %.3g)" % (t, C, dmc, pi, Cb, fb, abs(dmc - fb), tol))]
        stats.setdefault("bin2_ratio", []).append((worst, c["id"] + ":" + what))
        stats.setdefault("configs", set()).add((t, c["bias"], "bin2", what, raw["iters"] >= 3))
    return bad

def check_lin(ck, R, c, stats):
    """linear kernel: dedicated linear solver vs kernel solver, same primal objective"""
    t, k, n, C = c["type"], c["k"], c["n"], c["C"]
    vs = c["variants"]
    lines = [train_line(c, vs[0], c["id"] + "_ker"), train_line(c, vs[2], c["id"] + "_ker_s"),
             lin_line(c, c["id"] + "_lin1", c["seed"], 0), lin_line(c, c["id"] + "_lin2", c["seed"] + 1, 0)]
    direct = (t != "OVA")
    if direct: lines.append(lin_line(c, c["id"] + "_lind", c["seed"] + 2, 1))
    if t != "OVA" and k > 2: lines.append(raw_line(c, vs[0], c["id"] + "_raw"))
    (out, rc, err), = R.run([lines], "grp")
    if rc != 0 or len(out) != len(lines):
        return [("crash", "implementation crashed/stopped after %d of %d runs (rc=%s) %s" % (len(out), len(lines), rc, err.strip()[-200:]))]
    K = kmat(c, c["x"])
    stats["runs"] = stats.get("runs", 0) + len(lines)
    res = []
    for oi in (0, 1):
        r = parse_R(out[oi])
        if "exc" in r: return [fail_of(r, "kernel")]
        P, reg, F = primal_kernel(t, k, K, c["y"], r["A"], r["B"], C)
        res.append(("kernel" + ("+cache+shrinking" if oi else ""), P, reg, r))
    # dual bound
    if k == 2 or t == "OVA":
        A = res[0][3]["A"]; Dlow = 0.0
        for cc in range(len(A[0])):
            yy = c["y"] if k == 2 and len(A[0]) == 1 else [1 if v == cc else 0 for v in c["y"]]
            Dc, msg = binary_dual(K, yy, [A[i][cc] for i in range(n)], C, None)
            if msg: return [("constraints:kernel", msg)]
            Dlow += Dc
    else:
        raw = parse_W(out[-1])
        if "exc" in raw: return [fail_of(raw, "base")]
        msg = check_feasible(t, C, raw["alpha"])
        if msg: return [("constraints", msg)]
        nm = R.num(t, k, "d")
        Dlow = dual_value(t, k, nm["nu"], c["y"], raw["alpha"], [], res[0][2])
    for oi in range(2, 5 if direct else 4):
        r = parse_L(out[oi])
        if "exc" in r: return [fail_of(r, "linear")]
        isdirect = (oi == 4)
        kk = k
        if r["rows"] not in (1, k): return [("shape:linear", "linear model has %d rows for %d classes" % (r["rows"], k))]
        if isdirect and k == 2:
            # the multi-class linear solver on two classes: its own objective (C as given)
            P, reg, F = primal_linear(t, 2, c["x"], c["y"], r["W"], [], C)
            # compare with the multi-class KERNEL machinery is done in bin2; here only record
            res.append(("linear-direct-2class", None, reg, r)); continue
        P, reg, F = primal_linear(t, k, c["x"], c["y"], r["W"], r["B"], C)
        res.append(("linear%s(seed %d)" % ("-direct" if isdirect else "", c["seed"] + oi - 2), P, reg, r))
    bound = gap_bound(c, k)
    bad = []
    for name, P, reg, r in res:
        if P is None: continue
        sl = fslack(c, P, "d")
        g = P - Dlow
        stats.setdefault("lin_ratio", []).append((g / bound, c["id"] + ":" + name))
        if g < -sl:
            bad.append(("weak-duality:" + name.split("(")[0], "primal objective %r of the %s solution is below the dual bound %r" % (P, name, Dlow))); break
        if r["stop"] != 4 and not g <= 3 * bound + sl:
            bad.append(("primal-objective:" + name.split("(")[0], "%s reaches primal objective %r, the kernel solver %r, dual bound %r: excess %.6g > %.6g implied by eps=%g (stop=%d, iterations=%d)" % (name, P, res[0][1], Dlow, g, 3 * bound + sl, c["eps"], r["stop"], r["iters"]))); break
        stats.setdefault("configs", set()).add((t, "lin", name.split("(")[0], k, r["iters"] >= 3))
    return bad[:1]

# ------------------------------------------------------------------------------------------------
# free functions: exact correspondence + monitors

def gen_free(rng, big):
    def num(kind=None):
        kind = kind or rng.choice(["int", "dy", "dy", "tiny", "real"])
        if kind == "int": return float(rng.randint(-4, 6))
        if kind == "dy": return rng.randint(-40, 60) / 8.0
        if kind == "tiny": return rng.choice([1e-12, 9.999e-13, 1.0001e-12, 1e-6, 1e-13, 0.0, 3e-7, 1e-14, 5e-15])
        return round(rng.gauss(0, 2), 4)
    def psd():
        a = abs(num()); b = abs(num()); r = rng.choice([0.0, 0.5, -0.5, 0.999999, 1.0, -1.0, 0.25]); m = math.sqrt(a * b) * r
        if rng.random() < 0.15: return a, m * 1.5, b       # indefinite on purpose
        return a, m, b
    lines = []
    N = 20000 if big else 3000
    for _ in range(N):
        u = rng.random()
        if u < 0.15:
            L = num(); U = L + abs(num())
            lines.append("EDGE %s %s %s %s %s" % tuple(hx(v) for v in (num(), num(), abs(num()) if rng.random() < 0.8 else num(), L, U)))
        elif u < 0.45:
            Qii, Qij, Qjj = psd(); Li = num("dy"); Ui = Li + abs(num("dy")); Lj = num("dy"); Uj = Lj + abs(num("dy"))
            ai = Li + (Ui - Li) * rng.choice([0, 0.25, 0.5, 1]); aj = Lj + (Uj - Lj) * rng.choice([0, 0.5, 0.75, 1])
            if rng.random() < 0.3: Li = Lj = 0.0; Ui = abs(num()) ; Uj = abs(num()); ai = Ui * rng.choice([0, 0.5, 1]); aj = Uj * rng.choice([0, 0.5, 1])
            lines.append("BOX " + " ".join(hx(v) for v in (ai, aj, num(), num(), Qii, Qij, Qjj, Li, Ui, Lj, Uj)))
        elif u < 0.8:
            Qii, Qij, Qjj = psd(); M = abs(num()) * rng.choice([1, 1, 10, 1e-3]); s = rng.choice([0, 0.3, 0.5, 1.0]); w = rng.choice([0, 0.25, 0.5, 1.0])
            ai = M * s * w; aj = M * s * (1 - w)
            if rng.random() < 0.15:      # snapping region
                ai = M * rng.choice([1e-13, 1 - 1e-13, 0.5e-12]); aj = max(0.0, M - ai) * rng.choice([0, 1, 1e-13])
            if rng.random() < 0.08:      # infeasible start (never produced by the solvers): must move to the best edge candidate
                ai, aj = rng.choice([(-abs(num()), aj), (ai, -abs(num())), (M, M * 0.5 + 1e-3)])
            lines.append("TRI " + " ".join(hx(v) for v in (ai, aj, num(), num(), Qii, Qij, Qjj, M)))
        elif u < 0.88:
            Qii, Qij, Qjj = psd(); lines.append("GAIN " + " ".join(hx(v) for v in (Qii, Qjj, Qij, num(), num())))
        elif u < 0.95:
            Qii, Qij, Qjj = psd(); lines.append("LINE " + " ".join(hx(v) for v in (Qii, Qjj, Qij, num(), num())))
        else:
            w = rng.randint(1, 6); cols = sorted(rng.sample(range(w), rng.randint(0, w)))
            if rng.random() < 0.2: rng.shuffle(cols)
            lines.append("SPARSE %s %d %d %s" % (hx(num("dy")), w, len(cols), " ".join("%d %s" % (cidx, hx(num("dy"))) for cidx in cols)))
    return lines

def gain2(gi, gj, Qii, Qij, Qjj, mi, mj):
    return mi * gi + mj * gj - 0.5 * (Qii * mi * mi + 2 * Qij * mi * mj + Qjj * mj * mj)

def monitor_free(case, out):
    msgs = []
    for l, o in zip(case, out):
        t = l.split(); v = [fh(x) for x in t[1:]] if t[0] != "SPARSE" else None
        ot = o.split()
        if ot[0] != "V": msgs.append("%s: %s" % (t[0], o)); continue
        r = [fh(x) for x in ot[1:]]
        if t[0] == "EDGE":
            a, g, Q, L, U = v
            if not (L <= r[0] <= U): msgs.append("EDGE: result %r outside [%r, %r]" % (r[0], L, U))
            elif Q >= 0:
                gn = lambda x: (x - a) * g - 0.5 * Q * (x - a) ** 2
                best = max(gn(L), gn(U), gn(min(max(a + g / Q, L), U)) if Q > 0 else gn(L))
                if not gn(r[0]) >= best - 1e-9 * (abs(best) + 1): msgs.append("EDGE: result %r has gain %r, a feasible point reaches %r" % (r[0], gn(r[0]), best))
        elif t[0] == "BOX":
            ai, aj, gi, gj, Qii, Qij, Qjj, Li, Ui, Lj, Uj = v
            if not (Li <= r[0] <= Ui and Lj <= r[1] <= Uj): msgs.append("BOX: result (%r,%r) outside the box" % (r[0], r[1]))
            elif Qii >= 0 and Qjj >= 0 and Li <= ai <= Ui and Lj <= aj <= Uj:
                gg = gain2(gi, gj, Qii, Qij, Qjj, r[0] - ai, r[1] - aj)
                sc = abs(gi * (r[0] - ai)) + abs(gj * (r[1] - aj)) + abs(Qii) * (r[0] - ai) ** 2 + abs(Qjj) * (r[1] - aj) ** 2 + 2 * abs(Qij * (r[0] - ai) * (r[1] - aj))
                if not gg >= -1e-12 * sc: msgs.append("BOX: the step loses objective (gain %r)" % gg)
        elif t[0] == "TRI":
            ai, aj, gi, gj, Qii, Qij, Qjj, M = v
            if not (r[0] >= 0 and r[1] >= 0 and r[0] + r[1] <= M * (1 + 4 * EPSM)): msgs.append("TRI: result (%r,%r) outside the triangle with maxSum %r" % (r[0], r[1], M))
        elif t[0] == "LINE":
            Qii, Qjj, Qij, gi, gj = v; g = gi - gj
            want = 0.0 if g <= 0 else g * g / max(Qii + Qjj - 2 * Qij, 1e-12)
            if not abs(r[0] - want) <= 1e-12 * abs(want): msgs.append("LINE: %r, closed form %r" % (r[0], want))
        elif t[0] == "GAIN":
            Qii, Qjj, Qij, gi, gj = v; det = Qii * Qjj - Qij * Qij
            if det > 1e-9 * Qii * Qjj and Qii > 0 and det > 0:
                # twice the best unconstrained gain, brute force through the optimum
                mi = (Qjj * gi - Qij * gj) / det; mj = (Qii * gj - Qij * gi) / det
                want = 2 * gain2(gi, gj, Qii, Qij, Qjj, mi, mj)
                if not abs(r[0] - want) <= 1e-6 * (abs(want) + abs(r[0])) + 1e-300: msgs.append("GAIN: %r, twice the optimal gain is %r" % (r[0], want))
        elif t[0] == "SPARSE":
            w, kk = int(t[2]), int(t[3]); ent = [(int(t[4 + 2 * b]), fh(t[5 + 2 * b])) for b in range(kk)]; d = fh(t[1])
            for col in range(w):
                want = next((val for ix, val in ent if ix == col), d)
                if r[col] != want: msgs.append("SPARSE: operator()(0,%d)=%r, first entry with that column / default is %r" % (col, r[col], want))
    return msgs

# ------------------------------------------------------------------------------------------------
# step-by-step driven solver runs

def gen_steps(rng, sid, big):
    t = rng.choice([x for x in TYPES if x != "OVA"])
    k = rng.choice([2, 3, 3, 4, 5]); n = rng.randint(max(k + 1, 4), 9 if not big else 14); d = rng.randint(1, 2)
    c = {"id": sid, "type": t, "k": k, "n": n, "d": d, "kernel": rng.choice(["lin", "rbf"]), "C": rng.choice([0.25, 1.0, 1.0, 8.0, 100.0]),
         "eps": rng.choice([1e-3, 1e-5]), "sp": rng.choice([0, 0, 2, 3, 7, -1]), "nsteps": rng.choice([30, 60, 120]), "rand": rng.randint(0, 1),
         "seed": rng.randint(1, 10 ** 6)}
    c["gamma"] = rng.choice([0.25, 1.0]) if c["kernel"] == "rbf" else 0.0
    c["x"], c["y"] = gen_data(rng, n, d, k, rng.choice(["int", "dyadic"]))
    return c

def gen_steps_shrink(rng, sid, big, t, k):
    """streams aimed at the case splits of the shrinking code: shrink after every 1-3 steps, many variables at a bound
    (small C on overlapping classes: at C; separable blobs with large C: at 0, whole examples removed), addDeltaLinear events"""
    n = rng.randint(max(k + 1, 4), 8 if not big else 12); d = rng.randint(1, 2)
    style = rng.choice(["upper", "zero", "zero", "mixed"])
    c = {"id": sid, "type": t, "k": k, "n": n, "d": d, "kernel": rng.choice(["lin", "lin", "rbf"]),
         "C": {"upper": rng.choice([0.125, 0.25]), "zero": rng.choice([8.0, 100.0]), "mixed": 1.0}[style],
         "eps": rng.choice([1e-2, 1e-3]), "sp": rng.choice([1, 2, 2, 3]), "nsteps": rng.choice([40, 80]), "rand": rng.choice([0, 0, 1, 2, 3]),
         "seed": rng.randint(1, 10 ** 6)}
    c["gamma"] = rng.choice([0.25, 1.0]) if c["kernel"] == "rbf" else 0.0
    c["x"], c["y"] = gen_data(rng, n, d, k, "blobs" if style == "zero" else rng.choice(["int", "dyadic"]))
    if rng.random() < 0.35: c["rand"] |= 4          # performBiasUpdate events of the real BiasSolver / BiasSolverSimplex
    return c

def gen_solve(rng, sid, big, t, k):
    """whole runs of the real QpSolver::solve (bounded by maxIterations) against the model loop mc_solve_steps"""
    n = rng.randint(max(k + 1, 4), 8 if not big else 11); d = rng.randint(1, 2)
    c = {"id": sid, "type": t, "k": k, "n": n, "d": d, "kernel": rng.choice(["lin", "rbf"]), "C": rng.choice([0.25, 1.0, 8.0, 100.0]),
         "eps": rng.choice([1e-2, 1e-3]), "maxiter": rng.choice([5, 40, 150, 400]), "shrinking": rng.choice([0, 1, 1])}
    c["gamma"] = rng.choice([0.25, 1.0]) if c["kernel"] == "rbf" else 0.0
    c["x"], c["y"] = gen_data(rng, n, d, k, rng.choice(["int", "dyadic", "blobs"]))
    return c

def solve_line(c):
    return " ".join(["SOLVE", c["id"], c["type"], hx(c["C"]), hx(c["eps"]), str(c["maxiter"]), str(c["shrinking"]), c["kernel"], hx(c["gamma"]),
                     str(c["n"]), str(c["d"])] + data_tokens(c))

def parse_solve_line(l):
    t = l.split(); pf = lambda x: fh(x) if "x" in x.lower() else float(x)
    c = {"id": t[1], "type": t[2], "C": pf(t[3]), "eps": pf(t[4]), "maxiter": int(t[5]), "shrinking": int(t[6]), "kernel": t[7], "gamma": pf(t[8]), "n": int(t[9]), "d": int(t[10])}
    n, d = c["n"], c["d"]; p = 11
    c["y"] = [int(v) for v in t[p:p + n]]; p += n
    c["x"] = [[pf(t[p + i * d + j]) for j in range(d)] for i in range(n)]; c["k"] = max(c["y"]) + 1
    return c

def steps_line(c):
    return " ".join(["STEPS", c["id"], c["type"], hx(c["C"]), hx(c["eps"]), str(c["sp"]), str(c["nsteps"]), str(c["rand"]), str(c["seed"]),
                     c["kernel"], hx(c["gamma"]), str(c["n"]), str(c["d"])] + data_tokens(c))

def parse_steps_line(l):
    t = l.split()
    c = {"id": t[1], "type": t[2], "C": fh(t[3]) if "x" in t[3] else float(t[3]), "eps": fh(t[4]) if "x" in t[4] else float(t[4]), "sp": int(t[5]), "nsteps": int(t[6]),
         "rand": int(t[7]), "seed": int(t[8]), "kernel": t[9], "gamma": fh(t[10]) if "x" in t[10] else float(t[10]), "n": int(t[11]), "d": int(t[12])}
    n, d = c["n"], c["d"]; p = 13
    pf = lambda s: fh(s) if "x" in s.lower() else float(s)
    c["y"] = [int(v) for v in t[p:p + n]]; p += n
    c["x"] = [[pf(t[p + i * d + j]) for j in range(d)] for i in range(n)]
    c["k"] = max(c["y"]) + 1
    return c

def Mentry(nm, t, k, P, yv, pv, yw, pw):
    return nm["M"][k * (yv * P + pv) + yw][pw]

def spec_M(nm, t, k):
    """independent: M(yv,pv,yw,pw) = <nu_(yv,pv), nu_(yw,pw)>, centred over the classes for sum-to-zero machines"""
    nu = nm["nu"]; P = len(nu) // k; bad = []
    for yv in range(k):
        for pv in range(P):
            a = nu[yv * P + pv]
            for yw in range(k):
                for pw in range(P):
                    b = nu[yw * P + pw]
                    want = math.fsum(x * z for x, z in zip(a, b))
                    if t in S2ZW: want -= math.fsum(a) * math.fsum(b) / k
                    got = Mentry(nm, t, k, P, yv, pv, yw, pw)
                    if not abs(got - want) <= 1e-12: bad.append("M(%d,%d,%d,%d)=%r but <nu,nu>%s = %r" % (yv, pv, yw, pw, got, " centred" if t in S2ZW else "", want))
    return bad

def parse_ST(t, n, P):
    s = {"actvar": int(t[2]), "actex": int(t[3]), "fval": fh(t[4]), "y": [], "vs": [], "exact": [], "a": [], "g": [], "lin": [], "act": []}
    p = 5
    for i in range(n):
        s["y"].append(int(t[p])); s["vs"].append(fh(t[p + 1])); s["exact"].append(int(t[p + 2])); p += 3
        a = []; g = []; ln = []; ac = []
        for q in range(P):
            a.append(fh(t[p])); g.append(fh(t[p + 1])); ln.append(fh(t[p + 2])); ac.append(int(t[p + 3])); p += 4
        s["a"].append(a); s["g"].append(g); s["lin"].append(ln); s["act"].append(ac)
    return s

def monitor_steps(c, out, nm, K):
    """out: the trace lines of one run; returns ([(key,msg)], step lines for the model [(in, expected)])"""
    t, k, n, C = c["type"], c["k"], c["n"], c["C"]
    P = cardP(t, k); bad = []; steps = []
    simplex = t in SIMPLEX
    allvars = False; last = None; nsmo = 0; scale = 1.0; bias = None
    for l in out:
        tk = l.split()
        h = tk[0]
        if h in ("EXC", "STDEXC"): return [("exception", "solver threw: " + l)], steps
        if h == "BAD": return [("tables", "variable/example tables inconsistent: " + " ".join(tk[2:]))], steps
        if h == "EV": allvars = (tk[2] == "unshrink"); continue
        if h == "BV": bias = [fh(x) for x in tk[2:]]; continue
        if h in ("SS", "SB"):
            Cc = fh(tk[2]); Pp = int(tk[3]); ev, pv, ew, pw = int(tk[4]), int(tk[5]), int(tk[6]), int(tk[7])
            nums = tk[10:15]; rest = tk[15:]
            gt = rest.index(">"); pre = rest[:gt]; post = rest[gt + 1:]
            steps.append(("%s %s %d %d %d %d %d %s %s" % (h, tk[2], Pp, ev, pv, ew, pw, " ".join(nums), " ".join(pre)), "V " + " ".join(post), l))
            # independent matrix entries
            Qvv, Qvw, Qww = fh(nums[2]), fh(nums[3]), fh(nums[4])
            yv, yw = c["y"][ev], c["y"][ew]
            wv = Mentry(nm, t, k, P, yv, pv, yv, pv) * K[ev][ev]; ww = Mentry(nm, t, k, P, yw, pw, yw, pw) * K[ew][ew]
            wvw = Mentry(nm, t, k, P, yv, pv, yw, pw) * K[ev][ew]
            for nme, got, want in (("Qvv", Qvv, wv), ("Qvw", Qvw, wvw), ("Qww", Qww, ww)):
                if not abs(got - want) <= 1e-12 * (abs(want) + 1e-300) + 1e-300:
                    bad.append(("matrix-entry", "%s=%r used by updateSMO on variables (%d,%d),(%d,%d) but M*k computed independently is %r" % (nme, got, ev, pv, ew, pw, want)))
            nsmo += 1
            continue
        if h == "ST":
            s = parse_ST(tk, n, P)
            if s["y"] != c["y"]: bad.append(("labels", "labels by original index %s differ from the data set %s" % (s["y"], c["y"])))
            # constraints
            for i in range(n):
                for q in range(P):
                    a = s["a"][i][q]
                    if not a >= 0.0: bad.append(("constraints", "alpha(%d,%d)=%r negative" % (i, q, a)))
                    if not simplex and not a <= C: bad.append(("constraints", "alpha(%d,%d)=%r exceeds C=%r" % (i, q, a, C)))
                if simplex:
                    sm = math.fsum(s["a"][i])
                    if not sm <= C + 1e-14 * (1 + C) + 4 * EPSM * C * P: bad.append(("constraints", "sum_p alpha(%d,p)=%r exceeds C=%r" % (i, sm, C)))
                    if not (0.0 <= s["vs"][i] <= C): bad.append(("varsum", "varsum(%d)=%r outside [0,C]" % (i, s["vs"][i])))
                    if not abs(sm - s["vs"][i]) <= 1e-14 * (1 + C) + 8 * EPSM * C * (nsmo + 4): bad.append(("varsum", "varsum(%d)=%r but sum_p alpha = %r" % (i, s["vs"][i], sm)))
            if bad: return bad[:1], steps
            # bias solver book-keeping: linear(i,p) = initial linear term - sum_c nu(y_i,p)(c) * offset(c)  (no random addDeltaLinear in that run)
            if bias is not None and not (c["rand"] & 2):
                for i in range(n):
                    for q in range(P):
                        l0 = (k - 1.0) if (t == "RI" and q == c["y"][i]) else 1.0
                        want = l0 - math.fsum(nm["nu"][c["y"][i] * P + q][cc] * bias[cc] for cc in range(k))
                        if not abs(s["lin"][i][q] - want) <= 1e-12 * (1 + abs(want)):
                            bad.append(("bias-bookkeeping", "linear(%d,%d)=%r but 1 - <nu(y,p), offsets %s> = %r" % (i, q, s["lin"][i][q], bias, want)))
                            return bad[:1], steps
            # gradient = linear - Q alpha  (active variables; all variables right after unshrink)
            nzs = [(j, q, s["a"][j][q]) for j in range(n) for q in range(P) if s["a"][j][q] != 0.0]
            for i in range(n):
                for p_ in range(P):
                    if not (allvars or s["act"][i][p_]): continue
                    terms = [Mentry(nm, t, k, P, c["y"][i], p_, c["y"][j], q) * K[i][j] * a for j, q, a in nzs]
                    want = s["lin"][i][p_] - math.fsum(terms)
                    sc = math.fsum(abs(x) for x in terms) + abs(s["lin"][i][p_]); scale = max(scale, sc)
                    tol = 64 * EPSM * (nsmo + 8) * scale
                    if not abs(s["g"][i][p_] - want) <= tol:
                        bad.append(("gradient" + (":after-unshrink" if allvars else ""), "gradient(%d,%d)=%r but linear - Q alpha = %r (|diff| %.3g > %.3g)%s" % (i, p_, s["g"][i][p_], want, abs(s["g"][i][p_] - want), tol, " right after unshrink()" if allvars else "")))
                        return bad[:1], steps
            # functionValue = 1/2 (g + lin) . alpha over all variables needs the full gradient
            if s["actvar"] == n * P:
                fv = 0.5 * math.fsum((s["g"][i][q] + s["lin"][i][q]) * s["a"][i][q] for i in range(n) for q in range(P))
                if not abs(fv - s["fval"]) <= 1e-12 * (abs(fv) + 1): bad.append(("fval", "functionValue()=%r, recomputed %r" % (s["fval"], fv)))
            # a shrunk variable must not be able to move (box) at the moment it is shrunk: checked on the transition
            if last is not None and not allvars:
                for i in range(n):
                    for q in range(P):
                        if last["act"][i][q] and not s["act"][i][q] and not simplex:
                            a, g = s["a"][i][q], s["g"][i][q]
                            if not ((a == 0.0 and g <= 0.0) or (a == C and g >= 0.0)):
                                bad.append(("shrink-unsound", "variable (%d,%d) shrunk with alpha=%r gradient=%r" % (i, q, a, g)))
            allvars = False
            last = s
            if bad: return bad[:1], steps
        if h == "SOL":
            sol = [fh(x) for x in tk[2:]]
            flat = [last["a"][i][q] for i in range(n) for q in range(P)] if last else []
            if sol != flat: bad.append(("solution", "solution() differs from the variables by original index"))
    return bad[:1], steps

# ------------------------------------------------------------------------------------------------
# linear solvers (C16Linear.v): one example step of QpMcLinear* (real calcGradient / solveSub / updateWeightVectors),
# one epoch of QpBoxLinear::solve

LKINDS = ["WW", "CS", "LLW", "ATM", "ATS", "ADM", "MMR", "RI"]
LSKIP = {"WW", "CS", "LLW", "ADM"}              # gradient(y) is not used by these
LSIMPLEX = {"CS", "ADM", "ATM"}

def gen_lsteps(rng, lid, t, big):
    k = rng.choice([2, 3, 3, 4, 5]); n = rng.randint(k + 1, 8 if not big else 14); d = rng.randint(1, 3)
    y = [i % k for i in range(n)]; rng.shuffle(y)
    mode = rng.choice(["int", "dyadic"])
    x = [float(rng.randint(-3, 3)) if mode == "int" else rng.randint(-12, 12) / 4.0 for _ in range(n * d)]
    C = rng.choice([0.125, 0.25, 1.0, 4.0, 100.0])
    return "LSTEPS %s %s %s %s %d %d %d %d %s %s" % (lid, t, hx(C), hx(rng.choice([1e-2, 1e-3])), rng.choice([2, 3, 5]), rng.randint(1, 10 ** 6), n, d,
                                                    " ".join(map(str, y)), " ".join(hx(v) for v in x))

def gen_blsteps(rng, lid, big):
    n = rng.randint(3, 9 if not big else 16); d = rng.choice([1, 1, 2, 3])
    y = [i % 2 for i in range(n)]; rng.shuffle(y)
    x = [rng.randint(-8, 8) / 4.0 for _ in range(n * d)]
    return "BLSTEPS %s %s %s %s %d %d %d %d %s %s" % (lid, hx(rng.choice([0.25, 1.0, 8.0])), hx(rng.choice([0.0, 0.0, 0.25, 1.0])), hx(rng.choice([0.0, 0.0, 0.125, -0.5])),
                                                     rng.choice([2, 4, 6]), rng.randint(1, 10 ** 6), n, d, " ".join(map(str, y)), " ".join(hx(v) for v in x))

def lin_wstep(t, K, y, mu):
    """step vector added to the weight vectors, written from the formulations (independent of the Coq model)"""
    if t == "WW": return [0.5 * math.fsum(mu) if c == y else -0.5 * mu[c] for c in range(K)]
    if t == "CS": return [0.5 * math.fsum(m for cc, m in enumerate(mu) if cc != y) if c == y else -0.5 * mu[c] for c in range(K)]
    if t in ("LLW", "ADM"):
        mean = math.fsum(mu) / K; return [mean - mu[c] for c in range(K)]
    if t == "MMR": return [mu[0] - mu[0] / K if c == y else -mu[0] / K for c in range(K)]
    mean = (math.fsum(mu) - 2.0 * mu[y]) / K
    return [mu[c] + mean if c == y else mean - mu[c] for c in range(K)]

def monitor_lin(line):
    """spec monitor on one LS / BL line of the implementation; returns (key, message) or None, and the sub-solver gradient note"""
    a, b = line.split(" > ")
    t = a.split()
    if t[0] == "LS":
        typ = t[2]; K = int(t[3]); d = int(t[4]); C = fh(t[5]); y = int(t[7]); p0 = 9
        al = [fh(v) for v in t[p0 + K:p0 + 2 * K + 1]]; x = [fh(v) for v in t[p0 + 2 * K + 1:p0 + 2 * K + 1 + d]]
        w = [fh(v) for v in t[p0 + 2 * K + 1 + d:p0 + 2 * K + 1 + d + K * d]]
        r = b.split(" G ")[0].split()
        kkt = fh(r[0]); al2 = [fh(v) for v in r[2:2 + K + 1]]; mu = [fh(v) for v in r[3 + K:3 + 2 * K]]; w2 = [fh(v) for v in r[3 + 2 * K:3 + 2 * K + K * d]]
        nvar = 1 if typ == "MMR" else K
        # box-type machines clip to exactly C; the simplex-type ones compute a_up + m with m <= a_down, sum = C: exact arithmetic
        # keeps alpha(c) <= C (C16_linear_solveSub_simplex_partial), floating point can exceed it by rounding (a few ulp of C)
        ub = C * (1.0 + 4 * EPSM * K) if typ in LSIMPLEX else C
        for c in range(nvar):
            if not (0.0 <= al2[c] <= ub): return ("constraints", "%s: alpha(%d)=%r outside [0, C=%r] after the step" % (typ, c, al2[c], C)), None
            if not abs(al2[c] - (al[c] + mu[c])) <= 4 * EPSM * (abs(al[c]) + abs(mu[c]) + C): return ("bookkeeping", "%s: alpha(%d)=%r but old value + step = %r" % (typ, c, al2[c], al[c] + mu[c])), None
        if typ in LSIMPLEX:
            sm = math.fsum(al2[:K])
            if not abs(sm - al2[K]) <= 64 * EPSM * (C + 1) * K: return ("constraints", "%s: stored sum %r but sum_c alpha(c) = %r" % (typ, al2[K], sm)), None
            if not al2[K] <= C: return ("constraints", "%s: stored sum %r exceeds C=%r" % (typ, al2[K], C)), None
        st = lin_wstep(typ, K, y, mu)
        smu = math.fsum(abs(m) for m in mu)          # step(c) is a difference of sums of the mu's: its rounding error scales with sum|mu|, not with |step(c)|
        for c in range(K):
            for j in range(d):
                want = w[c * d + j] + st[c] * x[j]
                if not abs(w2[c * d + j] - want) <= 16 * EPSM * (abs(w[c * d + j]) + (K + 2) * smu * abs(x[j]) + 1e-300):
                    return ("bookkeeping", "%s: w(%d,%d)=%r after the step, w + step(mu)*x = %r" % (typ, c, j, w2[c * d + j], want)), None
        note = None
        if kkt > 0.0 and typ != "MMR":
            gi = [fh(v) for v in b.split(" G ")[1].split(" T ")[0].split()]; gt = [fh(v) for v in b.split(" T ")[1].split()]
            idx = [c for c in range(K) if not (typ in LSKIP and c == y)]
            dv = max(abs(gi[c] - gt[c]) for c in idx); sc = 1.0 + max(abs(v) for v in gt)
            if dv > 1e-9 * sc: note = (typ, dv, a[:400], gi, gt)
        return None, note
    n = int(t[5]); d = int(t[6]); bound = fh(t[2]); p0 = 7
    ys = [int(v) for v in t[p0 + 2 * n + d:p0 + 3 * n + d]]; xs = [fh(v) for v in t[p0 + 3 * n + d:p0 + 3 * n + d + n * d]]
    r = b.split(" P ")[0].split(); al2 = [fh(v) for v in r[:n]]; w2 = [fh(v) for v in r[n:n + d]]
    pref = [fh(v) for v in b.split(" P ")[1].split()]
    if any(v != 1.0 for v in pref): return ("harness", "QpBoxLinear preferences changed in a one-epoch call: the schedule replay of the harness is invalid"), None
    for i in range(n):
        if not (0.0 <= al2[i] <= bound): return ("constraints", "QpBoxLinear: alpha(%d)=%r outside [0, %r]" % (i, al2[i], bound)), None
    for j in range(d):
        want = math.fsum(al2[i] * ys[i] * xs[i * d + j] for i in range(n)); sc = math.fsum(abs(bound * xs[i * d + j]) for i in range(n)) + 1e-300   # w is maintained incrementally: the drift scales with the largest contributions that were ever added (alpha <= bound), not with the final alpha
        if not abs(w2[j] - want) <= 1e-12 * sc * n: return ("bookkeeping", "QpBoxLinear: w(%d)=%r but sum_i alpha_i y_i x_i = %r" % (j, w2[j], want)), None
    return None, None

# ------------------------------------------------------------------------------------------------
# state model (C16State.v): full positional states of the implementation, one model operation at a time

def split_state_trace(out):
    """-> (model input lines, [(op line, expected line)], [(MS line, MK line)], [(MS line, SE line, next MO line or None)])"""
    inp = []; pairs = []; kpos = []; sels = []; pend = None; lastms = None
    for l in out:
        h = l[:3]
        if h in ("MH ", "MI ", "MO ", "MV "):
            inp.append(l)
            if h != "MH ": pend = l
            if h == "MO " and sels and sels[-1][2] is None and sels[-1][0] is lastms: sels[-1] = (sels[-1][0], sels[-1][1], l)
        elif h == "MS ":
            if pend is not None and pend.startswith("MV "): pairs.append((pend, l)); pend = "SV"; lastms = l; continue     # final state of solve(): completed by the SV line
            inp.append(l); lastms = l
            if pend is not None: pairs.append((pend, l)); pend = None
        elif h == "SV " and pend == "SV":
            t = l.split(); op, ms = pairs[-1]; pairs[-1] = (op, ms + " X %s %s" % (t[2], t[3])); pend = None
        elif h == "BV " and pairs and " biasupd " in pairs[-1][0][:40]:
            op, ms = pairs[-1]; pairs[-1] = (op, ms + " B " + " ".join(l.split()[2:]))
        elif h in ("SE ", "KK "):
            a, b = l.split(" > "); inp.append(a); pairs.append((a, "V " + b))
            if h == "SE " and lastms is not None: sels.append((lastms, l, None))
        elif h == "MK " and lastms is not None:
            kpos.append((lastms, l))
    return inp, pairs, kpos, sels

def monitor_select(c, ms, se, mo, simplex):
    """spec monitor on one selectWorkingSet call of the implementation (independent of the model): the returned value is
    the largest KKT violation over the ACTIVE variables (documented measure), the working set is active"""
    n, k = c["n"], c["k"]; P = cardP(c["type"], k); C = c["C"]
    s = parse_MS(ms, n, P)
    r = se.split(" > ")[1].split(); acc = fh(r[0]); i, j = int(r[1]), int(r[2])
    if simplex:
        mg = 0.0; msg = 0.0
        for e in range(s["actex"]):
            up = -1e100; down = 1e100
            for b in range(s["eact"][e]):
                v = s["eavar"][e][b]; g = s["grad"][v]
                if g > up: up = g
                if s["alpha"][v] > 0.0 and g < down: down = g
            if s["evsum"][e] < C: mg = max(mg, up)
            else: msg = max(msg, up - down)
            mg = max(mg, -down)
        want = max(mg, msg)
    else:
        want = 0.0
        for a in range(s["actvar"]):
            g = s["grad"][a]
            if s["alpha"][a] < C: want = max(want, g)
            if s["alpha"][a] > 0.0: want = max(want, -g)
    if acc != want: return "selectWorkingSet returned %r, the largest KKT violation over the active variables is %r" % (acc, want)
    if acc > 0.0 and not (i < s["actvar"] and j < s["actvar"]): return "selectWorkingSet picked (%d,%d) with only %d active variables (violation %r)" % (i, j, s["actvar"], acc)
    return None

def parse_MS(l, n, P):
    t = l.split(); nv = n * P
    s = {"actvar": int(t[2]), "actex": int(t[3]), "unshr": int(t[4])}
    vb = 6; col = lambda o, f: [f(t[vb + 7 * v + o]) for v in range(nv)]
    s["alpha"] = col(0, fh); s["grad"] = col(1, fh); s["lin"] = col(2, fh); s["vex"] = col(3, int); s["vp"] = col(4, int); s["vidx"] = col(5, int); s["vdiag"] = col(6, fh)
    eb = vb + 7 * nv + 1; w = 5 + 2 * P
    ecol = lambda o, f: [f(t[eb + w * e + o]) for e in range(n)]
    s["eorig"] = ecol(0, int); s["ey"] = ecol(1, int); s["eact"] = ecol(2, int); s["evsum"] = ecol(3, fh); s["ediag"] = ecol(4, fh)
    s["evar"] = [[int(t[eb + w * e + 5 + p]) for p in range(P)] for e in range(n)]
    s["eavar"] = [[int(t[eb + w * e + 5 + P + p]) for p in range(P)] for e in range(n)]
    return s

def ms_diff(exp, got):
    """first differing token of two MS lines (numerically equal hex floats are equal; nan == nan)"""
    if exp == got: return None
    te, tg = exp.split(), got.split()
    if len(te) != len(tg): return "different number of fields (%d vs %d)" % (len(te), len(tg))
    for i, (a, b) in enumerate(zip(te, tg)):
        if a == b: continue
        try:
            x, y = fh(a), fh(b)
            if x == y or (x != x and y != y): continue
        except ValueError: pass
        return "field %d: implementation %s, model %s" % (i, a, b)
    return None

def monitor_tables(c, ms, nm, K, simplex):
    """spec monitor on one positional state of the implementation, independent of the model: the tables are
    permutations, cross indices agree on both sides, per-variable data belongs to the variable, active counts"""
    n, k = c["n"], c["k"]; P = cardP(c["type"], k); nv = n * P
    s = parse_MS(ms, n, P)
    if sorted(s["eorig"]) != list(range(n)): return "example table is not a permutation of the data set: index = %s" % s["eorig"]
    if not (0 <= s["actvar"] <= nv and 0 <= s["actex"] <= n): return "active counts out of range"
    seen = set()
    for e in range(n):
        if s["ey"][e] != c["y"][s["eorig"][e]]: return "example at position %d (data index %d) carries label %d, data set says %d" % (e, s["eorig"][e], s["ey"][e], c["y"][s["eorig"][e]])
        if not 0 <= s["eact"][e] <= P: return "active count of example %d out of range" % e
        for p in range(P):
            v = s["evar"][e][p]
            if not 0 <= v < nv: return "var[%d][%d] out of range" % (e, p)
            if s["vex"][v] != e or s["vp"][v] != p: return "cross index: example %d lists variable %d at class position %d, the variable says (example %d, p %d)" % (e, v, p, s["vex"][v], s["vp"][v])
            seen.add(v)
        for b in range(P):
            v = s["eavar"][e][b]
            if not 0 <= v < nv: return "avar[%d][%d] out of range" % (e, b)
            if s["vex"][v] != e or s["vidx"][v] != b: return "cross index: example %d lists variable %d in active-list slot %d, the variable says (example %d, index %d)" % (e, v, b, s["vex"][v], s["vidx"][v])
            if (b < s["eact"][e]) != (v < s["actvar"]): return "example %d: slot %d %s the active part of the list but variable %d is %s" % (e, b, "inside" if b < s["eact"][e] else "outside", v, "active" if v < s["actvar"] else "inactive")
        if s["eact"][e] > 0 and e >= s["actex"]: return "inactive example %d owns active variables" % e
    if len(seen) != nv: return "variable table is not a permutation"
    for v in range(nv):
        e = s["vex"][v]; i = s["eorig"][e]; y = c["y"][i]; p = s["vp"][v]
        want = Mentry(nm, c["type"], k, P, y, p, y, p) * K[i][i]
        if s["vdiag"][v] != want and not abs(s["vdiag"][v] - want) <= 1e-15 * abs(want): return "variable %d (data index %d, p %d): diagonal %r, M*k = %r" % (v, i, p, s["vdiag"][v], want)
    return None

def monitor_kpos(c, ms, mk, K):
    n = c["n"]; t = ms.split(); P = cardP(c["type"], c["k"])
    eb = 6 + 7 * n * P + 1; w = 5 + 2 * P
    orig = [int(t[eb + w * e]) for e in range(n)]
    kt = mk.split()[2:]
    for a in range(n):
        for b in range(n):
            got = fh(kt[a * n + b]); want = K[orig[a]][orig[b]]
            if got != want and not abs(got - want) <= 1e-15 * abs(want):
                return "kernel matrix entry(%d,%d)=%r after shrinking, examples there have data indices %d,%d with k=%r" % (a, b, got, orig[a], orig[b], want)
    return None

def main():
    ck = Check(PID)
    ck.trusted = DEFAULT_TRUSTED + [
        "harness/c16_mc.cpp: private members of CSvmTrainer / QpMcBoxDecomp / QpMcSimplexDecomp reached through '#define private public' in that TU only; its step driver repeats QpSolver's loop with a configurable shrink period",
        "tools/c16.py: primal objectives of the nine formulations and the dual bound written from the definitions (validated on every run: 0 <= gap <= accuracy bound for all formulations)",
        "harness/c16_mc.cpp: the epoch loop around the real calcGradient / solveSub / updateWeightVectors of QpMcLinear* is the harness's own (random order); for QpBoxLinear::solve the schedule of a one-epoch call is re-derived by the harness with the same generator calls (checked: preferences stay 1)",
        "not modelled: working-set selection (selectWorkingSet / maxGainBox / maxGainSimplex), BiasSolver's Rprop loop, the kernel cache, the scheduling (ACF) of the linear solvers - covered by the metamorphic monitors only"]
    ck.assumptions = ["kernel matrices symmetric positive semi-definite (linear / Gaussian kernels); C > 0; labels cover 0..classes-1",
                      "tolerances of the metamorphic monitors are derived from the measured duality gap (strong convexity in w): rigorous without offset; with offset (Rprop on a sub-gradient) a heuristic radius of 4x the accuracy-implied gap is used",
                      "keys  ^(mc|bin2):offset:  mark checks that depend on the optimality of multi-class offsets trained by BiasSolver/BiasSolverSimplex (finding D5); no check of an offset-free configuration, of OVA or of the binary machine carries such a key",
                      "two-class reduction is stated with the regularisation constant scaled per formulation (WW, CS, LLW, ADM, ATM, MMR: C/2; ATS, reinforced, OVA: C)"]
    ck.proofs()
    model = extract_model(PID, "C16Extract.v", "c16_driver.ml")
    exe, err = cxx_build("c16_mc", [os.path.join(ROOT, "harness", "c16_mc.cpp")] + repo_src("src/Core/Random.cpp"))
    if exe is None:
        ck.oblige("harness builds against /repo", False, err); ck.finish()
    tmpd = os.path.join(BUILD, "tmp", PID); os.makedirs(tmpd, exist_ok=True)
    big = ck.tier == "thorough"
    R = Runner(exe, tmpd, tl=(40.0 if big else 8.0))
    rng = ck.rng

    free_lines = []; step_cfgs = []; groups = []; lin_cmds = []; solve_cfgs = []
    if ck.replay:
        for l in open(ck.replay).read().split("\n"):
            if not l or l.startswith("#"): continue
            h = l.split()[0]
            if h in ("EDGE", "BOX", "TRI", "GAIN", "LINE", "SPARSE"): free_lines.append(l)
            elif h == "STEPS": step_cfgs.append(parse_steps_line(l))
            elif h in ("LSTEPS", "BLSTEPS"): lin_cmds.append(l)
            elif h == "SOLVE": solve_cfgs.append(parse_solve_line(l))
            elif h == "GROUP": groups.append(json.loads(l[6:]))
    else:
        free_lines = gen_free(rng, big)
        cdir = os.path.join(ROOT, "corpus", PID)
        if os.path.isdir(cdir):
            for f in sorted(os.listdir(cdir)):
                for l in open(os.path.join(cdir, f)).read().split("\n"):
                    if l.startswith("GROUP "): groups.append(json.loads(l[6:]))
                    elif l.startswith("STEPS "): step_cfgs.append(parse_steps_line(l))
                    elif l and l.split()[0] in ("EDGE", "BOX", "TRI", "GAIN", "LINE", "SPARSE"): free_lines.append(l)
        for i in range(600 if big else 150): step_cfgs.append(gen_steps(rng, "s%d" % i, big))
        si = 0; rng_main = rng; rng = __import__("random").Random(ck.seed * 1000003 + 1600)   # own stream: the older streams keep their cases
        for rep in range(6 if big else 2):                  # shrinking streams: every formulation x 2..5 classes
            for t in [x for x in TYPES if x != "OVA"]:
                for k in (2, 3, 4, 5):
                    step_cfgs.append(gen_steps_shrink(rng, "h%d" % si, big, t, k)); si += 1
        for rep in range(8 if big else 2):                  # whole solver runs: every formulation
            for t in [x for x in TYPES if x != "OVA"]: solve_cfgs.append(gen_solve(rng, "v%d" % len(solve_cfgs), big, t, rng.choice([2, 3, 3, 4, 5])))
        for rep in range(12 if big else 3):                 # linear solvers: every formulation
            for t in LKINDS: lin_cmds.append(gen_lsteps(rng, "l%d" % len(lin_cmds), t, big))
        for i in range(60 if big else 16): lin_cmds.append(gen_blsteps(rng, "b%d" % i, big))
        rng = rng_main
        gi = 0
        for rep in range(10 if big else 3):                 # every formulation in every stream
            for t in TYPES:
                groups.append(gen_group(rng, "g%d" % gi, "mc", big, t)); gi += 1
                groups.append(gen_group(rng, "g%d" % gi, "bin2", big, t)); gi += 1
                groups.append(gen_group(rng, "g%d" % gi, "lin", big, t)); gi += 1
        for i in range(150 if big else 40):
            groups.append(gen_group(rng, "g%d" % gi, rng.choice(["mc", "mc", "bin2", "lin"]), big)); gi += 1
        for i in range(30 if big else 8):
            groups.append(gen_group(rng, "g%d" % gi, "mc", big, rng.choice(["WW", "CS", "ATS", "ADM", "LLW", "ATM"]), hard=True)); gi += 1
        for i in range(400 if big else 80):
            groups.append(gen_stress(rng, "g%d" % gi, big)); gi += 1

    # ---- 1. free functions
    nfree = 0
    if free_lines:
        cases = [free_lines[i:i + 40] for i in range(0, len(free_lines), 40)]
        def keyfn(msg, case): return "free:" + msg.split(":")[0]
        r = correspond(ck, cases, model, exe, monitor_free, tmpd, header_lines=0,
                       what="C16Model (float instantiation) vs shark::detail analytic sub-solvers / QpSparseArray", keyfn=keyfn)
        nfree = len(free_lines)

    # ---- 2. formulation matrices
    nnum = 0
    if not ck.replay or step_cfgs:
        seen_fm = set()
        for t in [x for x in TYPES if x != "OVA"]:
            for k in (2, 3, 4, 5):
                nm = R.num(t, k, "d"); nnum += 1
                found = [("entry", m) for m in spec_M(nm, t, k)[:1]]
                if not nm["sorted"]: found.append(("unsorted-row", "a row of M is not filled in increasing column order (QpSparseArray::add requires it; the merge scans of selectWorkingSet/maxGainBox/maxGainSimplex read the row default instead of the entry)"))
                for kind, m in found:
                    if (kind, t) in seen_fm: continue
                    seen_fm.add((kind, t))
                    cf = ck.write_replay("num_%s_%d.txt" % (t, k), "NUM %s %d d\n" % (t, k))
                    ck.violation("formulation-matrix:%s:%s" % (kind, t), {"case_file": cf, "case": "NUM %s %d d" % (t, k), "observed": m, "replay_cmd": "build/bin/std/c16_mc " + cf},
                                 "setupMcParameters* for %s, %d classes: %s" % (t, k, m))
        ck.oblige("M == <nu,nu> (centred for sum-to-zero) and sorted rows for 8 formulations x 2..5 classes", not seen_fm)

    # ---- 3. step-by-step runs
    step_reported = set()
    nsteps = 0; step_runs = 0; dis_steps = []; mon_steps = 0; branch = {"one": 0, "triangle": 0, "box": 0}; shrunk_states = 0
    if solve_cfgs and not step_cfgs: step_cfgs = []
    if step_cfgs or solve_cfgs:
        lines = [[steps_line(c)] for c in step_cfgs] + [[solve_line(c)] for c in solve_cfgs]
        open(os.path.join(tmpd, "steps_in.txt"), "w").write("\n".join(l[0] for l in lines) + "\n")
        rc, outtxt, err = sh([exe, os.path.join(tmpd, "steps_in.txt")], timeout=1500, env=ENV1)
        byid = {}; cur = None
        for l in outtxt.split("\n"):
            if not l: continue
            tk = l.split(None, 2)
            if tk[0] == "RUN": cur = []; byid[tk[1]] = cur
            elif tk[0] in ("EXC", "STDEXC"): byid.setdefault(tk[1], []).append(l)
            elif cur is not None: cur.append(l)
        model_in = []; owner = []
        st_in = []; st_pairs = []; st_mon = 0; st_ops = {}; st_tables = 0
        for c in step_cfgs:
            out = byid.get(c["id"])
            if out is None or not any(l.startswith("END ") or l.startswith("EXC") or l.startswith("STDEXC") for l in out):
                cf = ck.write_replay("steps_%s.txt" % c["id"], steps_line(c) + "\n")
                ck.violation("steps:crash:%s" % c["type"], {"case_file": cf, "case": steps_line(c), "replay_cmd": "python3 tools/c16.py --replay " + cf},
                             "implementation crashed/stopped in step-driven run %s (rc=%s) %s" % (c["id"], rc, err.strip()[-200:])); continue
            nm = R.num(c["type"], c["k"], "d"); K = kmat(c, c["x"])
            bad, steps = monitor_steps(c, out, nm, K)
            step_runs += 1; nsteps += len(steps)
            for l in out:
                if l.startswith("ST "):
                    tk = l.split(None, 4)
                    if int(tk[2]) < c["n"] * cardP(c["type"], c["k"]): shrunk_states += 1
            for inp, exp, rawl in steps:
                tk = inp.split()
                if tk[3] == tk[5] and tk[4] == tk[6]: branch["one"] += 1
                elif tk[3] == tk[5]: branch["triangle" if tk[0] == "SS" else "box"] += 1
                else: branch["box"] += 1
            if bad:
                mon_steps += 1
                key, msg = bad[0]
                skey = (key, c["type"] in SIMPLEX)
                if skey in step_reported: continue
                step_reported.add(skey)
                # shorten: fewer steps while the same key fails
                small = dict(c)
                def fails(ns):
                    c2 = dict(c); c2["nsteps"] = ns
                    rc2, o2, e2 = run_lines(exe, [steps_line(c2)], os.path.join(tmpd, "steps_min.txt"), env=ENV1)
                    b2, _ = monitor_steps(c2, [x for x in o2 if not x.startswith("RUN ")], nm, K)
                    return bool(b2) and b2[0][0] == key
                lo, hi = 1, c["nsteps"]
                while lo < hi:
                    mid = (lo + hi) // 2
                    if fails(mid): hi = mid
                    else: lo = mid + 1
                small["nsteps"] = lo
                cf = ck.write_replay("steps_%s.txt" % c["id"], "# %s\n%s\n" % (msg, steps_line(small)))
                ck.violation("steps:%s:%s:%s" % (key, c["type"], "shrink" if c["sp"] else "noshrink"),
                             {"case_file": cf, "case": steps_line(small), "observed": msg, "replay_cmd": "python3 tools/c16.py --replay " + cf},
                             "spec monitor fails on the implementation (step-driven %s): %s" % ("QpMcSimplexDecomp" if c["type"] in SIMPLEX else "QpMcBoxDecomp", msg))
            else:
                for inp, exp, rawl in steps: model_in.append(inp); owner.append((c, exp, rawl))
                # state model: spec monitor on every positional state, then the model operations
                sinp, spairs, skpos, ssels = split_state_trace(out)
                msg = None
                for opl, ms in spairs:
                    if not ms.startswith("MS "): continue
                    msg = monitor_tables(c, ms, nm, K, c["type"] in SIMPLEX); st_tables += 1
                    if msg: msg = "after '%s': %s" % (" ".join(opl.split()[2:5]), msg); break
                if not msg:
                    for ms, se, mo in ssels:
                        msg = monitor_select(c, ms, se, mo, c["type"] in SIMPLEX)
                        if msg: break
                if not msg:
                    for ms, mk in skpos:
                        msg = monitor_kpos(c, ms, mk, K)
                        if msg: break
                if msg:
                    st_mon += 1
                    skey = ("tables", c["type"] in SIMPLEX)
                    if skey not in step_reported:
                        step_reported.add(skey)
                        cf = ck.write_replay("steps_%s.txt" % c["id"], "# %s\n%s\n" % (msg, steps_line(c)))
                        ck.violation("steps:tables:%s:%s" % (c["type"], "shrink" if c["sp"] else "noshrink"),
                                     {"case_file": cf, "case": steps_line(c), "observed": msg, "replay_cmd": "python3 tools/c16.py --replay " + cf},
                                     "spec monitor fails on the implementation (step-driven %s, variable/example tables): %s" % ("QpMcSimplexDecomp" if c["type"] in SIMPLEX else "QpMcBoxDecomp", msg))
                else:
                    st_in += sinp; st_pairs += [(c, opl, ms) for opl, ms in spairs]
        for c in solve_cfgs:                                   # whole runs of QpSolver::solve
            out = byid.get(c["id"])
            if out is None or not any(l.startswith("SEND ") for l in out):
                cf = ck.write_replay("solve_%s.txt" % c["id"], solve_line(c) + "\n")
                ck.violation("solve:crash:%s" % c["type"], {"case_file": cf, "case": solve_line(c), "replay_cmd": "python3 tools/c16.py --replay " + cf},
                             "implementation crashed/stopped/threw in QpSolver::solve run %s: %s" % (c["id"], " | ".join(l for l in (out or []) if l.startswith(("EXC", "STDEXC")))[:300])); st_mon += 1; continue
            nm = R.num(c["type"], c["k"], "d"); K = kmat(c, c["x"])
            sinp, spairs, skpos, ssels = split_state_trace(out)
            msg = None
            for opl, ms in spairs:
                msg = monitor_tables(c, ms.split(" X ")[0], nm, K, c["type"] in SIMPLEX); st_tables += 1
                if not msg and " X accuracy" in ms:
                    sv = [l for l in out if l.startswith("SV ")][0].split()
                    if not fh(sv[5]) < c["eps"]: msg = "QpSolver::solve reports QpAccuracyReached but checkKKT() over all variables is %r >= eps=%r" % (fh(sv[5]), c["eps"])
                    elif int(ms.split()[2]) != c["n"] * cardP(c["type"], c["k"]): msg = "QpSolver::solve returned at accuracy with shrunk variables"
                if msg: break
            if msg:
                st_mon += 1
                cf = ck.write_replay("solve_%s.txt" % c["id"], "# %s\n%s\n" % (msg, solve_line(c)))
                ck.violation("solve:%s:%s" % ("tables" if "KKT" not in msg else "exit", c["type"]), {"case_file": cf, "case": solve_line(c), "observed": msg, "replay_cmd": "python3 tools/c16.py --replay " + cf},
                             "spec monitor fails on the implementation (QpSolver::solve on %s): %s" % ("QpMcSimplexDecomp" if c["type"] in SIMPLEX else "QpMcBoxDecomp", msg))
            else:
                st_in += sinp; st_pairs += [(dict(c, solve=1), opl, ms) for opl, ms in spairs]
        st_dis = []
        if st_in:
            rc3, sout, serr = run_lines(model, st_in, os.path.join(tmpd, "state_model_in.txt"), timeout=1500)
            if rc3 != 0 or len(sout) != len(st_pairs): raise RuntimeError("model driver failed on the state lines (%d outputs for %d operations): %s" % (len(sout), len(st_pairs), serr[-500:]))
            for (c, opl, ms), got in zip(st_pairs, sout):
                kind = opl.split()[2] if opl.startswith("MO ") else {"MI ": "init", "SE ": "select", "KK ": "checkKKT", "MV ": "solve"}.get(opl[:3], "init")
                if kind == "biasupd": kind = "performBiasUpdate"
                st_ops[kind] = st_ops.get(kind, 0) + 1
                d = ms_diff(ms, got)
                if d: st_dis.append((c, opl, d))
        if st_dis and not mon_steps and not st_mon:
            c, opl, d = st_dis[0]
            cline = solve_line(c) if c.get("solve") else steps_line(c)
            cf = ck.write_replay("state_%s.txt" % c["id"], "# %s : %s\n%s\n" % (" ".join(opl.split()[:5]), d, cline))
            ck.violation("correspondence:state", {"case_file": cf, "case": cline, "operation": opl[:200], "difference": d,
                                            "broken": "correspondence C16State (mstep / init_state) vs QpMcBoxDecomp / QpMcSimplexDecomp", "replay_cmd": "python3 tools/c16.py --replay " + cf},
                         "correspondence C16State.mstep vs the real %s no longer checks (%d operations differ, first: %s: %s); the spec monitors pass on every explored input"
                         % ("QpMcSimplexDecomp" if c["type"] in SIMPLEX else "QpMcBoxDecomp", len(st_dis), " ".join(opl.split()[:5]), d), no_input=True)
        ck.oblige("state model C16State + C16Select (gradient, tables, shrink/unshrink, addDeltaLinear, constructor, selectWorkingSet, checkKKT, whole QpSolver::solve runs) vs the real solvers, one operation at a time from the implementation's own state: %d operations %s; table monitor on %d states"
                  % (len(st_pairs), st_ops, st_tables), not st_dis and not st_mon, "" if not (st_dis or st_mon) else "%d differing operations, %d monitor failures" % (len(st_dis), st_mon))
        if model_in:
            rc2, mout, merr = run_lines(model, model_in, os.path.join(tmpd, "steps_model_in.txt"))
            if rc2 != 0 or len(mout) != len(model_in): raise RuntimeError("model driver failed on the step lines: " + merr[-500:])
            for (c, exp, rawl), got, inp in zip(owner, mout, model_in):
                if got != exp and [fh(x) for x in got.split()[1:]] != [fh(x) for x in exp.split()[1:]]:
                    dis_steps.append((c, inp, exp, got))
        if dis_steps and not mon_steps:
            c, inp, exp, got = dis_steps[0]
            cf = ck.write_replay("steps_%s.txt" % c["id"], steps_line(c) + "\n")
            ck.violation("correspondence", {"case_file": cf, "case": steps_line(c), "step": inp, "implementation_output": exp, "model_output": got,
                                            "broken": "correspondence C16Model.simplex_step/box_step vs updateSMO", "replay_cmd": "python3 tools/c16.py --replay " + cf},
                         "correspondence C16Model.simplex_step/box_step vs the real updateSMO no longer checks (%d steps differ); the spec monitor passes on every explored input" % len(dis_steps), no_input=True)
        ck.oblige("one-step correspondence C16Model.simplex_step/box_step (float-instantiated) vs real updateSMO on %d steps of %d runs" % (nsteps, step_runs),
                  not dis_steps and not mon_steps, "" if not (dis_steps or mon_steps) else "%d differing steps, %d monitor failures" % (len(dis_steps), mon_steps))

    # ---- 3b. linear solvers step by step
    nlin = 0; lin_kinds = {}
    if lin_cmds:
        open(os.path.join(tmpd, "lin_in.txt"), "w").write("\n".join(lin_cmds) + "\n")
        rc, outtxt, err = sh([exe, os.path.join(tmpd, "lin_in.txt")], timeout=900, env=ENV1)
        cur = []; runs = []
        for l in outtxt.split("\n"):
            if l.startswith("LS ") or l.startswith("BL "): cur.append(l)
            elif l.startswith("LEND ") or l.startswith("EXC ") or l.startswith("STDEXC "): runs.append((cur, l)); cur = []
        lmon = 0; ldis = []; lnotes = {}; linp = []; lexp = []; lown = []
        if len(runs) != len(lin_cmds):
            cf = ck.write_replay("lin_crash.txt", "\n".join(lin_cmds) + "\n")
            ck.violation("lin-steps:crash", {"case_file": cf, "replay_cmd": "python3 tools/c16.py --replay " + cf}, "implementation crashed/stopped in the step-driven linear solver runs (rc=%s) %s" % (rc, err.strip()[-200:]))
        for cmd, (ls, endl) in zip(lin_cmds, runs):
            if not endl.startswith("LEND"):
                cf = ck.write_replay("lin_%s.txt" % cmd.split()[1], cmd + "\n"); lmon += 1
                ck.violation("lin-steps:exception:%s" % cmd.split()[2], {"case_file": cf, "case": cmd, "replay_cmd": "python3 tools/c16.py --replay " + cf}, "linear solver step run threw: " + endl); continue
            found = None
            for l in ls:
                bad1, note = monitor_lin(l)
                if note and note[0] not in lnotes: lnotes[note[0]] = {"max_abs_diff": note[1], "step": note[2], "internal_gradient_after_solveSub": note[3], "gradient_recomputed_from_w": note[4], "command": cmd}
                if bad1 and not found: found = (bad1, l)
            if found:
                lmon += 1; (key, msg), l = found
                kk = "lin-steps:%s:%s" % (key, cmd.split()[2] if cmd.startswith("LSTEPS") else "box")
                if kk not in step_reported:
                    step_reported.add(kk)
                    cf = ck.write_replay("lin_%s.txt" % cmd.split()[1], "# %s\n%s\n" % (msg, cmd))
                    ck.violation(kk, {"case_file": cf, "case": cmd, "observed": msg, "step": l[:300], "replay_cmd": "python3 tools/c16.py --replay " + cf},
                                 "spec monitor fails on the implementation (linear solver, one step): " + msg)
                continue
            for l in ls:
                a, b = l.split(" > ")
                linp.append(a); lexp.append("V " + b.split(" G ")[0].split(" P ")[0].strip()); lown.append(cmd)
                kk = a.split()[2] if a.startswith("LS ") else "QpBoxLinear"; lin_kinds[kk] = lin_kinds.get(kk, 0) + 1
        if linp:
            rc4, lout, lerr = run_lines(model, linp, os.path.join(tmpd, "lin_model_in.txt"), timeout=900)
            if rc4 != 0 or len(lout) != len(linp): raise RuntimeError("model driver failed on the linear-solver lines: " + lerr[-500:])
            inexact = 0
            for a, e, g, cmd in zip(linp, lexp, lout, lown):
                if e == g: continue
                te, tg = e.split(), g.split()
                ok = len(te) == len(tg)
                if ok:
                    for x, z in zip(te[1:], tg[1:]):
                        u, v = fh(x), fh(z)
                        if u == v or (u != u and v != v): continue
                        # QpBoxLinear with more than one feature: inner_prod goes through the BLAS, summation order is not the model's
                        if a.startswith("BL ") and int(a.split()[6]) > 1 and abs(u - v) <= 1e-10 * (1 + abs(u)): inexact += 1; continue
                        ok = False; break
                if not ok: ldis.append((cmd, a, e, g))
            ck.notes["linear_steps_compared_with_tolerance(QpBoxLinear,d>1)"] = inexact
        nlin = len(linp)
        if ldis and not lmon:
            cmd, a, e, g = ldis[0]
            cf = ck.write_replay("lin_%s.txt" % cmd.split()[1], cmd + "\n")
            ck.violation("correspondence:linear", {"case_file": cf, "case": cmd, "step": a[:400], "implementation_output": e[:400], "model_output": g[:400],
                                                   "broken": "correspondence C16Linear.lin_step / boxlin_epoch vs QpMcLinear* / QpBoxLinear", "replay_cmd": "python3 tools/c16.py --replay " + cf},
                         "correspondence C16Linear vs the real linear solvers no longer checks (%d steps differ); the spec monitors pass on every explored input" % len(ldis), no_input=True)
        ck.oblige("linear solvers: C16Linear.lin_step / boxlin_epoch (float-instantiated) vs the real calcGradient+solveSub+updateWeightVectors of QpMcLinear{%s} and QpBoxLinear::solve on %d steps %s"
                  % (",".join(LKINDS), nlin, lin_kinds), not ldis and not lmon, "" if not (ldis or lmon) else "%d differing steps, %d monitor failures" % (len(ldis), lmon))
        # not part of property C16 (results stay correct: the outer loop recomputes the gradient), recorded, not hidden
        ck.notes["linear_subsolver_internal_gradient_differs_from_true_gradient"] = lnotes

    # ---- 4. metamorphic groups on the real trainers
    stats = {}; gfail = 0; gknown = 0; known_seen = set(); reported = set(); bykey = {}
    skipped = 0
    for c in groups:
        if R.hangs >= 12: skipped += 1; continue          # every further non-terminating run would cost its time limit
        try:
            bad = check_group(ck, R, c, stats)
        except (ValueError, IndexError, KeyError) as ex:
            bad = [("parse", "could not interpret the harness output: %r" % (ex,))]
        if bad:
            key, msg = bad[0]
            k2 = "%s:%s:%s" % (c["kind"], key, c["type"])
            bykey[k2] = bykey.get(k2, 0) + 1
            if ck.match_known(k2) is not None:
                # a registered known finding: reported once (KNOWN-FINDING line), kept as a replay, not minimised, not counted
                gknown += 1
                if k2 not in known_seen:
                    known_seen.add(k2)
                    cf = ck.write_replay("known_%s.txt" % c["id"], "# %s\nGROUP %s\n" % (msg, json.dumps(c)))
                    ck.violation(k2, {"case_file": cf, "group": c, "observed": msg}, msg)
                continue
            gfail += 1
            if k2 in reported or len(reported) >= 8: continue
            reported.add(k2)
            # shrink the data set while the same key fails
            def fails(idx):
                if len(idx) < c["k"] + 1: return False
                c2 = dict(c); c2["n"] = len(idx); c2["x"] = [c["x"][i] for i in idx]; c2["y"] = [c["y"][i] for i in idx]
                if sorted(set(c2["y"])) != list(range(c["k"])): return False
                c2["variants"] = []
                for v in c["variants"]:
                    v2 = dict(v)
                    if "perm" in v2:
                        pos = {i: j for j, i in enumerate(idx)}
                        v2["perm"] = [pos[i] for i in v["perm"] if i in pos]
                    v2["cache"] = max(v2["cache"], 2 * len(idx)) if v2["cache"] < 100000 else v2["cache"]
                    c2["variants"].append(v2)
                try: b2 = check_group(ck, R, c2, {})
                except Exception: return False
                if b2 and b2[0][0] == key: fails.best = c2; return True
                return False
            fails.best = c
            if c["n"] <= 24: ddmin(list(range(c["n"])), fails, max_runs=30)
            small = fails.best
            b3 = check_group(ck, R, small, {}) or bad
            cf = ck.write_replay("group_%s.txt" % c["id"], "# %s\nGROUP %s\n" % (b3[0][1], json.dumps(small)))
            ck.violation(k2, {"case_file": cf, "group": small, "observed": b3[0][1], "replay_cmd": "python3 tools/c16.py --replay " + cf},
                         "spec monitor fails on the implementation (%s, %s): %s" % ({"mc": "configuration invariance", "bin2": "two-class reduction", "lin": "linear vs kernel solver"}[c["kind"]], c["type"], b3[0][1]))
    if groups:
        ck.oblige("metamorphic monitors on %d groups (%d trainer runs; %d groups hit a registered known finding)" % (len(groups), stats.get("runs", 0), gknown), gfail == 0,
                  "" if not gfail else "%d groups fail: %s" % (gfail, {k: v for k, v in bykey.items() if ck.match_known(k) is None}))
        ck.notes["groups_hitting_known_findings"] = gknown

    cfgs = stats.get("configs", set())
    ck.cov["evaluations"] = nfree + nnum + nsteps + stats.get("runs", 0) + (len(st_pairs) if step_cfgs else 0) + nlin
    if step_cfgs: ck.notes["state_model_operations"] = st_ops
    ck.cov["distinct_nontrivial"] = len([x for x in cfgs if x[-1]]) + len(set(l.split()[0] for l in free_lines)) + len(set((c["type"], c["k"], bool(c["sp"])) for c in step_cfgs))
    ck.cov["rule"] = ("free: generated calls of the 5 analytic functions + QpSparseArray lookups (integers, dyadics, values around the 1e-12/1e-14 thresholds, indefinite blocks), exact model-vs-C++ comparison; "
                      "steps: step-driven runs of the real QpMcSimplexDecomp/QpMcBoxDecomp (8 formulations, 2-5 classes, n<=9 (14), shrink period 0/2/3/7, random working sets mixed in), every updateSMO is one evaluation; "
                      "state: the same runs + shrink streams (every formulation x 2..5 classes, shrink every 1-3 steps, small C = many variables at C, separable blobs with large C = whole examples at zero, addDeltaLinear events): every constructor / updateSMO / shrink / unshrink / addDeltaLinear compared as a full positional state = one evaluation; "
                      "linear: 3 (12) runs per QpMcLinear class (2-5 classes, 2-5 epochs) + 16 (60) QpBoxLinear runs, every example step / epoch = one evaluation; "
                      "groups: one data set x formulation x {offset} each, trained in the base configuration and 4 (5) variants {shrinking, cache size, float cache, permutation} = one evaluation per trainer run; "
                      "mc: 3-5 classes; bin2: two classes through solveMcBox/solveMcSimplex vs the binary machine; lin: LinearCSvmTrainer/QpMcLinear* (2 seeds + direct) vs kernel trainer with LinearKernel; "
                      "non-trivial = distinct (formulation, offset, shrinking, precomputed, cache type, permuted, cache>=n^2) tuples whose run took >= 3 iterations + distinct free functions + distinct (formulation, classes, shrinking) of step runs")
    ck.cov["samples"] = [free_lines[0] if free_lines else "", steps_line(step_cfgs[0])[:300] if step_cfgs else "", ("GROUP " + json.dumps(groups[0]))[:400] if groups else ""]
    ck.cov["traces_validated_against_impl"] = step_runs
    ck.cov["disagreements_checked"] = len(dis_steps) + mon_steps + gfail
    def top(name):
        v = sorted(stats.get(name, []), reverse=True)[:3]
        return [(round(a, 4), b) for a, b in v]
    ck.notes["worst_ratios(observed/allowed)"] = {k: top(k) for k in ("gap_ratio", "inv_ratio", "biasP_ratio", "offset_ratio", "bin2_ratio", "lin_ratio")}
    ck.notes["group_failures_by_key"] = bykey; ck.notes["groups_skipped_after_12_non_terminating_runs"] = skipped
    ck.notes["step_branches"] = branch; ck.notes["step_states_with_shrunk_variables"] = shrunk_states
    ck.notes["max_iterations_of_a_trainer_run"] = stats.get("max_iters", 0); ck.notes["shrinking_runs_over_1000_iterations"] = stats.get("shrink_long_runs", 0)
    ck.notes["streams"] = {"free": nfree, "formulation_matrices": nnum, "step_runs": step_runs, "steps": nsteps, "groups": len(groups), "trainer_runs": stats.get("runs", 0)}
    log("worst ratios: %s" % ck.notes["worst_ratios(observed/allowed)"])
    ck.finish()

if __name__ == "__main__":
    main()
