#!/usr/bin/env python3
"""Diagnostic (NOT a registered check): which lines / functions of a property's anchor files do the harnesses of its quick
check actually execute?  Used to find blind spots of the correspondence streams (DESIGN.md 6.6).

usage: tools/coverage.py Cxx [Cyy ...]      (writes build/coverage/Cxx.txt and prints a summary)

The harnesses are rebuilt with `-O1 --coverage` into build/{obj,bin}/*_cov (VERIF_COVERAGE=1, see vlib.cxx_build), the quick
command of the property is run once with evidence redirected to build/, and gcov's JSON output of every instrumented TU is
merged per source file.  Template code that is never instantiated has no line records at all: it shows up as the gap between
"code lines" (a crude count of lines with statements) and "instrumented"."""
import glob, gzip, json, os, re, subprocess, sys
ROOT = os.path.dirname(os.path.dirname(os.path.abspath(__file__)))
REPO = os.environ.get("VERIF_REPO", "/repo")

def anchors(pid):
    for l in open(os.path.join(ROOT, "properties.jsonl")):
        p = json.loads(l)
        if p["id"] == pid:
            out = []
            for f in p["anchors"]["files"]:
                full = os.path.join(REPO, f)
                if os.path.isdir(full):
                    out += sorted(os.path.relpath(x, REPO) for x in glob.glob(full + "/**/*", recursive=True) if os.path.isfile(x) and not os.path.basename(x).startswith("."))
                elif os.path.isfile(full) and re.search(r"\.(h|hpp|inl|cpp|tpp)$", f):
                    out.append(f)
                    # implementation siblings of a header: Impl/<name>.inl, Impl/<name>.h
                    d, b = os.path.split(f); stem = os.path.splitext(b)[0]
                    for ext in (".inl", ".h", ".hpp"):
                        s = os.path.join(d, "Impl", stem + ext)
                        if os.path.isfile(os.path.join(REPO, s)) and s not in out: out.append(s)
            return out
    raise SystemExit("unknown property " + pid)

def run(pid):
    man = json.load(open(os.path.join(ROOT, "MANIFEST.json")))
    cmd = [c["quick_cmd"] for c in man["checks"] if c["property_id"] == pid][0]
    # fresh counters
    for f in glob.glob(os.path.join(ROOT, "build", "obj", "*_cov*", "*.gcda")): os.remove(f)
    env = dict(os.environ, VERIF_COVERAGE="1", VERIF_SWEEP="1", VERIF_EVIDENCE_DIR=os.path.join(ROOT, "build", "evidence_scratch"))
    os.makedirs(env["VERIF_EVIDENCE_DIR"], exist_ok=True)
    r = subprocess.run(cmd, shell=True, cwd=ROOT, env=env, capture_output=True, text=True)
    tail = [l for l in (r.stdout + r.stderr).split("\n") if l.startswith("[" + pid + "]") or "VIOLATION" in l][-3:]
    lines, funcs = {}, {}
    for gcda in glob.glob(os.path.join(ROOT, "build", "obj", "*_cov*", "*.gcda")):
        g = subprocess.run(["gcov", "--json-format", "--stdout", "-o", os.path.dirname(gcda), gcda], capture_output=True, cwd=os.path.dirname(gcda))
        if g.returncode != 0 or not g.stdout: continue
        for doc in g.stdout.decode(errors="replace").split("\n"):
            if not doc.strip().startswith("{"): continue
            try: j = json.loads(doc)
            except ValueError: continue
            for f in j.get("files", []):
                fn = os.path.realpath(os.path.join(j.get("current_working_directory", "."), f["file"]))
                if not fn.startswith(os.path.realpath(REPO) + "/"): continue
                rel = os.path.relpath(fn, os.path.realpath(REPO))
                d = lines.setdefault(rel, {})
                for ln in f.get("lines", []):
                    d[ln["line_number"]] = d.get(ln["line_number"], 0) + ln["count"]
                fd = funcs.setdefault(rel, {})
                for fu in f.get("functions", []):
                    k = (fu["start_line"], fu.get("end_line", fu["start_line"]), fu.get("demangled_name", fu["name"]))
                    fd[k] = fd.get(k, 0) + fu["execution_count"]
    return tail, lines, funcs

def code_lines(path):
    n = 0; incomment = False
    for l in open(path, errors="replace"):
        s = l.strip()
        if incomment:
            if "*/" in s: incomment = False
            continue
        if s.startswith("/*"):
            if "*/" not in s: incomment = True
            continue
        if not s or s.startswith("//") or s.startswith("#") or s in ("{", "}", "};", "public:", "private:", "protected:"): continue
        if ";" in s or s.endswith("{") or s.endswith(")"): n += 1
    return n

def report(pid):
    tail, lines, funcs = run(pid)
    out = ["coverage of the anchor files of %s by its quick check (%s)" % (pid, " | ".join(tail))]
    tot_i = tot_h = 0
    for a in anchors(pid):
        d = lines.get(a)
        cl = code_lines(os.path.join(REPO, a))
        if d is None:
            out.append("%-78s code lines %4d   NOT COMPILED INTO ANY HARNESS (or nothing instantiated)" % (a, cl)); continue
        inst = len(d); hit = sum(1 for v in d.values() if v > 0); tot_i += inst; tot_h += hit
        out.append("%-78s code lines %4d  instrumented %4d  executed %4d (%3d%%)" % (a, cl, inst, hit, 100 * hit // max(inst, 1)))
        # uncovered functions (short names, grouped by start line)
        byline = {}
        for (sl, el, nm), c in funcs.get(a, {}).items():
            # an inlined function has execution count 0 but executed body lines: called if any line of its body was executed
            c += sum(v for ln, v in d.items() if sl < ln <= el)
            e = byline.setdefault(sl, [0, nm]); e[0] += c
        for sl in sorted(byline):
            if byline[sl][0] == 0:
                nm = re.sub(r"\[abi:cxx11\]", "", byline[sl][1]); nm = re.sub(r"<[^<>]*(<[^<>]*(<[^<>]*>[^<>]*)*>[^<>]*)*>", "<>", nm)
                out.append("      never called   line %4d  %s" % (sl, nm[:150]))
        # uncovered line ranges inside called functions
        miss = sorted(k for k, v in d.items() if v == 0)
        rng = []
        for k in miss:
            if rng and k <= rng[-1][1] + 2: rng[-1][1] = k
            else: rng.append([k, k])
        if rng: out.append("      lines never executed: " + " ".join("%d-%d" % (a0, b0) if a0 != b0 else str(a0) for a0, b0 in rng)[:1500])
    out.append("TOTAL instrumented %d executed %d (%d%%)" % (tot_i, tot_h, 100 * tot_h // max(tot_i, 1)))
    os.makedirs(os.path.join(ROOT, "build", "coverage"), exist_ok=True)
    open(os.path.join(ROOT, "build", "coverage", pid + ".txt"), "w").write("\n".join(out) + "\n")
    print("\n".join(out))

if __name__ == "__main__":
    for pid in sys.argv[1:]: report(pid)
