#!/usr/bin/env python3
"""usage: record_fixes.py <property> <n>  -- append the last n 'fix:' commits of /repo to known_findings.json (fixed list)"""
import json, subprocess, sys, os
prop, n = sys.argv[1], int(sys.argv[2])
root = os.path.dirname(os.path.dirname(os.path.abspath(__file__)))
p = os.path.join(root, "known_findings.json"); k = json.load(open(p))
log = subprocess.run(["git", "-C", "/repo", "log", "--format=%h %s", "-%d" % n], capture_output=True, text=True).stdout.strip().split("\n")
have = {f["commit"] for f in k["fixed"]}
for l in reversed(log):
    h, msg = l.split(" ", 1)
    assert msg.startswith("fix: "), msg
    if h in have: continue
    k["fixed"].append({"line": "fixed: property=%s %s %s" % (prop, h, msg[5:]), "property": prop, "commit": h})
json.dump(k, open(p, "w"), indent=1)
print("recorded", n, "for", prop)
