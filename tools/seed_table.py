#!/usr/bin/env python3
"""Print DESIGN.md 6.3 table rows for the seeded changes that are not in the table yet (from seeded/*/meta.json)."""
import json, os, re, sys
V = os.path.dirname(os.path.dirname(os.path.abspath(__file__)))
design = open(os.path.join(V, "DESIGN.md")).read()
def clip(t, n):
    t = " ".join(str(t).split()).replace("|", "\\|")
    return t if len(t) <= n else t[:n - 3] + "..."
rows = []
for sid in sorted(os.listdir(os.path.join(V, "seeded")), key=lambda s: (s.split("-")[0], int(s.split("-")[1]))):
    if re.search(r"^\| %s[ `]" % re.escape(sid), design, re.M): continue
    m = json.load(open(os.path.join(V, "seeded", sid, "meta.json")))
    runs = [m.get("check_run", {})] + m.get("rechecks", [])
    last = runs[-1]
    how = next((l.strip()[3:] for l in last.get("output", []) if l.strip().startswith("->")), "")
    if not how: how = next((l for l in last.get("output", []) if "VIOLATION" in l), "not caught")
    note = ""
    if m.get("missed_at_first") or (len(runs) > 1 and runs[0].get("exit") == 0 and m.get("caught")):
        note = "**missed at first**; " + clip(last.get("note", ""), 160)
    if not m.get("caught"): note = "**NOT CAUGHT**"
    rows.append("| %s %s | %s | %s | %s |" % (sid, clip(m.get("summary", ""), 230), clip(m.get("what_it_needs_to_manifest", ""), 200), clip(how, 230), note))
print("\n".join(rows))
