#!/usr/bin/env python3
"""C20 translator: regenerate the access summary of every SHARK_PARALLEL_FOR region from the CURRENT
source (vlib.REPO) and emit Coq obligations.

How: small translation units instantiate each anchored routine; `clang++ -fopenmp -fsyntax-only
-Xclang -ast-dump=json -Xclang -ast-dump-filter=<name>` gives the instantiated AST in which the
`_Pragma`-based macros of shark/Core/OpenMP.h appear as OMPParallelForDirective / OMPCriticalDirective.

What is read from the AST of a region (loop `for(int i = ..)` under the directive):
  * tracked variables = everything referenced in the loop body that is declared outside it (locals and
    parameters of the enclosing function, data members through `this`, globals);
  * write  = target of `=`, compound assignment, `++/--`; object of a non-const member call or member
             operator; lvalue of non-const type bound directly to a call/constructor argument (i.e.
             passed by non-const reference: clang inserts a NoOp cast to `const T` for const references and
             an LValueToRValue cast for scalars by value, so the absence of both identifies it);
             non-const iterator/pointer into a tracked variable handed to a function not listed read-only;
    read   = everything else;
  * inside critical = under an OMPCriticalDirective;
  * index  = the subscript / accessor argument mentions the loop variable (or a local computed from it)
             -> SharedIndexed; mentions omp_get_thread_num (SHARK_THREAD_NUM) -> ThreadLocal, whose
             capacity is read off the initialiser of the indexed container (mentions std::min(...threads...)
             -> CapMinThreadsIters; threads only -> CapThreads);
  * local references / iterators / pointers initialised from a tracked variable are aliases of it;
  * calls of methods of the enclosing class on `this` are followed (depth 2) when their body is in the dump.
What is NOT derived but taken from hand-kept tables (listed in the evidence with every use):
  * READONLY_FUNCS  : std algorithms that only read through the iterators they get;
  * VIEW_FUNCS      : functions returning a view/proxy/reference into their first argument;
  * COMPONENT_BASES : plugged-in components (model/kernel/loss/metric): a const method with external State
                      is a read of the component *provided the component keeps no hidden mutable state*;
                      STOCHASTIC lists components whose const eval draws from random::globalRng — for a
                      region that calls model->eval an extra obligation `<region>_stochastic` is generated;
  * CONST_EQUIV     : non-const methods that do not modify their object in the configuration used.
Assumption recorded per use: an index expression that mentions the loop variable addresses different
cells in different iterations (the expression text is listed in the evidence).
"""
import json, os, re, sys, hashlib
sys.path.insert(0, os.path.dirname(os.path.abspath(__file__)))
import vlib
from vlib import sh, log

CLANG = "clang++"

# ------------------------------------------------------------------------------------------------
# translation units: (name, header anchor(s) relative to include/, filter strings, source)

TUS = [
 ("errorfunction", ["shark/ObjectiveFunctions/Impl/ErrorFunction.inl"], ["ErrorFunctionImpl"], r"""
#include <shark/ObjectiveFunctions/ErrorFunction.h>
#include <shark/ObjectiveFunctions/Loss/SquaredLoss.h>
#include <shark/Models/LinearModel.h>
using namespace shark;
double f(LabeledData<RealVector,RealVector> const& d, WeightedLabeledData<RealVector,RealVector> const& wd){
  LinearModel<> m(2,2); SquaredLoss<> l;
  ErrorFunction<> e(d,&m,&l); ErrorFunction<> we(wd,&m,&l);
  RealVector p=m.parameterVector(); ErrorFunction<>::FirstOrderDerivative g;
  return e.eval(p)+e.evalDerivative(p,g)+we.eval(p)+we.evalDerivative(p,g);
}
"""),
 ("loss", ["shark/ObjectiveFunctions/Loss/AbstractLoss.h"], ["AbstractLoss"], r"""
#include <shark/ObjectiveFunctions/Loss/SquaredLoss.h>
using namespace shark;
double f(Data<RealVector> const& a, Data<RealVector> const& b){ SquaredLoss<> l; return l.eval(a,b); }
"""),
 ("kernel", ["shark/Models/Kernels/KernelHelpers.h", "shark/LinAlg/KernelMatrix.h"],
  ["shark::calculateRegularizedKernelMatrix", "shark::calculateMixedKernelMatrix", "shark::KernelMatrix"], r"""
#include <shark/Models/Kernels/KernelHelpers.h>
#include <shark/Models/Kernels/LinearKernel.h>
#include <shark/LinAlg/KernelMatrix.h>
using namespace shark;
double f(Data<RealVector> const& a, Data<RealVector> const& b){
  LinearKernel<> k; RealMatrix M = calculateRegularizedKernelMatrix(k,a,0.5); RealMatrix N = calculateMixedKernelMatrix(k,a,b);
  KernelMatrix<RealVector,double> km(k,a); double row[64]; km.row(0,0,a.numberOfElements(),row);
  return M(0,0)+N(0,0)+row[0];
}
"""),
 ("transform", ["shark/Data/Dataset.h"], ["shark::transform"], r"""
#include <shark/Data/Dataset.h>
#include <shark/Models/LinearModel.h>
using namespace shark;
struct Elem { typedef RealVector result_type; RealVector operator()(RealVector const& x) const { return 2.0*x; } };
double f(Data<RealVector> const& a){
  LinearModel<> m(2,2);
  Data<RealVector> r1 = transform(a, Elem());   // element-wise overload
  Data<RealVector> r2 = transform(a, m);        // batch-wise overload
  return r1.numberOfElements()+r2.numberOfElements();
}
"""),
 ("snn", ["shark/Algorithms/NearestNeighbors/SimpleNearestNeighbors.h"], ["SimpleNearestNeighbors"], r"""
#include <shark/Models/Kernels/LinearKernel.h>
#include <shark/Algorithms/NearestNeighbors/SimpleNearestNeighbors.h>
using namespace shark;
double f(LabeledData<RealVector,unsigned int> const& d, RealMatrix const& q){
  LinearKernel<> k; SimpleNearestNeighbors<RealVector,unsigned int> nn(d,&k);
  return nn.getNeighbors(q,3)[0].key;
}
"""),
 ("rf", ["shark/Algorithms/Trainers/RFTrainer.h"], ["RFTrainer", "shark::CART::TreeBuilder"], r"""
#include <shark/Algorithms/Trainers/RFTrainer.h>
using namespace shark;
void f(WeightedLabeledData<RealVector,unsigned int> const& c, WeightedLabeledData<RealVector,RealVector> const& r){
  RFTrainer<unsigned int> tc; RFClassifier<unsigned int> mc; tc.train(mc,c);
  RFTrainer<RealVector> tr; RFClassifier<RealVector> mr; tr.train(mr,r);
}
"""),
 ("hvmd", ["shark/Algorithms/DirectSearch/Operators/Hypervolume/HypervolumeContributionMD.h"], ["HypervolumeContributionMD"], r"""
#include <shark/Algorithms/DirectSearch/Operators/Hypervolume/HypervolumeContributionMD.h>
using namespace shark;
double f(std::vector<RealVector> const& p, RealVector const& ref){
  HypervolumeContributionMD c;
  return c.smallest(p,1,ref)[0].key + c.largest(p,1,ref)[0].key + c.smallest(p,1)[0].key + c.largest(p,1)[0].key;
}
"""),
 ("kta", ["shark/ObjectiveFunctions/KernelTargetAlignment.h"], ["KernelTargetAlignment"], r"""
#include <shark/ObjectiveFunctions/KernelTargetAlignment.h>
#include <shark/Models/Kernels/GaussianRbfKernel.h>
using namespace shark;
double f(LabeledData<RealVector,unsigned int> const& d){
  GaussianRbfKernel<> k(0.5); KernelTargetAlignment<RealVector,unsigned int> kta(d,&k);
  RealVector p = k.parameterVector(), g; return kta.eval(p)+kta.evalDerivative(p,g);
}
"""),
 ("nll", ["shark/ObjectiveFunctions/NegativeLogLikelihood.h"], ["NegativeLogLikelihood"], r"""
#include <shark/ObjectiveFunctions/NegativeLogLikelihood.h>
using namespace shark;
double f(UnlabeledData<RealVector> const& d, AbstractModel<RealVector,RealVector>* m){
  NegativeLogLikelihood n(d,m); RealVector p = m->parameterVector(), g; return n.eval(p)+n.evalDerivative(p,g);
}
"""),
 ("dropout", ["shark/Models/DropoutLayer.h"], ["DropoutLayer"], r"""
#include <shark/Models/DropoutLayer.h>
using namespace shark;
void f(RealMatrix const& x){ DropoutLayer<RealVector> d(Shape({2}),0.5); RealMatrix y; d.eval(x,y); boost::shared_ptr<State> s=d.createState(); d.eval(x,y,*s); }
"""),
]

READONLY_FUNCS = {"find", "find_if", "count", "count_if", "accumulate", "max_element", "min_element", "distance",
                  "equal", "lower_bound", "upper_bound", "inner_product", "all_of", "any_of", "none_of",
                  "make_transform_iterator", "batchBegin", "batchEnd", "createBatch", "batchSize", "size"}
VIEW_FUNCS = {"subrange", "row", "column", "rows", "columns", "getBatchElement", "noalias", "trans", "diag",
              "get", "forward", "move", "elements", "to_vector", "to_matrix", "ref"}
ACCESSOR_METHODS = {"operator[]", "operator()", "batch", "begin", "end", "elements", "inputs", "labels", "data",
                    "shape", "at", "front", "back", "get", "operator*", "operator->", "weights", "expression"}
COMPONENT_BASES = ("AbstractModel", "AbstractKernelFunction", "AbstractLoss", "AbstractMetric", "AbstractCost")
# non-const methods that leave their object unchanged in the configuration the region uses it in
CONST_EQUIV = {
    "HypervolumeCalculator::operator()": "non-const only because of the optional approximation algorithm member; "
        "with m_useApproximation == false (default-constructed local, useApproximation() never called in the "
        "enclosing function - checked) it reads m_useApproximation and dispatches to fresh local algorithm objects",
}
MUTATING_OPS = {"operator=", "operator+=", "operator-=", "operator*=", "operator/=", "operator++", "operator--",
                "operator%=", "operator|=", "operator&=", "operator^=", "operator<<=", "operator>>="}
TRANSPARENT = {"ImplicitCastExpr", "ParenExpr", "MaterializeTemporaryExpr", "ExprWithCleanups", "CXXBindTemporaryExpr",
               "CStyleCastExpr", "CXXStaticCastExpr", "CXXFunctionalCastExpr", "CXXConstCastExpr", "CXXReinterpretCastExpr",
               "ConstantExpr", "SubstNonTypeTemplateParmExpr", "CXXDefaultArgExpr"}
DEPENDENT = {"CXXDependentScopeMemberExpr", "UnresolvedLookupExpr", "UnresolvedMemberExpr", "DependentScopeDeclRefExpr",
             "CXXUnresolvedConstructExpr"}


# ------------------------------------------------------------------------------------------------
# clang

def clang_flags():
    return ["-std=gnu++11", "-fopenmp", "-DNDEBUG", "-w", "-DBOOST_ALL_DYN_LINK",
            "-DBOOST_RESULT_OF_USE_DECLTYPE", "-DBOOST_PARAMETER_MAX_ARITY=15"] + vlib.repo_includes()


def dump_ast(tu_path, flt, out_path):
    cmd = [CLANG] + clang_flags() + ["-fsyntax-only", "-Xclang", "-ast-dump=json", "-Xclang",
                                    "-ast-dump-filter=" + flt, tu_path]
    import subprocess
    with open(out_path, "wb") as f:
        p = subprocess.run(cmd, stdout=f, stderr=subprocess.PIPE, timeout=600)
    return p.returncode, p.stderr.decode("utf8", "replace")


def load_docs(fn):
    t = open(fn).read()
    dec = json.JSONDecoder(); i = 0; docs = []
    while i < len(t):
        while i < len(t) and t[i].isspace():
            i += 1
        if i >= len(t):
            break
        d, i = dec.raw_decode(t, i); docs.append(d)
    return docs


class LocTracker:
    """clang omits file/line in a location when unchanged w.r.t. the previously printed one"""
    def __init__(self):
        self.file = None; self.line = None

    def upd(self, d):
        if not isinstance(d, dict):
            return None
        if "spellingLoc" in d or "expansionLoc" in d:
            r = None
            for k in ("spellingLoc", "expansionLoc"):
                if k in d:
                    r = self.upd(d[k])
            return r
        if "file" in d:
            self.file = d["file"]
        if "line" in d:
            self.line = d["line"]
        if "offset" in d:
            return (self.file, self.line, d["offset"], d.get("tokLen", 0))
        return None


def annotate(n, lt, parent=None):
    if "loc" in n:
        lt.upd(n["loc"])
    if "range" in n:
        b = lt.upd(n["range"].get("begin")); e = lt.upd(n["range"].get("end"))
        n["_b"] = b; n["_e"] = e
    n["_p"] = parent
    for c in n.get("inner", []) or []:
        if isinstance(c, dict) and c:
            annotate(c, lt, n)


def kids(n):
    return [c for c in (n.get("inner") or []) if isinstance(c, dict)]


def walk(n):
    yield n
    for c in kids(n):
        if c:
            yield from walk(c)


def qt(n):
    return (n.get("type") or {}).get("qualType", "")


def is_const_type(t):
    t = t.strip()
    return t.startswith("const ") or t.endswith(" const") or " const &" in t or re.search(r"\bconst\s*\*?$", t) is not None


def strip(n):
    while n.get("kind") in TRANSPARENT and kids(n):
        n = kids(n)[0]
    return n


_src_cache = {}
def src_text(b, e):
    if not b or not e or b[0] != e[0] or b[0] is None:
        return ""
    try:
        if b[0] not in _src_cache:
            _src_cache[b[0]] = open(b[0], "rb").read()
        return _src_cache[b[0]][b[2]:e[2] + e[3]].decode("utf8", "replace")
    except OSError:
        return ""


def node_text(n):
    return re.sub(r"\s+", " ", src_text(n.get("_b"), n.get("_e")))[:160]


# ------------------------------------------------------------------------------------------------
# region analysis

class Region:
    def __init__(self, tu, fn_node, directive, for_stmt, decl_index, methods=None):
        self.tu = tu; self.fn = fn_node; self.dir = directive; self.loop = for_stmt; self.decls = decl_index
        self.methods = methods or {}
        self.accesses = []          # dict(var, idx, rw, crit, why, line, text)
        self.table_uses = []        # hand-kept table entries relied on
        self.components = []        # calls into plugged-in components
        self.notes = []
        self.local_ids = set()      # ids declared inside the loop
        self.alias = {}             # local id -> (var, idx, readonly)
        self.taint = {}             # local id -> 'iter' | 'thread'
        self.loopvar = None
        self.caps = {}
        self.fallback = False

    # --- helpers
    def enclosing_class(self):
        p = self.fn.get("_p")
        while p is not None:
            if p.get("kind") in ("CXXRecordDecl", "ClassTemplateSpecializationDecl"):
                return p.get("name", "")
            p = p.get("_p")
        return ""

    def classify_idx(self, nodes):
        kind = None
        for n in nodes:
            for m in walk(n):
                k = m.get("kind")
                if k == "DeclRefExpr":
                    rd = m.get("referencedDecl", {})
                    if rd.get("id") == self.loopvar or self.taint.get(rd.get("id")) == "iter":
                        kind = kind or "iter"
                    if self.taint.get(rd.get("id")) == "thread":
                        kind = "thread"
                    if rd.get("name") == "omp_get_thread_num":
                        kind = "thread"
                    a = self.alias.get(rd.get("id"))
                    if a and a[1]:
                        kind = "thread" if a[1] == "thread" else (kind or a[1])
        return kind

    def emit(self, var, idx, rw, crit, why, node):
        b = node.get("_b") or (None, None, None, None)
        self.accesses.append({"var": var, "idx": idx, "rw": rw, "crit": bool(crit), "why": why,
                              "line": b[1], "text": node_text(node)})

    # --- l-value path: returns (var, idx, readonly_alias) or None
    def is_tracked_ref(self, n):
        rd = n.get("referencedDecl", {})
        k = rd.get("kind")
        if k not in ("VarDecl", "ParmVarDecl", "FieldDecl", "BindingDecl"):
            return None
        i = rd.get("id")
        if i == self.loopvar:
            return None
        if i in self.alias:
            return self.alias[i]
        if i in self.local_ids:
            return None
        return (rd.get("name"), None, False)

    def pointer_like(self, t):
        return t.rstrip().endswith("*") or "iterator" in t or "_ptr<" in t

    # --- the visitor.  mode: 'r' read, 'w' write.  idx: index classification collected on the way down
    def visit(self, n, mode, crit, idx=None, depth=0):
        if not n:
            return
        k = n.get("kind")
        ks = kids(n)
        if k in TRANSPARENT:
            if k == "ImplicitCastExpr" and n.get("castKind") == "LValueToRValue":
                # reading the value of an lvalue; a pointer value read may still be written through later,
                # so keep the mode for pointer-like types
                m2 = mode if self.mutable_ptr(qt(n)) else "r"
                for c in ks:
                    self.visit(c, m2, crit, idx, depth)
                return
            if k == "ImplicitCastExpr" and n.get("castKind") == "NoOp" and is_const_type(qt(n)):
                # a const iterator OBJECT still points to mutable cells: keep the mode for those
                m2 = mode if self.mutable_ptr(qt(n)) else "r"
                for c in ks:
                    self.visit(c, m2, crit, idx, depth)
                return
            for c in ks:
                self.visit(c, mode, crit, idx, depth)
            return
        if k == "OMPCriticalDirective":
            for c in ks:
                self.visit(c, "r", True, None, depth)
            return
        if k in ("OMPParallelForDirective", "OMPParallelDirective", "OMPForDirective"):
            self.notes.append("nested OpenMP directive inside the region (not modelled)")
            self.fallback = True
            return
        if k == "CapturedStmt":
            # critical directives of some clang versions wrap their body; only the statement part matters
            for c in ks[:1]:
                self.visit(c, mode, crit, idx, depth)
            return
        if k == "CapturedDecl":
            for c in ks[:1]:
                self.visit(c, mode, crit, idx, depth)
            return
        if k == "DeclRefExpr":
            tr = self.is_tracked_ref(n)
            if tr is not None:
                var, aidx, ro = tr
                m = "r" if ro else mode
                if mode == "w" and ro:
                    m = "r"
                self.emit(var, idx or aidx, m, crit, "ref", n)
            return
        if k == "CXXThisExpr":
            self.emit("this", idx, mode, crit, "this", n)
            return
        if k == "MemberExpr":
            if qt(n) == "<bound member function type>":
                # handled by the call
                for c in ks:
                    self.visit(c, mode, crit, idx, depth)
                return
            base = strip(ks[0]) if ks else None
            if base is not None and base.get("kind") == "CXXThisExpr":
                self.emit("this." + n.get("name", "?"), idx, mode, crit, "member", n)
                return
            for c in ks:
                self.visit(c, mode, crit, idx, depth)
            return
        if k == "UnaryOperator":
            op = n.get("opcode")
            if op in ("++", "--"):
                self.visit(ks[0], "w", crit, idx, depth)
            elif op in ("*", "&"):
                self.visit(ks[0], mode, crit, idx, depth)
            else:
                self.visit(ks[0], "r", crit, None, depth)
            return
        if k in ("BinaryOperator", "CompoundAssignOperator"):
            op = n.get("opcode", "")
            if k == "CompoundAssignOperator" or op == "=":
                self.visit(ks[0], "w", crit, idx, depth)
                self.visit(ks[1], "r", crit, None, depth)
            elif op in ("+", "-") and self.pointer_like(qt(n)):
                i2 = idx or self.classify_idx(ks)
                for c in ks:
                    self.visit(c, mode if self.pointer_like(qt(c)) else "r", crit, i2 if self.pointer_like(qt(c)) else None, depth)
            else:
                for c in ks:
                    self.visit(c, "r", crit, None, depth)
            return
        if k == "ArraySubscriptExpr":
            i2 = idx or self.classify_idx(ks[1:])
            self.visit(ks[0], mode, crit, i2, depth)
            for c in ks[1:]:
                self.visit(c, "r", crit, None, depth)
            return
        if k == "DeclStmt":
            for c in ks:
                self.visit(c, "r", crit, None, depth)
            return
        if k == "VarDecl":
            self.declare_local(n, crit, depth)
            return
        if k == "CXXOperatorCallExpr":
            self.visit_operator_call(n, mode, crit, idx, depth)
            return
        if k == "CXXMemberCallExpr":
            self.visit_member_call(n, mode, crit, idx, depth)
            return
        if k == "CallExpr":
            self.visit_call(n, mode, crit, idx, depth)
            return
        if k == "CXXConstructExpr" and len(ks) == 1 and self.pointer_like(qt(n)):
            self.visit(ks[0], mode, crit, idx, depth)      # copy of an iterator / pointer
            return
        if k in ("CXXConstructExpr", "CXXTemporaryObjectExpr", "InitListExpr", "CXXNewExpr"):
            self.visit_args(ks, crit, depth, callee_name=k, ro_func=False)
            return
        if k == "LambdaExpr":
            self.notes.append("lambda inside region: captures treated as written"); self.fallback = True
            for c in ks:
                self.visit(c, "w", crit, None, depth)
            return
        if k in ("ForStmt", "CXXForRangeStmt", "WhileStmt", "DoStmt", "IfStmt", "CompoundStmt", "ReturnStmt",
                 "SwitchStmt", "CaseStmt", "DefaultStmt", "ConditionalOperator", "ContinueStmt", "BreakStmt", "NullStmt"):
            for c in ks:
                self.visit(c, "r", crit, None, depth)
            return
        # default: literals, sizeof, ... : children as reads
        for c in ks:
            self.visit(c, "r", crit, None, depth)

    def declare_local(self, n, crit, depth):
        i = n.get("id"); self.local_ids.add(i)
        t = qt(n); ks = kids(n)
        if not ks:
            return
        init = ks[0]
        cls = self.classify_idx([init])
        is_ref = t.rstrip().endswith("&") or t.rstrip().endswith("&&")
        ptr = self.pointer_like(t)
        if (is_ref or ptr) and not (is_ref and ptr and False):
            root = self.root_of(init)
            if root is not None:
                var, ridx = root
                ro = is_const_type(t) or "const_iterator" in t or t.startswith("const ")
                self.alias[i] = (var, ridx or cls, ro)
                # index expressions and component reads still happen at the declaration
                self.visit(init, "r", crit, None, depth)
                return
        if cls and re.match(r"^(const )?(std::)?(size_t|int|unsigned|long|unsigned long|unsigned int|std::size_t)", t):
            self.taint[i] = cls
        self.visit(init, "r", crit, None, depth)

    def root_of(self, n):
        """tracked variable an lvalue/iterator expression points into, with index classification"""
        n = strip(n)
        k = n.get("kind"); ks = kids(n)
        while k == "CXXConstructExpr" and len(ks) == 1 and self.pointer_like(qt(n)):
            n = strip(ks[0]); k = n.get("kind"); ks = kids(n)
        if k == "DeclRefExpr":
            tr = self.is_tracked_ref(n)
            return (tr[0], tr[1]) if tr else None
        if k == "CXXThisExpr":
            return ("this", None)
        if k == "MemberExpr":
            if qt(n) == "<bound member function type>":
                return self.root_of(ks[0]) if ks else None
            b = strip(ks[0]) if ks else None
            if b is not None and b.get("kind") == "CXXThisExpr":
                return ("this." + n.get("name", "?"), None)
            return self.root_of(ks[0]) if ks else None
        if k == "UnaryOperator" and n.get("opcode") in ("*", "&"):
            return self.root_of(ks[0])
        if k == "ArraySubscriptExpr":
            r = self.root_of(ks[0])
            return (r[0], r[1] or self.classify_idx(ks[1:])) if r else None
        if k == "BinaryOperator" and n.get("opcode") in ("+", "-"):
            for c in ks:
                r = self.root_of(c)
                if r:
                    return (r[0], r[1] or self.classify_idx(ks))
            return None
        if k == "CXXMemberCallExpr":
            me = ks[0]
            if me.get("name") in ACCESSOR_METHODS:
                r = self.root_of(me)
                return (r[0], r[1] or self.classify_idx(ks[1:])) if r else None
            return None
        if k == "CXXOperatorCallExpr":
            name = self.callee_name(ks[0])
            if name in ("operator[]", "operator()", "operator+", "operator-", "operator*", "operator->") and len(ks) > 1:
                r = self.root_of(ks[1])
                return (r[0], r[1] or self.classify_idx(ks[2:])) if r else None
            return None
        if k == "CallExpr":
            name = self.callee_name(ks[0])
            if name in VIEW_FUNCS and len(ks) > 1:
                r = self.root_of(ks[1])
                return (r[0], r[1] or self.classify_idx(ks[2:])) if r else None
            return None
        return None

    def callee_name(self, c):
        c = strip(c)
        if c.get("kind") == "DeclRefExpr":
            return c.get("referencedDecl", {}).get("name", "")
        if c.get("kind") == "MemberExpr":
            return c.get("name", "")
        return ""

    def callee_type(self, c):
        c = strip(c)
        return qt(c)

    def mutable_ptr(self, t):
        return (self.pointer_like(t) and "const_iterator" not in t and "__normal_iterator<const " not in t
                and not re.search(r"const [^*&<>]*\*\s*(const)?\s*&?$", t) and not re.search(r"_ptr<const ", t))

    def visit_args(self, args, crit, depth, callee_name="", ro_func=False):
        for a in args:
            # by-value copy of an iterator / smart pointer: look through the copy constructor
            while a.get("kind") == "CXXConstructExpr" and len(kids(a)) == 1 and self.pointer_like(qt(a)):
                a = kids(a)[0]
            mode = "r"
            cur = a; const_bound = False; by_value = False
            while cur.get("kind") in TRANSPARENT and kids(cur):
                if cur.get("kind") == "ImplicitCastExpr" and cur.get("castKind") == "LValueToRValue":
                    by_value = True
                if cur.get("kind") == "ImplicitCastExpr" and cur.get("castKind") == "NoOp" and is_const_type(qt(cur)):
                    const_bound = True
                cur = kids(cur)[0]
            inner = cur
            t = qt(inner)
            vc = inner.get("valueCategory")
            if self.mutable_ptr(t) and self.root_of(inner) is not None:
                # a mutable iterator/pointer into a tracked variable handed to a function (by value or reference)
                mode = "r" if ro_func else "w"
            elif by_value or const_bound or is_const_type(t):
                mode = "r"
            elif vc in ("lvalue", "xvalue") and not ro_func:
                mode = "w"         # bound to a non-const reference (or moved from)
            self.visit(inner, mode, crit, None, depth)

    def method_is_const(self, obj):
        """object argument of a member call: clang casts it to const T / const T* for const methods"""
        o = obj
        while o.get("kind") in TRANSPARENT and kids(o):
            if o.get("kind") == "ImplicitCastExpr" and o.get("castKind") in ("NoOp", "UncheckedDerivedToBase", "DerivedToBase") and is_const_type(qt(o).replace(" *", "")):
                return True
            o = kids(o)[0]
        return is_const_type(qt(o).replace(" *", ""))

    def component_of(self, obj):
        o = obj
        while True:
            m = re.match(r"^(?:const\s+)?(?:shark::)?(Abstract\w+)\s*<", qt(o).lstrip())
            if m and m.group(1) in COMPONENT_BASES:
                return m.group(1)
            if o.get("kind") in TRANSPARENT and kids(o):
                o = kids(o)[0]
            elif o.get("kind") == "UnaryOperator" and o.get("opcode") == "*" and kids(o):
                o = kids(o)[0]
            else:
                return None

    def record_component(self, comp, name, const, crit, node, objroot):
        self.components.append({"component": comp, "method": name, "const": const, "crit": bool(crit),
                                "object": objroot[0] if objroot else None, "line": (node.get("_b") or (0, 0))[1], "text": node_text(node)})

    def visit_member_call(self, n, mode, crit, idx, depth):
        ks = kids(n); me = ks[0]; args = ks[1:]
        name = me.get("name", ""); obj = kids(me)[0] if kids(me) else None
        const = self.method_is_const(obj) if obj is not None else True
        comp = self.component_of(obj) if obj is not None else None
        sobj = strip(obj) if obj is not None else None
        cls_t = qt(sobj) if sobj is not None else ""
        if comp:
            self.record_component(comp, name, const, crit, n, self.root_of(obj))
        # calls of own methods: follow the body
        if sobj is not None and sobj.get("kind") == "CXXThisExpr":
            callee = self.decls.get(me.get("referencedMemberDecl"))
            body = [c for c in kids(callee) if c.get("kind") == "CompoundStmt"] if callee else []
            self.emit("this", None, "r" if const else "w", crit, "own method " + name, n)
            if not body and self.enclosing_class() in COMPONENT_BASES:
                self.record_component(self.enclosing_class(), name, const, crit, n, ("this", None))
            if body and depth < 2:
                saved = (self.local_ids, )
                for p in kids(callee):
                    if p.get("kind") == "ParmVarDecl":
                        self.local_ids.add(p.get("id"))
                self.visit(body[0], "r", crit, None, depth + 1)
                self.notes.append("followed %s::%s" % (self.enclosing_class(), name))
            elif not body:
                self.notes.append("body of own method %s not in dump: summarised by constness" % name)
            self.visit_args(args, crit, depth, name)
            return
        key = None
        for kname in CONST_EQUIV:
            c, m = kname.split("::")
            if m == name and c in cls_t:
                key = kname
        if name in ACCESSOR_METHODS:
            i2 = idx or self.classify_idx(args)
            m2 = "r" if const else mode
            self.visit(obj, m2, crit, i2, depth)
        else:
            m2 = "r" if const else "w"
            if not const and key:
                m2 = "r"; self.table_uses.append({"table": "CONST_EQUIV", "entry": key, "why": CONST_EQUIV[key]})
            elif not const:
                s = derived_summary(self.methods, cls_t, name)
                if s is not None:
                    self.table_uses.append({"table": "DERIVED_SUMMARY", "entry": s["entry"], "writes_members": s["writes"],
                                            "why": "non-const method; its body (and the own methods it calls) in the AST dump writes no data member" if not s["writes"] else "writes members"})
                    if not s["writes"]:
                        m2 = "r"
            self.visit(obj, m2, crit, idx, depth)
        self.visit_args(args, crit, depth, name, ro_func=(name in READONLY_FUNCS))

    def visit_operator_call(self, n, mode, crit, idx, depth):
        ks = kids(n); callee = strip(ks[0]); args = ks[1:]
        name = callee.get("referencedDecl", {}).get("name", "")
        is_method = callee.get("referencedDecl", {}).get("kind") == "CXXMethodDecl"
        ctype = qt(callee)
        const = bool(re.search(r"\)\s*const\b", ctype))
        if not is_method:
            # free operator: iterator arithmetic keeps pointing into the same object
            if name in ("operator+", "operator-") and self.pointer_like(qt(n)):
                i2 = idx or self.classify_idx(args)
                for a in args:
                    self.visit(a, mode if self.pointer_like(qt(strip(a))) else "r", crit, i2, depth)
                return
            ro = name in ("operator==", "operator!=", "operator<", "operator>", "operator<=", "operator>=", "operator<<", "operator-", "operator+", "operator*", "operator/")
            self.visit_args(args, crit, depth, name, ro_func=ro)
            return
        obj, rest = args[0], args[1:]
        comp = self.component_of(obj)
        if comp and name == "operator()":
            self.record_component(comp, name, const, crit, n, self.root_of(obj))
        if name in MUTATING_OPS:
            self.visit(obj, "w", crit, idx, depth)
            self.visit_args(rest, crit, depth, name, ro_func=True)
            return
        if name in ("operator[]", "operator()", "operator*", "operator->", "operator+", "operator-"):
            returns_ref = n.get("valueCategory") == "lvalue" or self.pointer_like(qt(n))
            i2 = idx or (self.classify_idx(rest) if (returns_ref or name == "operator[]") else None)
            objt = qt(strip(obj))
            if self.pointer_like(objt) and name in ("operator*", "operator->", "operator[]", "operator+", "operator-"):
                m2 = "r" if ("const_iterator" in objt or re.search(r"const [^*]*\*$", objt)) else mode
            elif const:
                m2 = "r"
            elif returns_ref:
                m2 = mode
            else:
                m2 = "w"
                cls_t = " ".join(qt(o) for o in walk(obj))
                for kname in CONST_EQUIV:
                    c, m = kname.split("::")
                    reconfigured = any(x.get("kind") == "MemberExpr" and x.get("name") in ("useApproximation", "approximationEpsilon", "approximationDelta") for x in walk(self.fn))
                    if m == name and c in cls_t and not reconfigured:
                        m2 = "r"; self.table_uses.append({"table": "CONST_EQUIV", "entry": kname, "why": CONST_EQUIV[kname]})
            self.visit(obj, m2, crit, i2, depth)
            self.visit_args(rest, crit, depth, name, ro_func=(name != "operator()"))
            return
        self.visit(obj, "r" if const else "w", crit, idx, depth)
        self.visit_args(rest, crit, depth, name, ro_func=const and name.startswith("operator") and name[8:] in ("==", "!=", "<", ">", "<=", ">="))

    def visit_call(self, n, mode, crit, idx, depth):
        ks = kids(n); name = self.callee_name(ks[0]); args = ks[1:]
        if name in ("omp_get_thread_num", "omp_in_parallel", "omp_get_num_threads", "omp_get_max_threads"):
            return
        if name in VIEW_FUNCS and args:
            self.table_uses.append({"table": "VIEW_FUNCS", "entry": name})
            i2 = idx or self.classify_idx(args[1:])
            a0 = args[0]
            # the view is written iff the context writes it; a const first argument stays a read
            s0 = a0; const0 = False
            while s0.get("kind") in TRANSPARENT and kids(s0):
                if s0.get("kind") == "ImplicitCastExpr" and s0.get("castKind") == "NoOp" and is_const_type(qt(s0)):
                    const0 = True
                s0 = kids(s0)[0]
            self.visit(s0, "r" if const0 or is_const_type(qt(s0)) else mode, crit, i2, depth)
            self.visit_args(args[1:], crit, depth, name, ro_func=True)
            return
        ro = name in READONLY_FUNCS
        if ro:
            self.table_uses.append({"table": "READONLY_FUNCS", "entry": name})
        self.visit_args(args, crit, depth, name, ro_func=ro)

    # --- capacity of thread-indexed containers: look at the declaration in the enclosing function
    def capacity_of(self, var):
        for m in walk(self.fn):
            if m.get("kind") == "VarDecl" and m.get("name") == var and m.get("id") not in self.local_ids:
                return self._cap_expr(m, 0)
        return "CapUnknown", "declaration of %s not found" % var

    def _cap_expr(self, decl, depth):
        txt = node_text(decl)
        has_threads = False; has_min = False
        for m in walk(decl):
            if m.get("kind") == "DeclRefExpr":
                nm = m.get("referencedDecl", {}).get("name")
                if nm in ("omp_get_max_threads", "omp_get_num_threads"):
                    has_threads = True
                if nm == "min":
                    has_min = True
                rid = m.get("referencedDecl", {}).get("id")
                if m.get("referencedDecl", {}).get("kind") == "VarDecl" and depth < 3 and rid != decl.get("id"):
                    for d in walk(self.fn):
                        if d.get("kind") == "VarDecl" and d.get("id") == rid and kids(d):
                            c, _ = self._cap_expr(d, depth + 1)
                            if c == "CapMinThreadsIters":
                                has_threads = True; has_min = True
                            elif c == "CapThreads":
                                has_threads = True
        if has_threads and has_min:
            return "CapMinThreadsIters", txt
        if has_threads:
            return "CapThreads", txt
        return "CapUnknown", txt

    def run(self):
        ks = kids(self.loop)
        init = ks[0]
        for m in walk(init):
            if m.get("kind") == "VarDecl":
                self.loopvar = m.get("id"); self.loopvar_name = m.get("name"); self.local_ids.add(self.loopvar)
                for c in kids(m):
                    self.visit(c, "r", False, None, 0)
        # condition and increment are evaluated by every thread on its private copy of the loop variable;
        # other variables mentioned there are read before the fork (OpenMP canonical loop form)
        body = ks[-1]
        self.visit(body, "r", False, None, 0)
        # expand bare `this` accesses over the members seen
        members = sorted(set(a["var"] for a in self.accesses if a["var"].startswith("this.")))
        extra = []
        for a in self.accesses:
            if a["var"] == "this":
                for mname in members:
                    b = dict(a); b["var"] = mname; b["why"] = a["why"] + " (whole object)"; extra.append(b)
        self.accesses += extra
        for a in self.accesses:
            if a["idx"] == "thread" and a["var"] not in self.caps:
                self.caps[a["var"]] = self.capacity_of(a["var"])


# ------------------------------------------------------------------------------------------------

def class_of(n):
    p = n.get("_p")
    while p is not None:
        if p.get("kind") in ("CXXRecordDecl", "ClassTemplateSpecializationDecl"):
            return p.get("name", "")
        p = p.get("_p")
    return ""


def build_method_index(docs):
    idx = {}
    for d in docs:
        for n in walk(d):
            if n.get("kind") == "CXXMethodDecl" and any(c.get("kind") == "CompoundStmt" for c in kids(n)):
                if any(m.get("kind") in DEPENDENT or "<dependent type>" in qt(m) for m in walk(n)):
                    continue
                idx.setdefault((class_of(n), n.get("name")), []).append(n)
    return idx


def method_writes(methods, cls, name, depth=0, seen=None):
    """data members of *this written by any overload of cls::name (own non-const calls followed)"""
    seen = seen if seen is not None else set()
    if (cls, name) in seen or depth > 3:
        return set()
    seen.add((cls, name))
    w = set()
    for n in methods.get((cls, name), []):
        body = [c for c in kids(n) if c.get("kind") == "CompoundStmt"][0]
        r = Region("summary", n, n, None, {}, methods)
        for p in kids(n):
            if p.get("kind") == "ParmVarDecl":
                r.local_ids.add(p.get("id"))
        r.follow = False
        r.visit(body, "r", False, None, 2)      # depth 2: do not inline own calls, handle them here
        for a in r.accesses:
            if a["rw"] == "w" and a["var"].startswith("this."):
                w.add(a["var"])
            if a["rw"] == "w" and a["var"] == "this" and a["why"].startswith("own method "):
                callee = a["why"][len("own method "):]
                if (cls, callee) in methods:
                    w |= method_writes(methods, cls, callee, depth + 1, seen)
                else:
                    w.add("this.<unknown via %s>" % callee)
    return w


def derived_summary(methods, cls_t, name):
    for (c, m) in methods:
        if m == name and c and re.search(r"\b" + re.escape(c) + r"\b", cls_t):
            return {"entry": c + "::" + m, "writes": sorted(method_writes(methods, c, m))}
    return None


def find_regions(docs, tu_name, methods=None):
    """instantiated (non-dependent) parallel-for directives of the dump"""
    regions = []; patterns = []
    decl_index = {}
    for d in docs:
        for n in walk(d):
            if n.get("kind") in ("CXXMethodDecl", "FunctionDecl") and any(c.get("kind") == "CompoundStmt" for c in kids(n)):
                decl_index[n.get("id")] = n
    for d in docs:
        for n in walk(d):
            if n.get("kind") != "OMPParallelForDirective":
                continue
            dep = any(m.get("kind") in DEPENDENT or "<dependent type>" in qt(m) for m in walk(n))
            fn = n.get("_p")
            while fn is not None and fn.get("kind") not in ("CXXMethodDecl", "FunctionDecl", "CXXConstructorDecl"):
                fn = fn.get("_p")
            b = n.get("_b")
            if dep:
                patterns.append(b); continue
            loops = [m for m in walk(n) if m.get("kind") == "ForStmt"]
            if not loops or fn is None:
                continue
            r = Region(tu_name, fn, n, loops[0], decl_index, methods)
            try:
                r.run()
            except Exception as ex:   # translator bug on an unforeseen construct: say so, do not guess
                r.fallback = True; r.notes.append("AST walk failed: %r" % (ex,))
            regions.append(r)
    return regions, patterns


def region_record(r):
    b = r.dir.get("_b") or (None, None, None, None)
    f = b[0] or ""
    rel = f.split("/include/", 1)[1] if "/include/" in f else f
    cls = r.enclosing_class()
    sig = qt(r.fn)
    accs = []
    seen = set()
    for a in r.accesses:
        key = (a["var"], a["idx"], a["rw"], a["crit"])
        if key in seen:
            continue
        seen.add(key); accs.append(a)
    return {"tu": r.tu, "file": rel, "line": b[1], "function": (cls + "::" if cls else "") + r.fn.get("name", "?"),
            "signature": sig[:200], "loopvar": getattr(r, "loopvar_name", "?"), "accesses": accs, "components": r.components,
            "table_uses": r.table_uses, "caps": {k: {"cap": v[0], "decl": v[1]} for k, v in r.caps.items()},
            "notes": sorted(set(r.notes)), "fallback": r.fallback}


def coq_loc(a, varid, caps):
    v = varid[a["var"]]
    if a["idx"] == "iter":
        return "SharedIndexed %d" % v
    if a["idx"] == "thread":
        return "ThreadLocal %d %s" % (v, caps.get(a["var"], {}).get("cap", "CapUnknown"))
    return "Shared %d" % v


def coq_region(name, rec, extra=()):
    accs = list(rec["accesses"]) + list(extra)
    varid = {}
    for a in accs:
        varid.setdefault(a["var"], len(varid))
    lines = ["(* %s  %s:%s  loop variable %s" % (rec["function"], rec["file"], rec["line"], rec["loopvar"])]
    for v, i in varid.items():
        lines.append("     %d = %s" % (i, v))
    lines.append("*)")
    body = ";\n    ".join("Acc (%s) %s %s  (* %s *)" % (coq_loc(a, varid, rec["caps"]), "Write" if a["rw"] == "w" else "Read",
                                                        "true" if a["crit"] else "false",
                                                        (a.get("text") or "").replace("(*", "( *").replace("*)", "* )")[:70])
                       for a in accs)
    lines.append("Definition %s_body : body :=\n  [ %s ].\nDefinition %s : region := [%s_body; %s_body]." % (name, body, name, name, name))
    return "\n".join(lines)


# ------------------------------------------------------------------------------------------------
# work split by thread number: integer expressions -> expression trees -> Gallina
#
# Expression trees (tuples):  ("lit", n) | ("in", key) input of the routine (opaque call / parameter /
# SHARK_NUM_THREADS) | ("idx", name) loop variable or SHARK_THREAD_NUM | ("var", name, id) another translated local
# | (op, a, b) with op in add sub mul div mod min max | ("ite", (cmp, a, b), x, y), cmp in lt le gt ge eq ne.
# Integral casts are transparent (values are assumed to fit: the sources cast the same values to int).
# Iterators are translated as offsets into their container: `c.begin()` = 0, `it + n`, `it - n`.

NUM_THREADS_KEY = "SHARK_NUM_THREADS"
THREAD_NUM_IDX = "SHARK_THREAD_NUM"
INT_TYPE = re.compile(r"^(const )?(std::)?(size_t|int|unsigned|long|unsigned long|unsigned int|std::size_t|size_type)\b")
BINOPS = {"+": "add", "-": "sub", "*": "mul", "/": "div", "%": "mod"}
CMPOPS = {"<": "lt", "<=": "le", ">": "gt", ">=": "ge", "==": "eq", "!=": "ne"}

# slice sites: arrays indexed by `something * threads + SHARK_THREAD_NUM`; which locals delimit the cells of one
# (outer index, thread) and the cells merged afterwards is hand-kept (the expressions themselves are read from the AST)
SLICE_SITES = [
    {"class": "SimpleNearestNeighbors", "function": "getNeighbors", "container": "heaps",
     "slice": ("heapStart", "heapEnd"), "outer": "p", "merge": ("heapStart", "heapEnd")},
]


class Untranslatable(Exception):
    pass


class SplitFn:
    """integer/iterator locals of one instantiated function as expression trees"""
    def __init__(self, fn, decl_index):
        self.fn = fn; self.decl_index = decl_index
        self.defs = {}        # VarDecl id -> dict(name, tree, line, text)
        self.order = []       # ids in declaration order
        self.idxvars = {}     # VarDecl id -> dict(name, lo(tree), hi(tree or None), cmp)
        self.inputs = []      # keys in order of first occurrence
        self.param_env = {}   # ParmVarDecl id -> tree (while following an own-method call)
        self.failed = {}      # VarDecl id -> reason
        self.containers = {}  # iterator-typed local id -> container name
        self.caps = {}        # container name -> tree of its size at construction
        self._scan()

    def input(self, key):
        key = re.sub(r"\s+", "", key)
        if key not in self.inputs:
            self.inputs.append(key)
        return ("in", key)

    def _omp_macro(self, n):
        """SHARK_NUM_THREADS / SHARK_THREAD_NUM after expansion: omp_in_parallel() ? a : b"""
        ks = kids(n)
        names = [m.get("referencedDecl", {}).get("name") for m in walk(n) if m.get("kind") == "DeclRefExpr"]
        if "omp_in_parallel" not in names:
            return None
        if "omp_get_thread_num" in names:
            return ("idx", THREAD_NUM_IDX)
        if "omp_get_num_threads" in names and "omp_get_max_threads" in names:
            return self.input(NUM_THREADS_KEY)
        return None

    def tr(self, n):
        n0 = n
        while n.get("kind") in TRANSPARENT and kids(n):
            n = kids(n)[0]
        k = n.get("kind"); ks = kids(n)
        if k == "IntegerLiteral":
            return ("lit", int(n.get("value")))
        if k == "ConditionalOperator":
            m = self._omp_macro(n)
            if m is not None:
                return m
            c = strip(ks[0])
            if c.get("kind") == "BinaryOperator" and c.get("opcode") in CMPOPS:
                a, b = kids(c)
                return ("ite", (CMPOPS[c["opcode"]], self.tr(a), self.tr(b)), self.tr(ks[1]), self.tr(ks[2]))
            raise Untranslatable("condition `%s`" % node_text(c))
        if k == "DeclRefExpr":
            rd = n.get("referencedDecl", {}); i = rd.get("id")
            if i in self.param_env:
                return self.param_env[i]
            if i in self.idxvars:
                return ("idx", self.idxvars[i]["name"])
            if i in self.defs:
                return ("var", self.defs[i]["name"], i)
            if i in self.failed:
                raise Untranslatable("uses %s (%s)" % (rd.get("name"), self.failed[i]))
            if rd.get("kind") == "ParmVarDecl" and INT_TYPE.match(qt(n)):
                return self.input(rd.get("name"))
            raise Untranslatable("reference to `%s`" % rd.get("name"))
        if k == "BinaryOperator" and n.get("opcode") in BINOPS:
            return (BINOPS[n["opcode"]], self.tr(ks[0]), self.tr(ks[1]))
        if k == "CallExpr":
            name = strip(ks[0]).get("referencedDecl", {}).get("name", "")
            if name in ("min", "max") and len(ks) == 3:
                return (name, self.tr(ks[1]), self.tr(ks[2]))
            if INT_TYPE.match(qt(n)) and not self._mentions_locals(ks[1:]):
                return self.input(node_text(n))
            raise Untranslatable("call `%s`" % node_text(n))
        if k == "CXXMemberCallExpr":
            me = ks[0]
            if me.get("name") == "begin" and len(ks) == 1:
                return ("lit", 0)                       # offset 0 of its container (recorded by the caller)
            if INT_TYPE.match(qt(n)) and not self._mentions_locals(ks):
                return self.input(node_text(n))
            raise Untranslatable("member call `%s`" % node_text(n))
        if k == "CXXOperatorCallExpr":
            name = strip(ks[0]).get("referencedDecl", {}).get("name", "")
            if name in ("operator+", "operator-") and len(ks) == 3:
                return ("add" if name == "operator+" else "sub", self.tr(ks[1]), self.tr(ks[2]))
            raise Untranslatable("operator call `%s`" % node_text(n))
        if k == "CXXConstructExpr" and len(ks) == 1:
            return self.tr(ks[0])
        raise Untranslatable("%s `%s`" % (k, node_text(n0)))

    def _mentions_locals(self, nodes):
        for x in nodes:
            for m in walk(x):
                if m.get("kind") == "DeclRefExpr":
                    i = m.get("referencedDecl", {}).get("id")
                    if i in self.defs or i in self.idxvars or i in self.failed or i in self.param_env:
                        return True
        return False

    def _container_of(self, n):
        for m in walk(n):
            if m.get("kind") == "CXXMemberCallExpr" and kids(m) and kids(m)[0].get("name") == "begin":
                for r in walk(m):
                    if r.get("kind") == "DeclRefExpr" and r.get("referencedDecl", {}).get("kind") == "VarDecl":
                        return r["referencedDecl"].get("name")
            if m.get("kind") == "DeclRefExpr" and m.get("referencedDecl", {}).get("id") in self.containers:
                return self.containers[m["referencedDecl"]["id"]]
        return None

    def _scan(self):
        seen = set()
        loops = {}
        for m in walk(self.fn):
            if m.get("kind") == "ForStmt":
                ks = kids(m)
                for d in walk(ks[0]) if ks else []:
                    if d.get("kind") == "VarDecl":
                        loops[d.get("id")] = m
        for m in walk(self.fn):
            if m.get("kind") != "VarDecl" or m.get("id") in seen:
                continue
            seen.add(m.get("id"))
            t = qt(m); ks = kids(m)
            is_int = bool(INT_TYPE.match(t)); is_it = "iterator" in t
            if not ks:
                continue
            if is_int and m.get("id") in loops:
                f = loops[m["id"]]; fk = kids(f)
                cond = strip(fk[2]) if len(fk) > 2 else {}
                try:
                    lo = self.tr(ks[0])
                    hi = None; cmp_ = None
                    if cond.get("kind") == "BinaryOperator" and cond.get("opcode") in ("<", "!="):
                        self.idxvars[m["id"]] = {"name": m.get("name")}       # so that the condition may mention it
                        hi = self.tr(kids(cond)[1]); cmp_ = cond["opcode"]
                    self.idxvars[m["id"]] = {"name": m.get("name"), "lo": lo, "hi": hi, "cmp": cmp_, "loop": f,
                                             "line": (m.get("_b") or (0, 0))[1]}
                except Untranslatable as ex:
                    self.idxvars.pop(m["id"], None)
                    self.failed[m["id"]] = str(ex)
                continue
            if is_it and m.get("id") in loops:
                self.failed[m["id"]] = "iterator loop variable"; continue
            if not (is_int or is_it):
                # capacity of containers constructed with a size: std::vector<T> v(n, ...)
                if "vector<" in t:
                    c = strip(ks[0])
                    if c.get("kind") == "CXXConstructExpr" and kids(c) and INT_TYPE.match(qt(strip(kids(c)[0])) or "x"):
                        try:
                            self.caps[m.get("name")] = {"tree": self.tr(kids(c)[0]), "line": (m.get("_b") or (0, 0))[1], "text": node_text(m)}
                        except Untranslatable:
                            pass
                continue
            try:
                tree = self.tr(ks[0])
                self.defs[m["id"]] = {"name": m.get("name"), "tree": tree, "line": (m.get("_b") or (0, 0))[1],
                                      "text": node_text(m), "iterator": is_it}
                self.order.append(m["id"])
                if is_it:
                    self.containers[m["id"]] = self._container_of(ks[0])
            except Untranslatable as ex:
                self.failed[m["id"]] = str(ex)


def tree_deps(tree, out=None):
    """(set of var ids, set of idx names, set of input keys) mentioned directly"""
    out = out if out is not None else (set(), set(), set())
    if tree[0] == "var":
        out[0].add(tree[2])
    elif tree[0] == "idx":
        out[1].add(tree[1])
    elif tree[0] == "in":
        out[2].add(tree[1])
    elif tree[0] == "ite":
        tree_deps(tree[1][1], out); tree_deps(tree[1][2], out); tree_deps(tree[2], out); tree_deps(tree[3], out)
    elif tree[0] != "lit":
        tree_deps(tree[1], out); tree_deps(tree[2], out)
    return out


def closure(sf, trees):
    """ids of the locals the trees depend on (declaration order), all idx names, all inputs"""
    ids, idx, ins = set(), set(), set()
    todo = list(trees)
    while todo:
        t = todo.pop()
        v, i, n = tree_deps(t)
        idx |= i; ins |= n
        for x in v:
            if x not in ids:
                ids.add(x); todo.append(sf.defs[x]["tree"])
    return [i for i in sf.order if i in ids], idx, ins


def var_idx_deps(sf, vid, memo):
    if vid not in memo:
        memo[vid] = set()
        v, i, _ = tree_deps(sf.defs[vid]["tree"])
        s = set(i)
        for x in v:
            s |= var_idx_deps(sf, x, memo)
        memo[vid] = s
    return memo[vid]


def tree_idx_deps(sf, tree, memo):
    v, i, _ = tree_deps(tree)
    s = set(i)
    for x in v:
        s |= var_idx_deps(sf, x, memo)
    return s


def _site_base(sf, fn, directive):
    b = directive.get("_b") or (None, None, None, None)
    f = b[0] or ""
    cls = class_of(fn)
    return {"file": f.split("/include/", 1)[1] if "/include/" in f else f, "line": b[1],
            "function": (cls + "::" if cls else "") + fn.get("name", "?")}


def _find_range_loops(sf, body, pv_name, memo, depth=0):
    """sequential loops `for(i = lo; i != hi; ++i)` under `body` whose bounds depend on the parallel loop variable;
    own methods called on `this` are followed with their integer parameters bound to the arguments"""
    found = []
    for m in walk(body):
        if m.get("kind") == "ForStmt":
            ks = kids(m)
            for d in walk(ks[0]) if ks else []:
                if d.get("kind") == "VarDecl":
                    iv = sf.idxvars.get(d.get("id"))
                    if iv is None and depth > 0:
                        # loop of a followed method: translate now under the parameter binding
                        try:
                            cond = strip(ks[2])
                            if cond.get("kind") == "BinaryOperator" and cond.get("opcode") in ("<", "!="):
                                sf.idxvars[d["id"]] = {"name": d.get("name")}
                                iv = {"name": d.get("name"), "lo": sf.tr(kids(d)[0]), "hi": sf.tr(kids(cond)[1]), "cmp": cond["opcode"],
                                      "loop": m, "line": (d.get("_b") or (0, 0))[1]}
                                sf.idxvars.pop(d["id"], None)
                        except (Untranslatable, IndexError):
                            sf.idxvars.pop(d["id"], None); iv = None
                    if iv and iv.get("hi") is not None:
                        if pv_name in tree_idx_deps(sf, iv["lo"], memo) and pv_name in tree_idx_deps(sf, iv["hi"], memo):
                            found.append(iv)
        if m.get("kind") == "CXXMemberCallExpr" and depth < 2:
            ks = kids(m); me = ks[0]
            obj = strip(kids(me)[0]) if kids(me) else None
            if obj is not None and obj.get("kind") == "CXXThisExpr":
                callee = sf.decl_index.get(me.get("referencedMemberDecl"))
                cbody = [c for c in kids(callee) if c.get("kind") == "CompoundStmt"] if callee else []
                if cbody:
                    params = [p for p in kids(callee) if p.get("kind") == "ParmVarDecl"]
                    saved = dict(sf.param_env)
                    for p, a in zip(params, ks[1:]):
                        if INT_TYPE.match(qt(p)):
                            try:
                                sf.param_env[p.get("id")] = sf.tr(a)
                            except Untranslatable:
                                pass
                    found += _find_range_loops(sf, cbody[0], pv_name, memo, depth + 1)
                    sf.param_env = saved
    return found


def _indexed_container(loop, ivname):
    """`X.batch(i)` in the loop body -> text of X"""
    ks = kids(loop)
    for m in walk(ks[-1]):
        if m.get("kind") == "CXXMemberCallExpr" and kids(m) and kids(m)[0].get("name") == "batch":
            args = kids(m)[1:]
            if any(r.get("kind") == "DeclRefExpr" and r.get("referencedDecl", {}).get("name") == ivname for a in args for r in walk(a)):
                obj = kids(kids(m)[0])
                if obj:
                    return re.sub(r"\s+", "", node_text(strip(obj[0]))).replace("this->", "")
    return None


def split_sites_of(docs):
    """range sites and slice sites of the instantiated functions of one TU"""
    sites = []; problems = []
    decl_index = {}
    for d in docs:
        for n in walk(d):
            if n.get("kind") in ("CXXMethodDecl", "FunctionDecl") and any(c.get("kind") == "CompoundStmt" for c in kids(n)):
                decl_index[n.get("id")] = n
    done = set()
    for fid, fn in decl_index.items():
        dirs = [m for m in walk(fn) if m.get("kind") == "OMPParallelForDirective"]
        if not dirs:
            continue
        if any(m.get("kind") in DEPENDENT or "<dependent type>" in qt(m) for m in walk(fn)):
            continue
        names = set(m.get("referencedDecl", {}).get("name") for m in walk(fn) if m.get("kind") == "DeclRefExpr")
        if not names & {"omp_get_thread_num", "omp_get_num_threads", "omp_get_max_threads"}:
            continue
        sf = SplitFn(fn, decl_index)
        memo = {}
        cls = class_of(fn)
        table = [s for s in SLICE_SITES if s["class"] == cls and s["function"] == fn.get("name")]
        regions = []
        for dnode in dirs:
            loops = [m for m in walk(dnode) if m.get("kind") == "ForStmt"]
            if not loops:
                continue
            pv = None
            for d in walk(kids(loops[0])[0]):
                if d.get("kind") == "VarDecl":
                    pv = sf.idxvars.get(d.get("id"))
            regions.append((dnode, loops[0], pv))
        for dnode, loop, pv in regions:
            base = _site_base(sf, fn, dnode)
            key = (base["file"], base["line"])
            if key in done:
                continue
            if pv is None or pv.get("hi") is None:
                continue
            rl = _find_range_loops(sf, kids(loop)[-1], pv["name"], memo)
            if not rl:
                continue
            done.add(key)
            iv = rl[0]
            cont = _indexed_container(iv["loop"], iv["name"])
            total = None
            if cont:
                for k in sf.inputs:
                    if k == cont + ".numberOfBatches()":
                        total = ("in", k)
            site = dict(base, kind="range", pv=pv["name"], bound=pv["hi"], pv_lo=pv["lo"], lo=iv["lo"], hi=iv["hi"], inner_cmp=iv["cmp"],
                        inner_line=iv["line"], container=cont, total=total, sf=sf)
            if len(rl) > 1:
                problems.append("%s:%s: %d sequential loops depend on the parallel loop variable; the first is used" % (base["file"], base["line"], len(rl)))
            if total is None:
                problems.append("%s:%s %s: cannot tell which index space the ranges must cover (no `X.batch(i)` in the inner loop / no input X.numberOfBatches())" % (base["file"], base["line"], base["function"]))
            sites.append(site)
        for tb in table:
            key = (cls, fn.get("name"), tb["container"])
            if key in done:
                continue
            done.add(key)
            base = _site_base(sf, fn, regions[0][0]) if regions else {"file": "?", "line": 0, "function": cls + "::" + fn.get("name")}
            def local(name, loop):
                ids = [i for i in sf.order if sf.defs[i]["name"] == name and any(m.get("id") == i for m in walk(loop))]
                return ids[0] if ids else None
            try:
                if len(regions) < 2:
                    raise Untranslatable("expected two parallel regions (fill, merge), found %d" % len(regions))
                (d1, l1, pv1), (d2, l2, pv2) = regions[0], regions[1]
                s_lo, s_hi = local(tb["slice"][0], l1), local(tb["slice"][1], l1)
                m_lo, m_hi = local(tb["merge"][0], l2), local(tb["merge"][1], l2)
                if None in (s_lo, s_hi, m_lo, m_hi):
                    raise Untranslatable("locals %s / %s not found or not translatable: %s" % (tb["slice"], tb["merge"], "; ".join(sorted(set(sf.failed.values())))[:300]))
                outer = [v for v in sf.idxvars.values() if v["name"] == tb["outer"] and any(m is v["loop"] for m in walk(l1))]
                if not outer or outer[0].get("hi") is None or pv2 is None or pv2.get("hi") is None:
                    raise Untranslatable("outer index `%s` of the fill region / loop bound of the merge region not found" % tb["outer"])
                if tb["container"] not in sf.caps:
                    raise Untranslatable("size of `%s` at construction not found" % tb["container"])
                for i in (s_lo, s_hi, m_lo, m_hi):
                    if sf.containers.get(i) != tb["container"]:
                        raise Untranslatable("%s is not an iterator into %s" % (sf.defs[i]["name"], tb["container"]))
                sites.append(dict(base, kind="slice", container=tb["container"], cap=sf.caps[tb["container"]]["tree"], cap_text=sf.caps[tb["container"]]["text"],
                                  outer=outer[0]["name"], outer_bound=outer[0]["hi"], s_lo=s_lo, s_hi=s_hi,
                                  merge_pv=pv2["name"], merge_bound=pv2["hi"], m_lo=m_lo, m_hi=m_hi, merge_line=(d2.get("_b") or (0, 0))[1], sf=sf))
            except Untranslatable as ex:
                problems.append("%s %s: slice site `%s`: %s" % (base["file"], base["function"], tb["container"], ex))
    return sites, problems


# ---- rendering

def coq_ident(s):
    s = re.sub(r"[^A-Za-z0-9_]", "_", s)
    return s if re.match(r"[A-Za-z_]", s) else "v" + s


def input_name(key, taken):
    if key == NUM_THREADS_KEY:
        base = "nt"
    elif key.endswith(".numberOfBatches()"):
        base = "nb"
    else:
        base = coq_ident(re.sub(r"\(.*\)", "", key).split(".")[-1]) or "x"
        if base in ("nb", "nt"):
            base += "_"
    n = base; i = 1
    while n in taken:
        i += 1; n = "%s%d" % (base, i)
    return n


class Render:
    """Gallina text of the definitions a site needs; every definition takes all inputs of the site, then the index
    variables it depends on (in the site's index order)"""
    def __init__(self, sf, prefix, inputs, in_names, idx_order, idx_rename=None):
        self.sf = sf; self.prefix = prefix; self.inputs = inputs; self.in_names = in_names
        self.idx_order = idx_order; self.idx_rename = idx_rename or {}
        self.memo = {}; self.lines = []; self.names = []; self.emitted = {}

    def idx_of_tree(self, tree):
        d = tree_idx_deps(self.sf, tree, self.memo)
        return [i for i in self.idx_order if i in d]

    def app(self, name, idxs):
        return "(%s)" % " ".join([name] + [self.in_names[k] for k in self.inputs] + [self.idx_rename.get(i, coq_ident(i)) for i in idxs]) \
            if (self.inputs or idxs) else name

    def expr(self, t):
        k = t[0]
        if k == "lit":
            return str(t[1])
        if k == "in":
            return self.in_names[t[1]]
        if k == "idx":
            return self.idx_rename.get(t[1], coq_ident(t[1]))
        if k == "var":
            return self.app(self.emitted[t[2]], self.idx_of_tree(t))
        if k == "ite":
            c = {"lt": "%s <? %s", "le": "%s <=? %s", "gt": "%s <? %s", "ge": "%s <=? %s", "eq": "%s =? %s", "ne": "negb (%s =? %s)"}[t[1][0]]
            a, b = self.expr(t[1][1]), self.expr(t[1][2])
            if t[1][0] in ("gt", "ge"):
                a, b = b, a
            return "(if %s then %s else %s)" % (c % (a, b), self.expr(t[2]), self.expr(t[3]))
        op = {"add": "%s + %s", "sub": "%s - %s", "mul": "%s * %s", "div": "%s / %s", "mod": "%s mod %s",
              "min": "Nat.min %s %s", "max": "Nat.max %s %s"}[k]
        return "(" + op % (self.expr(t[1]), self.expr(t[2])) + ")"

    def define(self, name, tree, comment=""):
        idxs = self.idx_of_tree(tree)
        full = self.prefix + coq_ident(name)
        params = " ".join([self.in_names[k] for k in self.inputs] + [self.idx_rename.get(i, coq_ident(i)) for i in idxs])
        self.lines.append("Definition %s %s: nat := %s.%s" % (full, ("(%s : nat) " % params) if params else "", self.expr(tree),
                                                              ("  (* %s *)" % comment.replace("(*", "( *").replace("*)", "* )")) if comment else ""))
        self.names.append(full)
        return full, idxs

    def define_locals(self, ids):
        for i in ids:
            d = self.sf.defs[i]
            full, _ = self.define(d["name"], d["tree"], "line %s: %s" % (d["line"], d["text"][:90]))
            self.emitted[i] = full


def side_conditions(sf, trees_with_ctx):
    """(kind, a, b) for every division (b <> 0) and subtraction (b <= a) in the given trees and the locals they use"""
    out = []; seen = set()
    def rec(t):
        if t[0] in ("lit", "in", "idx"):
            return
        if t[0] == "var":
            if t[2] not in seen:
                seen.add(t[2]); rec(sf.defs[t[2]]["tree"])
            return
        if t[0] == "ite":
            rec(t[1][1]); rec(t[1][2]); rec(t[2]); rec(t[3]); return
        rec(t[1]); rec(t[2])
        if t[0] in ("div", "mod"):
            out.append(("nonzero", t[2], None))
        if t[0] == "sub":
            out.append(("le", t[2], t[1]))
    for t in trees_with_ctx:
        rec(t)
    return out


def all_subterms(sf, trees):
    out = []; seen = set()
    def rec(t):
        if t[0] in ("lit", "in", "idx"):
            return
        if t[0] == "var":
            if t[2] not in seen:
                seen.add(t[2]); rec(sf.defs[t[2]]["tree"]); out.append(t)
            return
        if t[0] == "ite":
            rec(t[1][1]); rec(t[1][2]); rec(t[2]); rec(t[3]); return
        rec(t[1]); rec(t[2])
        if t[0] in ("add", "mul"):
            out.append(t)
    for t in trees:
        rec(t)
    return out


def _unique(name, taken):
    n = name; i = 1
    while n in taken:
        i += 1; n = "%s%d" % (name, i)
    taken.add(n)
    return n


def coq_split(splits):
    """Gallina for all sites.  Returns dict(defs=text of C20SplitDefs.v body, obligations=[dict(name, site, kind, stmt)],
    sites=[meta per site], problems=[...])."""
    out = ["From Coq Require Import List Arith Bool PeanoNat.", "From SharkV Require Import C20SplitModel.", "Import ListNotations.", ""]
    obligations = []; metas = []; problems = []; hint_names = []
    range_recs = []; slice_recs = []
    for k, s in enumerate(splits):
        sf = s["sf"]; pre = "s%d_" % k
        meta = {"index": k, "kind": s["kind"], "function": s["function"], "file": s["file"], "line": s["line"], "prefix": pre}
        if s["kind"] == "range":
            trees = [s["bound"], s["lo"], s["hi"]] + ([s["total"]] if s["total"] else [])
            ids, idx, ins = closure(sf, trees)
            inputs = [x for x in sf.inputs if x in ins]
            taken = set(); in_names = {x: _unique(input_name(x, ()), taken) for x in inputs}
            pvn = _unique(coq_ident(s["pv"]), taken)
            extra_idx = idx - {s["pv"]}
            if extra_idx or s["total"] is None or s["pv_lo"] != ("lit", 0):
                problems.append("%s:%s %s: range site not in the supported form (other index variables %s, total %s, first worker %s)" % (
                    s["file"], s["line"], s["function"], sorted(extra_idx), s["total"], s["pv_lo"]))
                meta["unsupported"] = True; metas.append(meta); continue
            R = Render(sf, pre, inputs, in_names, [s["pv"]], {s["pv"]: pvn})
            out.append("(* ---- site %d (range): %s  %s:%s" % (k, s["function"], s["file"], s["line"]))
            for x in inputs:
                out.append("     input %s = %s" % (in_names[x], x))
            out.append("     worker index %s = parallel loop variable `%s` (0 <= %s < s%d_bound); inner loop line %s: for(i = s%d_lo; i %s s%d_hi; ++i) over %s.batch(i) *)" % (
                pvn, s["pv"], pvn, k, s["inner_line"], k, s["inner_cmp"], k, s["container"]))
            R.define_locals(ids)
            def forced(name, tree, idxs):
                params = " ".join([in_names[x] for x in inputs] + idxs)
                R.lines.append("Definition %s%s %s: nat := %s." % (pre, name, ("(%s : nat) " % params) if params else "", R.expr(tree)))
                R.names.append(pre + name)
            forced("total", s["total"], []); forced("bound", s["bound"], []); forced("lo", s["lo"], [pvn]); forced("hi", s["hi"], [pvn])
            out += R.lines
            args = " ".join("(nth %d x 0)" % i for i in range(len(inputs)))
            out.append("Definition site_%d : split_site := SplitSite (fun x => %stotal %s) (fun x => %sbound %s) (fun x => %slo %s) (fun x => %shi %s)." % (
                k, pre, args, pre, args, pre, args, pre, args))
            out.append("")
            hint_names += R.names
            ins_s = " ".join(in_names[x] for x in inputs)
            pres = ["1 <= %s" % in_names[x] for x in inputs if x == s["total"][1] or x == NUM_THREADS_KEY]
            hyp = "".join(p + " -> " for p in pres)
            app = lambda n, idx=False: "(%s%s %s%s)" % (pre, n, ins_s, (" " + pvn) if idx else "")
            nh = len(pres)
            cor = ("Corollary s%d_sum_is_sequential :\n  forall (A : Type) (op : A -> A -> A) (e0 : A),\n"
                   "    (forall a b c, op (op a b) c = op a (op b c)) -> (forall a b, op a b = op b a) -> (forall a, op a e0 = a) ->\n"
                   "  forall (f : nat -> A) (%s : nat) res, %s\n"
                   "    merge_run A op e0 (map (split_partial A op e0 f (%slo %s) (%shi %s)) (seq 0 %s)) res ->\n"
                   "    res = fold_left op (map f (seq 0 %s)) e0.\n"
                   "Proof. intros A op e0 H1 H2 H3 f %s res%s. apply (split_sum_is_sequential A op e0 H1 H2 H3 f). apply s%d_tiles; assumption. Qed.\n") % (
                       k, ins_s, hyp, pre, ins_s, pre, ins_s, app("bound"), app("total"), ins_s, "".join(" P%d" % i for i in range(nh)), k)
            obligations.append({"name": "s%d_tiles" % k, "site": k, "kind": "tiles", "corollary": cor,
                                "stmt": "forall %s : nat, %stiles 0 %s %s (%slo %s) (%shi %s)" % (ins_s, hyp, app("total"), app("bound"), pre, ins_s, pre, ins_s)})
            sc = side_conditions(sf, [s["bound"], s["lo"], s["hi"], s["total"]])
            conj = []
            for kind, a, b in sc:
                conj.append("%s <> 0" % R.expr(a) if kind == "nonzero" else "%s <= %s" % (R.expr(a), R.expr(b)))
            conj = list(dict.fromkeys(conj))
            if conj:
                obligations.append({"name": "s%d_safe" % k, "site": k, "kind": "safe",
                                    "stmt": "forall %s %s : nat, %s%s < %s ->\n    %s" % (ins_s, pvn, hyp, pvn, app("bound"), " /\\\n    ".join(conj))})
            subs = all_subterms(sf, [s["bound"], s["lo"], s["hi"]])
            bound_sum = " + ".join(in_names[x] for x in inputs)
            conj2 = list(dict.fromkeys("%s <= %s" % (R.expr(tm), bound_sum) for tm in subs))
            if conj2:
                obligations.append({"name": "s%d_nowrap" % k, "site": k, "kind": "nowrap",
                                    "stmt": "forall %s %s : nat, %s%s < %s ->\n    %s" % (ins_s, pvn, hyp, pvn, app("bound"), " /\\\n    ".join(conj2))})
            meta.update({"inputs": inputs, "input_names": [in_names[x] for x in inputs], "total_input": s["total"][1], "worker": pvn,
                         "preconditions": pres, "side_conditions": conj, "nowrap_bound": bound_sum,
                         "source": {d["name"]: d["text"] for d in (sf.defs[i] for i in ids)}})
            range_recs.append(k)
        else:
            t1 = [s["cap"], s["outer_bound"], ("var", "", s["s_lo"]), ("var", "", s["s_hi"])]
            t2 = [s["merge_bound"], ("var", "", s["m_lo"]), ("var", "", s["m_hi"])]
            ids1, idx1, ins1 = closure(sf, t1); ids2, idx2, ins2 = closure(sf, t2)
            inputs = [x for x in sf.inputs if x in ins1 | ins2]
            taken = set(); in_names = {x: _unique(input_name(x, ()), taken) for x in inputs}
            pn = _unique(coq_ident(s["outer"]), taken); tn = _unique("t", taken)
            if idx1 - {s["outer"], THREAD_NUM_IDX} or idx2 - {s["merge_pv"]} or NUM_THREADS_KEY not in inputs:
                problems.append("%s:%s %s: slice site not in the supported form (index variables %s / %s, inputs %s)" % (
                    s["file"], s["line"], s["function"], sorted(idx1), sorted(idx2), inputs))
                meta["unsupported"] = True; metas.append(meta); continue
            R1 = Render(sf, pre, inputs, in_names, [s["outer"], THREAD_NUM_IDX], {s["outer"]: pn, THREAD_NUM_IDX: tn})
            R2 = Render(sf, pre + "m_", inputs, in_names, [s["merge_pv"]], {s["merge_pv"]: pn})
            out.append("(* ---- site %d (slices of `%s`): %s  %s:%s (fill) / :%s (merge)" % (k, s["container"], s["function"], s["file"], s["line"], s["merge_line"]))
            for x in inputs:
                out.append("     input %s = %s" % (in_names[x], x))
            out.append("     %s = outer index `%s`, %s = SHARK_THREAD_NUM (< SHARK_NUM_THREADS); allocation: %s *)" % (pn, s["outer"], tn, s["cap_text"][:110]))
            R1.define_locals(ids1); R2.define_locals(ids2)
            ins_s = " ".join(in_names[x] for x in inputs)
            def forced(R, name, tree, idxs):
                params = " ".join([in_names[x] for x in inputs] + idxs)
                R.lines.append("Definition %s%s %s: nat := %s." % (R.prefix, name, ("(%s : nat) " % params) if params else "", R.expr(tree)))
                R.names.append(R.prefix + name)
            forced(R1, "cap", s["cap"], []); forced(R1, "outer", s["outer_bound"], [])
            forced(R1, "lo", ("var", "", s["s_lo"]), [pn, tn]); forced(R1, "hi", ("var", "", s["s_hi"]), [pn, tn])
            forced(R2, "outer", s["merge_bound"], []); forced(R2, "lo", ("var", "", s["m_lo"]), [pn]); forced(R2, "hi", ("var", "", s["m_hi"]), [pn])
            out += R1.lines + R2.lines
            args = " ".join("(nth %d x 0)" % i for i in range(len(inputs)))
            nt_arg = "(nth %d x 0)" % inputs.index(NUM_THREADS_KEY)
            out.append("Definition slice_%d : slice_site := SliceSite (fun x => %scap %s) (fun x => %souter %s) (fun x => %s)\n  (fun x => %slo %s) (fun x => %shi %s) (fun x => %sm_lo %s) (fun x => %sm_hi %s)." % (
                k, pre, args, pre, args, nt_arg, pre, args, pre, args, pre, args, pre, args))
            out.append("")
            hint_names += R1.names + R2.names
            ntn = in_names[NUM_THREADS_KEY]
            hyp = "1 <= %s -> " % ntn
            cor = ("Corollary s%d_threads_never_share_a_cell :\n  forall %s : nat, %sforall %s %s, %s < (%souter %s) -> %s < %s ->\n"
                   "    (forall i, (%slo %s %s %s) <= i < (%shi %s %s %s) -> i < (%scap %s) /\\ (%sm_lo %s %s) <= i < (%sm_hi %s %s)) /\\\n"
                   "    (forall p' t' i, p' < (%souter %s) -> t' < %s -> (%slo %s %s %s) <= i < (%shi %s %s %s) ->\n"
                   "       (%slo %s p' t') <= i < (%shi %s p' t') -> %s = p' /\\ %s = t').\n"
                   "Proof. intros %s Hnt. destruct (s%d_slices %s Hnt) as [_ T2]. exact (tiles2_slices_disjoint _ _ _ _ _ _ _ T2). Qed.\n") % (
                       k, ins_s, hyp, pn, tn, pn, pre, ins_s, tn, ntn,
                       pre, ins_s, pn, tn, pre, ins_s, pn, tn, pre, ins_s, pre, ins_s, pn, pre, ins_s, pn,
                       pre, ins_s, ntn, pre, ins_s, pn, tn, pre, ins_s, pn, tn,
                       pre, ins_s, pre, ins_s, pn, tn, ins_s, k, ins_s)
            obligations.append({"name": "s%d_slices" % k, "site": k, "kind": "slices", "corollary": cor,
                                "stmt": "forall %s : nat, %s(%sm_outer %s) = (%souter %s) /\\\n    tiles2 (%scap %s) (%souter %s) %s (%sm_lo %s) (%sm_hi %s) (%slo %s) (%shi %s)" % (
                                    ins_s, hyp, pre, ins_s, pre, ins_s, pre, ins_s, pre, ins_s, ntn, pre, ins_s, pre, ins_s, pre, ins_s, pre, ins_s)})
            sc1 = side_conditions(sf, t1); sc2 = side_conditions(sf, t2)
            conj = ["%s <> 0" % R1.expr(a) if kind == "nonzero" else "%s <= %s" % (R1.expr(a), R1.expr(b)) for kind, a, b in sc1]
            conjm = ["%s <> 0" % R2.expr(a) if kind == "nonzero" else "%s <= %s" % (R2.expr(a), R2.expr(b)) for kind, a, b in sc2]
            conj = list(dict.fromkeys(conj + conjm))
            if conj:
                obligations.append({"name": "s%d_safe" % k, "site": k, "kind": "safe",
                                    "stmt": "forall %s %s %s : nat, %s%s < (%souter %s) -> %s < %s ->\n    %s" % (ins_s, pn, tn, hyp, pn, pre, ins_s, tn, ntn, " /\\\n    ".join(conj))})
            prod = " * ".join("(%s + 1)" % in_names[x] for x in inputs)
            subs = [R1.expr(tm) for tm in all_subterms(sf, t1)] + [R2.expr(tm) for tm in all_subterms(sf, t2)]
            conj2 = list(dict.fromkeys("%s <= %s" % (e, prod) for e in subs))
            if conj2:
                obligations.append({"name": "s%d_nowrap" % k, "site": k, "kind": "nowrap",
                                    "stmt": "forall %s %s %s : nat, %s%s < (%souter %s) -> %s < %s ->\n    %s" % (ins_s, pn, tn, hyp, pn, pre, ins_s, tn, ntn, " /\\\n    ".join(conj2))})
            meta.update({"inputs": inputs, "input_names": [in_names[x] for x in inputs], "preconditions": ["1 <= " + ntn], "side_conditions": conj,
                         "nowrap_bound": prod, "container": s["container"], "table_entry": [tb for tb in SLICE_SITES if tb["container"] == s["container"]][0],
                         "source": {d["name"] + "@%s" % d["line"]: d["text"] for d in (sf.defs[i] for i in ids1 + ids2)}})
            slice_recs.append(k)
        metas.append(meta)
    out.append("Definition split_sites : list (nat * split_site) := [%s]." % "; ".join("(%d, site_%d)" % (k, k) for k in range_recs))
    out.append("Definition slice_sites : list (nat * slice_site) := [%s]." % "; ".join("(%d, slice_%d)" % (k, k) for k in slice_recs))
    out.append("")
    if hint_names:
        out.append("#[export] Hint Unfold %s : c20split." % " ".join(hint_names))
    return {"defs": "\n".join(out) + "\n", "obligations": obligations, "sites": metas, "problems": problems}


# ---- C semantics (64-bit unsigned), used to look for a concrete failing input when an obligation fails

class Trap(Exception):
    pass


def eval_tree(sf, t, env, flags=None):
    """env: dict input key / idx name -> int.  flags: list collecting 'wrap' events"""
    M = 1 << 64
    k = t[0]
    if k == "lit":
        return t[1]
    if k == "in" or k == "idx":
        return env[t[1]]
    if k == "var":
        return eval_tree(sf, sf.defs[t[2]]["tree"], env, flags)
    if k == "ite":
        a, b = eval_tree(sf, t[1][1], env, flags), eval_tree(sf, t[1][2], env, flags)
        c = {"lt": a < b, "le": a <= b, "gt": a > b, "ge": a >= b, "eq": a == b, "ne": a != b}[t[1][0]]
        return eval_tree(sf, t[2] if c else t[3], env, flags)
    a, b = eval_tree(sf, t[1], env, flags), eval_tree(sf, t[2], env, flags)
    if k in ("div", "mod"):
        if b == 0:
            raise Trap("division by zero")
        return a // b if k == "div" else a % b
    r = {"add": a + b, "sub": a - b, "mul": a * b, "min": min(a, b), "max": max(a, b)}[k]
    if not 0 <= r < M:
        if flags is not None:
            flags.append("unsigned wrap-around in %s" % k)
        r %= M
    return r


def translate(outdir, jobs=4):
    """returns dict(regions=[...], coverage=..., errors=[...]); writes nothing into coq/ itself"""
    from concurrent.futures import ThreadPoolExecutor
    os.makedirs(outdir, exist_ok=True)
    tasks = []
    for name, anchors, filters, src in TUS:
        tp = os.path.join(outdir, "tu_%s.cpp" % name)
        if not os.path.exists(tp) or open(tp).read() != src:
            open(tp, "w").write(src)
        for fi, flt in enumerate(filters):
            tasks.append((name, anchors, flt, tp, os.path.join(outdir, "ast_%s_%d.json" % (name, fi))))
    def job(t):
        rc, err = dump_ast(t[3], t[2], t[4])
        return rc, err
    with ThreadPoolExecutor(max_workers=jobs) as ex:
        rs = list(ex.map(job, tasks))
    errors = []; recs = []; patterns = {}
    dropout = None
    per_tu = {}
    for (name, anchors, flt, tp, out), (rc, err) in zip(tasks, rs):
        if rc != 0:
            errors.append("clang failed on TU %s (filter %s): %s" % (name, flt, err[-1500:])); continue
        docs = load_docs(out)
        lt = LocTracker()
        for d in docs:
            annotate(d, lt)
        per_tu.setdefault(name, []).extend(docs)
    splits = []; split_problems = []
    for name, docs in per_tu.items():
        if name == "dropout":
            dropout = summarise_methods(docs, "DropoutLayer", ("eval",))
            continue
        try:
            ss, sp = split_sites_of(docs)
            have = set((s["file"], s["line"], s["kind"]) for s in splits)
            splits += [s for s in ss if (s["file"], s["line"], s["kind"]) not in have]
            split_problems += sp
        except Exception as ex:      # translator bug on an unforeseen construct: say so, do not guess
            split_problems.append("TU %s: work-split extraction failed: %r" % (name, ex))
        methods = build_method_index(docs)
        regs, pats = find_regions(docs, name, methods)
        for p in pats:
            if p and p[0]:
                patterns[(p[0], p[1])] = name
        for r in regs:
            recs.append(region_record(r))
    # de-duplicate identical instantiations (same source line, same summary)
    uniq = []; seen = set()
    for rec in recs:
        key = (rec["file"], rec["line"], json.dumps([(a["var"], a["idx"], a["rw"], a["crit"]) for a in rec["accesses"]]))
        if key in seen:
            continue
        seen.add(key); uniq.append(rec)
    uniq.sort(key=lambda r: (r["file"], r["line"], r["function"]))
    # coverage: every textual SHARK_PARALLEL_FOR of the anchored files must have an instantiated region
    missing = []; textual = {}
    anchored = sorted(set(a for _, an, _, _ in TUS for a in an))
    for a in anchored:
        p = os.path.join(vlib.REPO, "include", a)
        try:
            ls = open(p, errors="replace").read().split("\n")
        except OSError:
            errors.append("anchored file missing: " + a); continue
        for ln, l in enumerate(ls, 1):
            if re.search(r"\bSHARK_PARALLEL_FOR\s*\(", l) and not l.lstrip().startswith("//") and not l.lstrip().startswith("#define"):
                textual.setdefault(a, []).append(ln)
                if not any(r["file"] == a and r["line"] == ln for r in uniq):
                    missing.append("%s:%d" % (a, ln))
    splits.sort(key=lambda s: (s["kind"], s["file"], s["line"]))
    # every textual use of SHARK_NUM_THREADS / SHARK_THREAD_NUM in the anchored files must belong to a translated site
    thread_uses = {}
    for a in anchored:
        try:
            ls = open(os.path.join(vlib.REPO, "include", a), errors="replace").read().split("\n")
        except OSError:
            continue
        for ln, l in enumerate(ls, 1):
            if re.search(r"\bSHARK_(NUM_THREADS|THREAD_NUM)\b", l) and not l.lstrip().startswith("//") and not l.lstrip().startswith("#"):
                thread_uses.setdefault(a, []).append(ln)
    return {"regions": uniq, "missing": missing, "textual": textual, "errors": errors, "dropout": dropout,
            "splits": splits, "split_problems": split_problems, "thread_uses": thread_uses}


def summarise_methods(docs, cls, names):
    """function summaries of a component: which data members a (const) method writes / passes by non-const reference"""
    out = []
    for d in docs:
        for n in walk(d):
            if n.get("kind") == "CXXMethodDecl" and n.get("name") in names:
                body = [c for c in kids(n) if c.get("kind") == "CompoundStmt"]
                if not body:
                    continue
                if any(m.get("kind") in DEPENDENT or "<dependent type>" in qt(m) for m in walk(n)):
                    continue
                r = Region("component", n, n, None, {})
                for p in kids(n):
                    if p.get("kind") == "ParmVarDecl":
                        r.local_ids.add(p.get("id"))
                r.visit(body[0], "r", False, None, 0)
                w = sorted(set(a["var"] for a in r.accesses if a["rw"] == "w" and a["var"].startswith("this.")))
                out.append({"class": cls, "method": n.get("name"), "signature": qt(n)[:160], "const": bool(re.search(r"\)\s*const", qt(n))),
                            "writes_members": w, "line": (n.get("_b") or (0, 0))[1],
                            "evidence": [a["text"] for a in r.accesses if a["rw"] == "w" and a["var"].startswith("this.")][:3]})
    return out


if __name__ == "__main__":
    res = translate(os.path.join(vlib.BUILD, "tmp", "C20", "ast"))
    for r in res["regions"]:
        print("== %s:%s %s [%s]%s" % (r["file"], r["line"], r["function"], r["tu"], " FALLBACK" if r["fallback"] else ""))
        for a in r["accesses"]:
            print("   %-28s %-6s %s %s   | %s | %s:%s" % (a["var"], a["idx"] or "-", a["rw"], "crit" if a["crit"] else "    ", a["text"][:80], a["why"], a["line"]))
        for c in r["components"]:
            print("   component %s.%s const=%s crit=%s" % (c["component"], c["method"], c["const"], c["crit"]))
        for k, v in r["caps"].items():
            print("   cap %s = %s   | %s" % (k, v["cap"], v["decl"][:100]))
        for n in r["notes"]:
            print("   note:", n)
    print("missing:", res["missing"]); print("errors:", res["errors"]); print("dropout:", json.dumps(res["dropout"], indent=1))
