#!/bin/sh
# usage: dbg.sh File.v LINE  -- show the goal just before LINE (proof state), for proof debugging only
f=$1; n=$2; d=$(dirname $f); b=$(basename $f .v)
head -n $((n-1)) $f > /tmp/Dbg_$b.v; echo "Show. Abort." >> /tmp/Dbg_$b.v
cd $d && coqc -Q . SharkV -Q ../gen SharkGen /tmp/Dbg_$b.v 2>&1 | grep -v conda | tail -${3:-60}
rm -f /tmp/Dbg_$b.*
