#!/usr/bin/env python3
"""C01 sparse stream — compressed_vector / compressed_matrix storage operations, the sparse assignment kernels of
kernels/default/{vector,matrix}_assign.hpp, the operator forms on sparse operands, sparse expressions as right-hand
sides (cpu/iterator.hpp), prod(compressed matrix, vector) (documented value only) and the dense blocked kernels for
operands of opposite orientation (DKA / DKF).

Every generated command sequence is executed by the freshly compiled harness/c01_sparse.cpp and by the extracted Coq
model (C01SparseExec.run_cmd); the outputs (values, capacities, STORED index sequences) are compared exactly.
Independently of the model a spec monitor checks, on the implementation's own output lines,
  (a) the storage invariant of every printed sparse container (indices strictly increasing and below the size,
      nnz <= capacity, line capacities summing to nnz_reserved <= nnz_capacity), and
  (b) the element-wise meaning of every command: target_i := f(target_i, source_i), where the operands are taken
      from the implementation's previous output lines."""
import os, sys, re, random
sys.path.insert(0, os.path.dirname(os.path.abspath(__file__)))
from vlib import *

FUN = {
    "add": (lambda x, y, c: x + y), "sub": (lambda x, y, c: x - y), "mul": (lambda x, y, c: x * y),
    "mad": (lambda x, y, c: x + c * y), "sqp1": (lambda x, y, c: x + y * y + 1), "rsub": (lambda x, y, c: y - x),
}
OPS = {"=": (lambda x, y: y), "+=": (lambda x, y: x + y), "-=": (lambda x, y: x - y), "*=": (lambda x, y: x * y)}
KEY_D1 = "sparse-kernel:vector_assign_functor<sparse,sparse>:source-tail"
KEY_D2 = "sparse-kernel:vector_assign_functor<sparse,dense>:unstored-target"
KEY_D3 = "sparse-expr:binary_transform_iterator:one-operand-without-stored-elements"


# ---------------------------------------------------------------------------------------------------
# parsing of output lines
class VState:
    def __init__(self, kind, n, vals, stored=None, cap=None):
        self.kind, self.n, self.vals, self.stored, self.cap = kind, n, vals, stored, cap   # vals: dense list


class MState:
    def __init__(self, kind, orient, r, c, vals, lines=None, cap=None, res=None):
        self.kind, self.orient, self.r, self.c, self.vals = kind, orient, r, c, vals      # vals[i][j] logical
        self.lines, self.cap, self.res = lines, cap, res                                 # lines: [(cap, [(idx,val)])]

    def stored(self, i, j):
        if self.kind != "s": return True
        a, b = (i, j) if self.orient == "R" else (j, i)
        return any(k == b for k, _ in self.lines[a][1])


def parse_state(line):
    """returns (state, invariant messages)"""
    msgs = []
    m = re.match(r"sv n=(\d+) cap=(\d+) nnz=(\d+) \|(.*)$", line)
    if m:
        n, cap, nnz = int(m.group(1)), int(m.group(2)), int(m.group(3))
        el = [(int(a), int(b)) for a, b in (t.split(":") for t in m.group(4).split())]
        idx = [a for a, _ in el]
        if len(el) != nnz: msgs.append("nnz=%d but %d stored elements" % (nnz, len(el)))
        if any(idx[k] >= idx[k + 1] for k in range(len(idx) - 1)): msgs.append("stored indices not strictly increasing: %s" % idx)
        if any(a >= n for a in idx): msgs.append("stored index >= size %d: %s" % (n, idx))
        if nnz > cap: msgs.append("nnz %d > capacity %d" % (nnz, cap))
        vals = [0] * n
        for a, b in el:
            if a < n: vals[a] = b
        return VState("s", n, vals, idx, cap), msgs
    m = re.match(r"dv n=(\d+) \|(.*)$", line)
    if m:
        vals = [int(x) for x in m.group(2).split()]
        if len(vals) != int(m.group(1)): msgs.append("dense vector prints %d values, size %s" % (len(vals), m.group(1)))
        return VState("d", int(m.group(1)), vals), msgs
    m = re.match(r"sm ([RC]) (\d+)x(\d+) cap=(\d+) res=(\d+) \|(.*)$", line)
    if m:
        o, r, c, cap, res = m.group(1), int(m.group(2)), int(m.group(3)), int(m.group(4)), int(m.group(5))
        major, minor = (r, c) if o == "R" else (c, r)
        lines = []
        for part in m.group(6).split(";"):
            part = part.strip()
            if not part: continue
            mm = re.match(r"\[(\d+)\](.*)$", part)
            lines.append((int(mm.group(1)), [(int(a), int(b)) for a, b in (t.split(":") for t in mm.group(2).split())]))
        if len(lines) != major: msgs.append("%d major lines printed, expected %d" % (len(lines), major))
        vals = [[0] * c for _ in range(r)]
        for a, (lc, el) in enumerate(lines):
            idx = [k for k, _ in el]
            if any(idx[k] >= idx[k + 1] for k in range(len(idx) - 1)): msgs.append("line %d: stored indices not strictly increasing: %s" % (a, idx))
            if any(k >= minor for k in idx): msgs.append("line %d: stored index >= minor size %d: %s" % (a, minor, idx))
            if len(el) > lc: msgs.append("line %d: nnz %d > line capacity %d" % (a, len(el), lc))
            for k, v in el:
                if k < minor and a < major:
                    if o == "R": vals[a][k] = v
                    else: vals[k][a] = v
        if sum(lc for lc, _ in lines) != res: msgs.append("line capacities sum to %d, nnz_reserved = %d" % (sum(lc for lc, _ in lines), res))
        if res > cap: msgs.append("nnz_reserved %d > nnz_capacity %d" % (res, cap))
        return MState("s", o, r, c, vals, lines, cap, res), msgs
    m = re.match(r"dm ([RC]) (\d+)x(\d+) \|(.*)$", line)
    if m:
        o, r, c = m.group(1), int(m.group(2)), int(m.group(3))
        rows = [[int(x) for x in part.split()] for part in m.group(4).split(";") if part.strip()]
        if len(rows) != r or any(len(x) != c for x in rows): msgs.append("dense matrix prints a wrong shape")
        return MState("d", o, r, c, rows), msgs
    return None, (["unparsable output line: %r" % line[:120]] if line != "reset" else [])


def shape_vals(shape, A, B, C, k, n, bidx):
    """documented element-wise value of the expression shapes of harness/c01_sparse.cpp; A, B, C dense value lists"""
    if shape == 1: return [x + y for x, y in zip(A, B)]
    if shape == 2: return [k * x for x in A]
    if shape == 3: return [x * y for x, y in zip(A, B)]
    if shape == 4: return [x + k * y for x, y in zip(A, B)]
    if shape == 5: return [abs(x) for x in A]
    if shape == 6: return [x * x + y for x, y in zip(A, B)]
    if shape == 7: return [k if (i == bidx and bidx < n) else 0 for i in range(n)]
    if shape == 8: return [x - y for x, y in zip(A, B)]
    return [x + y + z for x, y, z in zip(A, B, C)]


# ---------------------------------------------------------------------------------------------------
# spec monitor
def monitor(case, out):
    """element-wise meaning + storage invariant, evaluated on the implementation's output lines"""
    V, M = {}, {}
    for ln, (cmd, o) in enumerate(zip(case, out)):
        a = cmd.split()
        st, msgs = parse_state(o)
        tag = "line %d `%s`: " % (ln, cmd)
        if msgs:
            return ["sparse-storage-invariant:%s %s%s" % (a[0], tag, "; ".join(msgs))]
        h = a[0]
        if h == "RESET":
            V, M = {}, {}
            continue
        if st is None:
            return ["sparse:%s %sno container printed (%r)" % (h, tag, o[:80])]
        exp = None; key = "sparse:%s" % h
        if h in ("NSV", "NDV"):
            exp = [0] * int(a[2])
        elif h == "PUT":
            old = V[int(a[1])]; exp = list(old.vals); exp[int(a[2])] = int(a[3])
        elif h == "SETEL":
            old = V[int(a[1])]; exp = list(old.vals); exp[int(a[3])] = int(a[4])
        elif h == "RESERVE":
            exp = list(V[int(a[1])].vals)
            if st.cap < int(a[2]): return ["sparse:RESERVE %scapacity %d after reserve(%s)" % (tag, st.cap, a[2])]
        elif h == "CLEAR":
            exp = [0] * V[int(a[1])].n
        elif h == "CLRR":
            old = V[int(a[1])]; exp = list(old.vals)
            for k in old.stored[int(a[2]):int(a[3])]: exp[k] = 0
        elif h == "KA":
            t, s = V[int(a[1])], V[int(a[2])]; exp = list(s.vals); key = "sparse-kernel:vector_assign<%s,%s>" % (t.kind, s.kind)
        elif h == "KF":
            f = FUN[a[1]]; c = int(a[2]); t, s = V[int(a[3])], V[int(a[4])]
            key = "sparse-kernel:vector_assign_functor<%s,%s>:%s" % (t.kind, s.kind, a[1])
            exp = [f(x, y, c) for x, y in zip(t.vals, s.vals)]
            if t.kind == "s" and s.kind == "s":      # positions stored on neither side are not visited (they stay 0)
                exp = [e if (i in t.stored or i in s.stored) else 0 for i, e in enumerate(exp)]
        elif h == "OP":
            t, s = V[int(a[3])], V[int(a[4])]; exp = [OPS[a[2]](x, y) for x, y in zip(t.vals, s.vals)]
            key = "sparse-op:vector:%s:%s:%s<-%s" % (a[1], a[2], t.kind, s.kind)
        elif h == "SCAL":
            t = V[int(a[2])]; c = int(a[3])
            exp = [OPS[a[1]](x, c) if (t.kind == "d" or i in t.stored) else 0 for i, x in enumerate(t.vals)]
        elif h == "SPMV":
            t, A, x = V[int(a[3])], M[int(a[4])], V[int(a[5])]; tr = a[6] != "0"
            pv = [sum((A.vals[j][i] if tr else A.vals[i][j]) * x.vals[j] for j in range(x.n)) for i in range(t.n)]
            exp = [OPS[a[2]](p, q) for p, q in zip(t.vals, pv)]
            key = "sparse-prod:gemv:%s:%s:%s%s" % (a[1], a[2], A.orient, "T" if tr else "")
            if st.vals != exp:
                return ["%s %sprod(sparse matrix, vector): observed %s, expected %s" % (key, tag, st.vals, exp)]
            V[int(a[3])] = st
            continue
        elif h == "XV":
            t = V[int(a[3])]; shape = int(a[4]); k = int(a[8])
            ops = [V.get(int(a[5])), V.get(int(a[6])), V.get(int(a[7]))]
            zero = [0] * t.n
            ev = shape_vals(shape, ops[0].vals if ops[0] else zero, ops[1].vals if ops[1] else zero, ops[2].vals if ops[2] else zero, k, t.n, int(a[6]))
            exp = [OPS[a[2]](x, y) for x, y in zip(t.vals, ev)]
            key = "sparse-expr:vector:shape%d:%s:%s:%s" % (shape, a[1], a[2], t.kind)
            if st.vals != exp and shape in (1, 4, 6, 8, 9):
                used = [ops[0], ops[1]] + ([ops[2]] if shape == 9 else [])
                if any(u is not None and u.kind == "s" and not u.stored for u in used): key = KEY_D3
            if st.vals != exp:
                bad = [i for i, (x, y) in enumerate(zip(st.vals, exp)) if x != y]
                return ["%s %selement-wise meaning violated at index %s: observed %s, expected %s" % (key, tag, bad[:4], st.vals, exp)]
            V[int(a[3])] = st
            continue
        if exp is not None:
            if st.vals != exp:
                bad = [i for i, (x, y) in enumerate(zip(st.vals, exp)) if x != y]
                if h in ("KF", "OP") and a[1] != "sqp1":
                    t, s = (V[int(a[3])], V[int(a[4])])
                    if t.kind == "s" and s.kind == "s" and all(i in s.stored and i > max(t.stored or [-1]) for i in bad): key = KEY_D1
                    if t.kind == "s" and s.kind == "d" and all(i not in t.stored for i in bad): key = KEY_D2
                return ["%s %selement-wise meaning violated at index %s: observed %s, expected %s" % (key, tag, bad[:4], st.vals, exp)]
            V[int(a[1] if h in ("NSV", "NDV", "PUT", "SETEL", "RESERVE", "CLEAR", "CLRR", "KA") else a[3] if h in ("KF", "OP") else a[2])] = st
            continue
        # ---- matrices
        mexp = None
        if h in ("NSM", "NDM"):
            mexp = [[0] * int(a[4]) for _ in range(int(a[3]))]
        elif h == "MPUT":
            old = M[int(a[1])]; mexp = [list(r) for r in old.vals]; mexp[int(a[2])][int(a[3])] = int(a[4])
        elif h in ("MRESERVE", "MMRES"):
            mexp = [list(r) for r in M[int(a[1])].vals]
        elif h == "MCLEAR":
            old = M[int(a[1])]; mexp = [[0] * old.c for _ in range(old.r)]
        elif h == "MCLRR":
            old = M[int(a[1])]; mexp = [list(r) for r in old.vals]; i = int(a[2])
            for k, _ in old.lines[i][1][int(a[3]):int(a[4])]:
                if old.orient == "R": mexp[i][k] = 0
                else: mexp[k][i] = 0
        elif h == "MKA":
            t, s = M[int(a[1])], M[int(a[2])]; mexp = [list(r) for r in s.vals]
            key = "sparse-kernel:matrix_assign<%s%s,%s%s>" % (t.kind, t.orient, s.kind, s.orient)
        elif h == "MKF":
            f = FUN[a[1]]; c = int(a[2]); t, s = M[int(a[3])], M[int(a[4])]
            key = "sparse-kernel:matrix_assign_functor<%s%s,%s%s>:%s" % (t.kind, t.orient, s.kind, s.orient, a[1])
            mexp = [[f(t.vals[i][j], s.vals[i][j], c) if (t.kind == "d" or t.stored(i, j) or s.stored(i, j)) else 0
                     for j in range(t.c)] for i in range(t.r)]
        elif h == "MOP":
            t, s = M[int(a[3])], M[int(a[4])]
            key = "sparse-op:matrix:%s:%s:%s%s<-%s%s" % (a[1], a[2], t.kind, t.orient, s.kind, s.orient)
            mexp = [[OPS[a[2]](t.vals[i][j], s.vals[i][j]) for j in range(t.c)] for i in range(t.r)]
        elif h == "MSCAL":
            t = M[int(a[2])]; c = int(a[3])
            mexp = [[OPS[a[1]](t.vals[i][j], c) if t.stored(i, j) else 0 for j in range(t.c)] for i in range(t.r)]
        elif h == "MFILL":
            old = M[int(a[1])]; sd = int(a[2]); mexp = [[(7 * i + 13 * j + sd) % 11 - 5 for j in range(old.c)] for i in range(old.r)]
        elif h == "DKA":
            t, s = M[int(a[1])], M[int(a[2])]; mexp = [list(r) for r in s.vals]
            key = "dense-kernel:matrix_assign<%s,%s>:%dx%d" % (t.orient, s.orient, t.r, t.c)
        elif h == "DKF":
            f = FUN[a[1]]; c = int(a[2]); t, s = M[int(a[3])], M[int(a[4])]
            key = "dense-kernel:matrix_assign_functor<%s,%s>:%s:%dx%d" % (t.orient, s.orient, a[1], t.r, t.c)
            mexp = [[f(t.vals[i][j], s.vals[i][j], c) for j in range(t.c)] for i in range(t.r)]
        elif h == "XM":
            t = M[int(a[3])]; shape = int(a[5]); k = int(a[8]); A, B = M[int(a[6])], M[int(a[7])]
            key = "sparse-expr:matrix:shape%d:%s:%s:%s%s<-%s" % (shape, a[1], a[2], t.kind, t.orient, a[4])
            mexp = []
            for i in range(t.r):
                ev = shape_vals(shape, A.vals[i], B.vals[i], B.vals[i], k, t.c, 0)
                mexp.append([OPS[a[2]](x, y) for x, y in zip(t.vals[i], ev)])
            if st.vals != mexp and shape in (1, 4, 8):
                def empty_line(X):
                    return any(len(el) == 0 for _, el in X.lines)
                if empty_line(A) or empty_line(B): key = KEY_D3
        if mexp is None:
            return ["sparse:%s %sunknown command" % (h, tag)]
        if st.vals != mexp:
            return ["%s %selement-wise meaning violated: observed %s, expected %s" % (key, tag, st.vals, mexp)]
        M[int(a[1] if h in ("NSM", "NDM", "MPUT", "MRESERVE", "MMRES", "MCLEAR", "MCLRR", "MKA", "MFILL", "DKA") else a[3] if h in ("MKF", "MOP", "XM", "DKF") else a[2])] = st
    return []


# ---------------------------------------------------------------------------------------------------
# generator
def gen_vector_case(rng):
    n = rng.choice([0, 1, 2, 3, 4, 5, 6, 7, 9, 12])
    nslots = rng.randint(3, 5)
    kinds = [rng.choice("ssd") for _ in range(nslots)]
    kinds[0] = "s"
    if "d" not in kinds and rng.random() < 0.7: kinds[-1] = "d"
    L = ["RESET"]
    for i, k in enumerate(kinds): L.append("%s %d %d" % ("NSV" if k == "s" else "NDV", i, n))
    val = lambda: rng.choice([-4, -3, -2, -1, 0, 1, 2, 3, 4, 5])
    # fill phase: random insertion order; for sparse slots also raw set_element / clear_range / reserve with valid positions
    for i, k in enumerate(kinds):
        if n == 0: continue
        if k == "d":
            for j in range(n):
                if rng.random() < 0.7: L.append("PUT %d %d %d" % (i, j, val()))
            continue
        stored = []
        dens = rng.choice([0.0, 0.2, 0.5, 0.8, 1.0])
        idxs = [j for j in range(n) if rng.random() < dens]; rng.shuffle(idxs)
        if rng.random() < 0.3: L.append("RESERVE %d %d" % (i, rng.randint(0, n + 3)))
        for j in idxs:
            if rng.random() < 0.3:
                pos = sum(1 for s in stored if s < j)
                L.append("SETEL %d %d %d %d" % (i, pos, j, val()))
            else:
                L.append("PUT %d %d %d" % (i, j, val()))
            if j not in stored: stored.append(j); stored.sort()
            if rng.random() < 0.1 and stored:          # overwrite an existing element through set_element
                k2 = rng.choice(stored); L.append("SETEL %d %d %d %d" % (i, stored.index(k2), k2, val()))
        if stored and rng.random() < 0.25:
            a = rng.randint(0, len(stored)); b = rng.randint(a, len(stored)); L.append("CLRR %d %d %d" % (i, a, b))
    # operation phase
    sparse = [i for i, k in enumerate(kinds) if k == "s"]
    for _ in range(rng.randint(4, 10)):
        u = rng.random()
        t = rng.randrange(nslots); s = rng.randrange(nslots)
        if u < 0.30:
            f = rng.choice(["add", "sub", "mul", "mad", "sqp1", "rsub"])
            if t == s or (kinds[t] == "d" and kinds[s] == "d"): continue
            L.append("KF %s %d %d %d" % (f, rng.choice([-2, 2, 3]) if f == "mad" else 0, t, s))
        elif u < 0.42:
            if t == s or (kinds[t] == "d" and kinds[s] == "d"): continue
            L.append("KA %d %d" % (t, s))
        elif u < 0.62:
            form = rng.choice(["plain", "noalias"]); o = rng.choice(["=", "+=", "+=", "-=", "-=", "*="])
            if form == "noalias" and t == s: continue
            if kinds[t] == "d" and kinds[s] == "d": continue
            L.append("OP %s %s %d %d" % (form, o, t, s))
        elif u < 0.80:
            # sparse expression as right-hand side
            form = rng.choice(["plain", "noalias"]); o = rng.choice(["=", "=", "+=", "-=", "*="])
            shape = rng.choice([1, 1, 2, 3, 4, 5, 6, 7, 8, 8, 9])
            a, b, c = rng.choice(sparse), rng.choice(sparse), rng.choice(sparse); k = rng.choice([-2, -1, 2, 3])
            if shape == 7: b = rng.randint(0, n + 1)
            used = {1: [a, b], 2: [a], 3: [a, b], 4: [a, b], 5: [a], 6: [a, b], 7: [], 8: [a, b], 9: [a, b, c]}[shape]
            if form == "noalias" and t in used: continue
            if form == "plain" and o == "=" and kinds[t] == "s": continue      # does not compile (sparse.hpp:131)
            if shape == 3 and o == "-=": continue                               # does not compile (compose functor traits)
            L.append("XV %s %s %d %d %d %d %d %d" % (form, o, t, shape, a, b, c, k))
        elif u < 0.80 + 0.0:
            pass
        elif u < 0.86 and n > 0:
            L.append("PUT %d %d %d" % (t, rng.randrange(n), val()))
        elif u < 0.90:
            L.append("SCAL %s %d %d" % (rng.choice(["+=", "-=", "*="]), t, rng.choice([-2, 2, 3])))
        elif u < 0.94 and sparse:
            L.append("RESERVE %d %d" % (rng.choice(sparse), rng.randint(0, n + 4)))
        elif u < 0.97:
            L.append("CLEAR %d" % t)
    return L


def gen_matrix_case(rng):
    r = rng.choice([1, 2, 3, 4, 6]); c = rng.choice([1, 2, 3, 5, 7])
    nslots = rng.randint(3, 5)
    kinds = [rng.choice(["sR", "sC", "sR", "sC", "dR", "dC"]) for _ in range(nslots)]
    kinds[0] = rng.choice(["sR", "sC"]); kinds[1] = rng.choice(["sR", "sC"])
    L = ["RESET"]
    val = lambda: rng.choice([-4, -3, -2, -1, 0, 1, 2, 3, 4, 5])
    for i, k in enumerate(kinds): L.append("%s %d %s %d %d" % ("NSM" if k[0] == "s" else "NDM", i, k[1], r, c))
    for i, k in enumerate(kinds):
        dens = rng.choice([0.0, 0.15, 0.4, 0.7, 1.0]) if k[0] == "s" else 0.8
        cells = [(a, b) for a in range(r) for b in range(c) if rng.random() < dens]; rng.shuffle(cells)
        major = r if k[1] == "R" else c
        if k[0] == "s" and rng.random() < 0.3: L.append("MRESERVE %d %d" % (i, rng.randint(0, r * c + 2)))
        for a, b in cells:
            L.append("MPUT %d %d %d %d" % (i, a, b, val()))
            if k[0] == "s" and rng.random() < 0.08: L.append("MMRES %d %d %d %d" % (i, rng.randrange(major), rng.randint(0, 9), rng.randint(0, 1)))
    sparse = [i for i, k in enumerate(kinds) if k[0] == "s"]
    # dense vectors for prod(A, x): v0 of size c, v1 of size r
    L.append("NDV 0 %d" % c); L.append("NDV 1 %d" % r)
    for j in range(c): L.append("PUT 0 %d %d" % (j, val()))
    for j in range(r): L.append("PUT 1 %d %d" % (j, val()))
    for _ in range(rng.randint(3, 8)):
        u = rng.random()
        t = rng.randrange(nslots); s = rng.choice(sparse)
        if rng.random() < 0.15:
            tr = rng.randint(0, 1)
            L.append("SPMV %s %s %d %d %d %d" % (rng.choice(["plain", "noalias"]), rng.choice(["=", "+=", "-="]), 0 if tr else 1, s, 1 if tr else 0, tr))
            continue
        if u < 0.32:
            if t == s: continue
            f = rng.choice(["add", "sub", "mul", "mad", "sqp1", "rsub"])
            L.append("MKF %s %d %d %d" % (f, rng.choice([-2, 2, 3]) if f == "mad" else 0, t, s))
        elif u < 0.45:
            if t == s: continue
            L.append("MKA %d %d" % (t, s))
        elif u < 0.68:
            form = rng.choice(["plain", "noalias"]); o = rng.choice(["=", "+=", "+=", "-=", "*="])
            if form == "noalias" and t == s: continue
            if form == "plain" and o == "=" and kinds[t][0] == "s" and kinds[t] != kinds[s]: continue   # does not compile (sparse.hpp:243)
            L.append("MOP %s %s %d %d" % (form, o, t, s))
        elif u < 0.85:
            orient = rng.choice("RC"); cands = [i for i, k in enumerate(kinds) if k == "s" + orient]
            if not cands: continue
            a, b = rng.choice(cands), rng.choice(cands); shape = rng.choice([1, 1, 2, 3, 4, 8]); k = rng.choice([-2, -1, 2, 3])
            form = rng.choice(["noalias", "noalias", "plain"]); o = "+=" if form == "plain" else rng.choice(["=", "=", "+=", "-=", "*="])
            if form == "noalias" and t in ([a] if shape == 2 else [a, b]): continue
            if shape == 3 and o == "-=": continue
            L.append("XM %s %s %d %s %d %d %d %d" % (form, o, t, orient, shape, a, b, k))
        elif u < 0.90:
            L.append("MPUT %d %d %d %d" % (t, rng.randrange(r), rng.randrange(c), val()))
        elif u < 0.94:
            if kinds[t][0] == "s": L.append("MSCAL %s %d %d" % (rng.choice(["+=", "-=", "*="]), t, rng.choice([-2, 2, 3])))
        elif u < 0.97:
            if kinds[t][0] == "s": L.append("MCLEAR %d" % t)
        else:
            if kinds[t][0] == "s":
                major = r if kinds[t][1] == "R" else c
                L.append("MMRES %d %d %d %d" % (t, rng.randrange(major), rng.randint(0, 9), rng.randint(0, 1)))
    return L


def gen_block_case(rng, big=False):
    """dense <- dense matrices of opposite (and equal) orientation, shapes around the 8x8 / 16x16 blocking.
    The functional model costs O((r*c)^2): the quick tier keeps r*c <= ~400, the thorough tier goes up to 35 x 35."""
    dims = [1, 2, 7, 8, 9, 15, 16, 17, 23, 24, 31, 32, 33, 35] if big else [1, 2, 7, 8, 9, 15, 16, 17, 18, 20]
    r, c = rng.choice(dims), rng.choice(dims)
    while not big and r * c > 400: r, c = rng.choice(dims), rng.choice(dims)
    kinds = [rng.choice("RC") for _ in range(3)]
    if len(set(kinds)) == 1: kinds[1] = "C" if kinds[0] == "R" else "R"
    L = ["RESET"]
    for i, k in enumerate(kinds):
        L.append("NDM %d %s %d %d" % (i, k, r, c)); L.append("MFILL %d %d" % (i, rng.randint(0, 10)))
    for _ in range(rng.randint(2, 3)):
        t, s = rng.sample(range(3), 2)
        if rng.random() < 0.35: L.append("DKA %d %d" % (t, s))
        else:
            f = rng.choice(["add", "sub", "mul", "mad", "sqp1", "rsub"])
            L.append("DKF %s %d %d %d" % (f, rng.choice([-2, 2, 3]) if f == "mad" else 0, t, s))
    return L


# the inputs that exposed the defects repaired by 88237f8b / 245464d7 (run first, every time)
REGRESSION = [
    ["RESET", "NSV 0 6", "NSV 1 6", "PUT 0 1 5", "PUT 0 3 7", "PUT 1 0 2", "PUT 1 3 4", "PUT 1 5 9", "OP plain += 0 1"],
    ["RESET", "NSV 0 6", "NSV 1 6", "PUT 0 1 5", "PUT 0 3 7", "PUT 1 0 2", "PUT 1 3 4", "PUT 1 5 9", "OP noalias -= 0 1"],
    ["RESET", "NSV 0 6", "NDV 1 6", "PUT 0 1 5", "PUT 0 3 7"] + ["PUT 1 %d %d" % (i, i + 1) for i in range(6)] + ["OP noalias *= 0 1"],
    ["RESET", "NSV 0 6", "NSV 1 6", "PUT 0 1 5", "PUT 1 2 4", "PUT 1 4 9", "PUT 1 5 -3", "KF rsub 0 0 1"],
    # binary_transform_iterator (32ed6769): a + b where one operand stores nothing
    ["RESET", "NSV 0 6", "NSV 1 6", "NDV 2 6", "PUT 1 2 -1", "PUT 1 3 -4", "XV plain = 2 1 0 1 0 0", "XV noalias = 2 1 1 0 0 0", "XV noalias += 2 8 1 0 0 0"],
    ["RESET", "NSM 0 R 2 4", "NSM 1 R 2 4", "NDM 2 R 2 4", "MPUT 1 0 1 5", "MPUT 1 0 3 6", "MPUT 1 1 2 7", "XM noalias = 2 R 1 0 1 0"],
]


def key_of(msg, case):
    return msg.split(" ")[0]


def valid(case):
    """is the command sequence well-formed (containers exist, shapes agree, iterator positions legal)?  Used while
    shrinking: an ill-formed sequence is undefined behaviour in C++ and must not be taken for a smaller failing case."""
    V, M = {}, {}      # id -> (kind, n, stored or None) ; id -> (kind, orient, r, c)
    try:
        if not case or case[0] != "RESET": return False
        for cmd in case[1:]:
            a = cmd.split(); h = a[0]
            if h == "RESET": return False
            elif h == "NSV": V[int(a[1])] = ["s", int(a[2]), []]
            elif h == "NDV": V[int(a[1])] = ["d", int(a[2]), None]
            elif h == "PUT":
                v = V[int(a[1])]
                if not int(a[2]) < v[1]: return False
                if v[0] == "s" and v[2] is not None and int(a[2]) not in v[2]: v[2] = sorted(v[2] + [int(a[2])])
            elif h == "SETEL":
                v = V[int(a[1])]; pos, i = int(a[2]), int(a[3])
                if v[0] != "s" or v[2] is None or not i < v[1]: return False
                if pos != sum(1 for k in v[2] if k < i): return False
                if i not in v[2]: v[2] = sorted(v[2] + [i])
            elif h == "RESERVE":
                if V[int(a[1])][0] != "s": return False
            elif h == "CLEAR":
                v = V[int(a[1])]
                if v[0] == "s": v[2] = []
            elif h == "CLRR":
                v = V[int(a[1])]; x, y = int(a[2]), int(a[3])
                if v[0] != "s" or v[2] is None or not (x <= y <= len(v[2])): return False
                v[2] = v[2][:x] + v[2][y:]
            elif h in ("KA", "KF", "OP"):
                t, s0 = (int(a[1]), int(a[2])) if h == "KA" else (int(a[3]), int(a[4]))
                if V[t][1] != V[s0][1] or (V[t][0] == "d" and V[s0][0] == "d"): return False
                if t == s0 and not (h == "OP" and a[1] == "plain"): return False
                V[t][2] = None if V[t][0] == "s" else None
            elif h == "XV":
                t = int(a[3]); shape = int(a[4]); ids = {1: a[5:7], 2: a[5:6], 3: a[5:7], 4: a[5:7], 5: a[5:6], 6: a[5:7], 7: [], 8: a[5:7], 9: a[5:8]}[shape]
                for x in ids:
                    if V[int(x)][0] != "s" or V[int(x)][1] != V[t][1]: return False
                if a[1] == "noalias" and str(t) in ids: return False
                if a[1] == "plain" and a[2] == "=" and V[t][0] == "s": return False
                if shape == 3 and a[2] == "-=": return False
                V[t][2] = None
            elif h == "SCAL":
                V[int(a[2])]
            elif h in ("NSM", "NDM"):
                if int(a[3]) < 1 or int(a[4]) < 1: return False
                M[int(a[1])] = [("s" if h == "NSM" else "d"), a[2], int(a[3]), int(a[4])]
            elif h == "MPUT":
                m = M[int(a[1])]
                if not (int(a[2]) < m[2] and int(a[3]) < m[3]): return False
            elif h in ("MRESERVE", "MCLEAR"):
                if M[int(a[1])][0] != "s": return False
            elif h == "MMRES":
                m = M[int(a[1])]
                if m[0] != "s" or not int(a[2]) < (m[2] if m[1] == "R" else m[3]): return False
            elif h == "MCLRR":
                return False          # only hand-written cases use it
            elif h in ("MKA", "MKF", "MOP"):
                t, s0 = (int(a[1]), int(a[2])) if h == "MKA" else (int(a[3]), int(a[4]))
                if M[s0][0] != "s" or M[t][2:] != M[s0][2:]: return False
                if t == s0 and not (h == "MOP" and a[1] == "plain"): return False
                if h == "MOP" and a[1] == "plain" and a[2] == "=" and M[t][0] == "s" and M[t][1] != M[s0][1]: return False
            elif h == "SPMV":
                t, A, x = V[int(a[3])], M[int(a[4])], V[int(a[5])]
                if t[0] != "d" or x[0] != "d" or A[0] != "s" or int(a[3]) == int(a[5]) or a[2] == "*=": return False
                rr, cc = (A[3], A[2]) if a[6] != "0" else (A[2], A[3])
                if t[1] != rr or x[1] != cc: return False
            elif h == "MFILL":
                if M[int(a[1])][0] != "d": return False
            elif h in ("DKA", "DKF"):
                t, s0 = (int(a[1]), int(a[2])) if h == "DKA" else (int(a[3]), int(a[4]))
                if M[t][0] != "d" or M[s0][0] != "d" or M[t][2:] != M[s0][2:] or t == s0: return False
            elif h == "XM":
                t = int(a[3]); shape = int(a[5]); ids = a[6:7] if shape == 2 else a[6:8]
                for x in ids:
                    if M[int(x)][0] != "s" or M[int(x)][1] != a[4] or M[int(x)][2:] != M[t][2:]: return False
                if a[1] == "noalias" and str(t) in ids: return False
                if a[1] == "plain" and a[2] != "+=": return False
                if shape == 3 and a[2] == "-=": return False
            elif h == "MSCAL":
                if M[int(a[2])][0] != "s": return False
            else:
                return False
        return True
    except (KeyError, IndexError, ValueError):
        return False


def harness(ck):
    exe, err = cxx_build("c01_sparse", [os.path.join(ROOT, "harness", "c01_sparse.cpp")],
                         flags=["-std=gnu++11", "-fopenmp", "-O2", "-DNDEBUG", "-w"], libs=["-lpthread"], tag="c01_sparse")
    return exe, err


def decide(ck, cases, model, exe, tmpd, what, max_report=3):
    """decision procedure of DESIGN.md 1.5 (as vlib.correspond), with shrinking restricted to well-formed sequences"""
    os.makedirs(tmpd, exist_ok=True)
    mo = run_cases(model, cases, os.path.join(tmpd, "model_in.txt"))
    io = run_cases(exe, cases, os.path.join(tmpd, "impl_in.txt"))
    mon, dis = [], []
    for ci, c in enumerate(cases):
        (a, rca, ea), (b, rcb, eb) = mo[ci], io[ci]
        if rca != 0: raise RuntimeError("sparse model driver failed on case %d: %s" % (ci, ea))
        if rcb != 0:
            mon.append((ci, ["sparse:crash implementation crashed/stopped after %d of %d lines (rc=%s) at `%s`" % (len(b), len(c), rcb, c[min(len(b), len(c) - 1)])])); continue
        msgs = monitor(c, b)
        if msgs: mon.append((ci, msgs))
        elif a != b: dis.append(ci)

    def one(lines):
        ra, xa, _ = run_lines(model, lines, os.path.join(tmpd, "s_model.txt"))
        rb, xb, eb = run_lines(exe, lines, os.path.join(tmpd, "s_impl.txt"))
        if rb != 0 or len(xb) != len(lines):
            return xa, xb, ["sparse:crash implementation crashed/stopped after %d of %d lines (rc=%s)" % (len(xb), len(lines), rb)]
        return xa, xb, monitor(lines, xb)

    def report(ci, is_mon):
        c = cases[ci]
        def pred(ops):
            cand = c[:1] + ops
            if not valid(cand): return False
            xa, xb, m = one(cand)
            return bool(m) if is_mon else (bool(m) or xa != xb)
        small = c[:1] + ddmin(c[1:], pred, max_runs=150) if len(c) > 2 and valid(c) else c
        xa, xb, m = one(small)
        cf = ck.write_replay("sparse_case_%d.txt" % ci, "\n".join(small) + "\n")
        first = next((k for k, (x, y) in enumerate(zip(xa, xb)) if x != y), None)
        rp = {"case_file": cf, "case": small, "model_output": xa, "implementation_output": xb, "monitor": m,
              "first_difference_at_line": first, "replay_cmd": "python3 tools/c01.py --replay %s" % cf}
        return rp, m

    for ci, msgs in mon[:max_report]:
        rp, m = report(ci, True)
        msg = (m or msgs)[0]
        ck.violation(key_of(msg, cases[ci]), rp, "sparse stream, spec monitor fails on the implementation: " + msg)
    if not mon and dis:
        rp, m = report(dis[0], False)
        k = rp["first_difference_at_line"]
        rp["broken"] = "correspondence " + what
        ck.violation("sparse-correspondence", rp,
                     "correspondence %s no longer checks (outputs differ on %d cases, e.g. after `%s`: model %r, implementation %r); the element-wise meaning and the storage invariant hold on every explored input" % (
                         what, len(dis), rp["case"][k] if k is not None else "?", rp["model_output"][k] if k is not None else "", rp["implementation_output"][k] if k is not None else ""), no_input=True)
    ck.oblige("correspondence %s on %d cases" % (what, len(cases)), not mon and not dis,
              "" if not (mon or dis) else "%d monitor failures, %d disagreements" % (len(mon), len(dis)))
    return {"disagreements": len(dis), "monitor_failures": len(mon)}


def stream(ck, rng, ncases):
    """returns number of evaluated commands"""
    model = extract_model("C01sparse", "C01SparseExtract.v", "c01_sparse_driver.ml")
    exe, err = harness(ck)
    if exe is None:
        ck.violation("sparse:harness-does-not-compile", {"detail": err[-3000:]}, "harness/c01_sparse.cpp does not compile against the working tree: " + err[-600:], no_input=True)
        return 0
    cases = [list(c) for c in REGRESSION]
    cdir = os.path.join(ROOT, "corpus", "C01")
    if os.path.isdir(cdir):
        for f in sorted(os.listdir(cdir)):
            if f.endswith(".txt"): cases.append([l for l in open(os.path.join(cdir, f)).read().split("\n") if l.strip()])
    nfixed = len(cases)
    for k in range(ncases):
        cases.append(gen_vector_case(rng) if k % 2 == 0 else gen_matrix_case(rng))
    for k in range(8 if ncases <= 1000 else 30):
        cases.append(gen_block_case(rng, big=(ncases > 1000 and k % 3 == 0)))
    bad = [c for c in cases if not valid(c)]
    if bad: raise RuntimeError("generator produced an ill-formed sparse case: %r" % bad[0])
    tmpd = os.path.join(BUILD, "tmp", "C01", "sparse")
    res = decide(ck, cases, model, exe, tmpd, "extracted sparse storage/kernel model (C01SparseExec.run_cmd) vs harness/c01_sparse.cpp")
    hist = {}
    for c in cases:
        for l in c:
            w = l.split(); k = w[0] + (":" + w[1] if w[0] in ("KF", "MKF", "OP", "MOP") else ":shape" + w[4] if w[0] == "XV" else ":shape" + w[5] if w[0] == "XM" else "")
            hist[k] = hist.get(k, 0) + 1
    ck.notes["sparse_stream"] = {"cases": len(cases), "commands": sum(len(c) for c in cases), "command_histogram": hist,
                                 "disagreements": res["disagreements"], "monitor_failures": res["monitor_failures"],
                                 "sample": cases[nfixed][:14] if len(cases) > nfixed else []}
    return sum(len(c) for c in cases)


def replay(ck, path):
    model = extract_model("C01sparse", "C01SparseExtract.v", "c01_sparse_driver.ml")
    exe, err = harness(ck)
    case = [l for l in open(path).read().split("\n") if l.strip()]
    tmpd = os.path.join(BUILD, "tmp", "C01", "sparse_replay")
    decide(ck, [case], model, exe, tmpd, "sparse replay")
    return len(case)
