#!/usr/bin/env python3
"""Regenerate the 'Repaired' table of DESIGN.md section 6.2 from known_findings.json."""
import json, re, os
V = os.path.dirname(os.path.dirname(os.path.abspath(__file__)))
k = json.load(open(os.path.join(V, 'known_findings.json')))
rows = []
for f in k['fixed']:
    line = f['line'] if isinstance(f, dict) else f
    m = re.match(r'fixed: property=(C\d+) ([0-9a-f]+) (.*)', line, re.S)
    if not m: continue
    what = ' '.join(m.group(3).split()).replace('|', '\\|')
    if len(what) > 420: what = what[:417] + '...'
    rows.append('| %s | `%s` | %s |' % (m.group(1), m.group(2), what))
d = open(os.path.join(V, 'DESIGN.md')).read().split('\n')
i = d.index('| property | commit | what failed |')
j = i + 2
while d[j].startswith('|'): j += 1
d[i+2:j] = rows
open(os.path.join(V, 'DESIGN.md'), 'w').write('\n'.join(d))
print(len(rows), 'rows')
