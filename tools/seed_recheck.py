#!/usr/bin/env python3
"""Re-run a property's check against a stored seeded change (after the check was strengthened) and record the outcome.
usage: seed_recheck.py <seed-id> <worktree> [note]      (the worktree is a scratch checkout of /repo; patch applied and undone)"""
import json, os, subprocess, sys
sid, wt = sys.argv[1:3]; note = sys.argv[3] if len(sys.argv) > 3 else ""
d = os.path.join("/verif/seeded", sid); meta = json.load(open(os.path.join(d, "meta.json")))
prop = meta["property"]
cmd = [c["quick_cmd"] for c in json.load(open("/verif/MANIFEST.json"))["checks"] if c["property_id"] == prop][0].split()
def sh(c): return subprocess.run(c, capture_output=True, text=True)
sh(["git", "-C", wt, "checkout", "-q", "--", "."])
r = sh(["git", "-C", wt, "apply", os.path.join(d, "patch.diff")]); assert r.returncode == 0, r.stderr
c = subprocess.run(cmd, capture_output=True, text=True, env=dict(os.environ, VERIF_REPO=wt), cwd=os.environ.get("SEED_VERIF", "/verif"))
sh(["git", "-C", wt, "checkout", "-q", "--", "."])
lines = [l[:300] for l in (c.stdout + c.stderr).split("\n") if "VIOLATION" in l or l.strip().startswith("->") or "KNOWN-FINDING" in l][:8]
meta.setdefault("rechecks", []).append({"cmd": "VERIF_REPO=<worktree with patch> " + " ".join(cmd), "exit": c.returncode, "output": lines, "note": note})
if c.returncode == 1 and any("VIOLATION" in l for l in lines) and not meta.get("caught"):
    meta["missed_at_first"] = True
meta["caught"] = c.returncode == 1 and any("VIOLATION" in l for l in lines)   # exit 1 without a VIOLATION line is a failed check, not a catch
json.dump(meta, open(os.path.join(d, "meta.json"), "w"), indent=1)
print(sid, "caught =", meta["caught"], lines[:3])
