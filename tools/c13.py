#!/usr/bin/env python3
"""C13 — Pareto dominance, non-dominated sorting, hypervolume: proofs (Properties_C13.v) +
correspondence (extracted model: rank_list / fast_nds / hv_spec / hv2d / hv3d (3-D sweep) / wfg +
wfg_limit (WFG recursion and its limit set) / hssp2d (2-D subset selection) / contribs_spec / best_subset_hv vs. the freshly compiled
Shark algorithms on integer point sets) + an independent spec monitor in this file (ranks by longest
dominance chain, hypervolume by slab-wise HSO)."""
import os, sys, re, itertools
sys.path.insert(0, os.path.dirname(os.path.abspath(__file__)))
from vlib import *

PID = "C13"

# ------------------------------------------------------------------------------------------------
# independent spec (monitor side)

def dom(a, b):
    return all(x <= y for x, y in zip(a, b)) and any(x < y for x, y in zip(a, b))

def spec_ranks(P):
    n = len(P); order = sorted(range(n), key=lambda i: sum(P[i])); r = [0] * n
    for i in order:   # every dominator has a strictly smaller coordinate sum
        r[i] = 1 + max([r[j] for j in range(n) if dom(P[j], P[i])] + [0])
    return r

def spec_hv(P, ref):
    """slab-wise HSO over the distinct values of the last objective; exact integers"""
    P = [p for p in P if all(x <= r for x, r in zip(p, ref))]
    if not P: return 0
    if len(ref) == 1: return ref[0] - min(p[0] for p in P)
    vals = sorted(set(p[-1] for p in P)) + [ref[-1]]
    tot = 0
    for a, b in zip(vals, vals[1:]):
        tot += (b - a) * spec_hv([p[:-1] for p in P if p[-1] <= a], ref[:-1])
    return tot

def spec_contribs(P, ref):
    h = spec_hv(P, ref)
    return [h - spec_hv(P[:i] + P[i + 1:], ref) for i in range(len(P))]

def spec_limit(P):
    """limit set of the first point w.r.t. the others: non-dominated members of {max(q, p0)}, duplicates kept"""
    L = [[max(a, b) for a, b in zip(q, P[0])] for q in P[1:]]
    keep = sorted(q for q in L if not any(dom(r, q) for r in L))
    return "/".join(",".join(map(str, q)) for q in keep) if keep else "none"

def front_size(P):
    return len(set(tuple(p) for p in P if not any(dom(q, p) for q in P)))

# ------------------------------------------------------------------------------------------------
# parsing

def parse_case(lines):
    t = lines[0].split()
    q, d, k = t[1], int(t[2]), int(t[3]); ref = list(map(int, t[4:4 + d]))
    P = [list(map(int, l.split()[1:])) for l in lines[1:] if l.startswith("p ")]
    return q, d, k, ref, P, any(l.strip() == "E" for l in lines)

def fields(line):
    d = {}
    for tok in line.split()[1:]:
        if "=" in tok:
            a, b = tok.split("=", 1); d[a] = b
    return d

def ints(s):
    return [int(x) for x in s.split(",")] if s not in ("", None) else []

def kvlist(s):
    if s in ("none", ""): return []
    out = []
    for item in s.split(";"):
        v, i = item.split("@"); out.append((float(v), int(i)))
    return out

def result_line(lines, out):
    for l, o in zip(lines, out):
        if l.strip() == "E": return o
    return None

# ------------------------------------------------------------------------------------------------
# the spec monitor: property predicate evaluated on the implementation's own output

def close(a, b, scale, exact):
    return a == b if exact else abs(a - b) <= 1e-9 * max(1.0, abs(scale))

def check_contrib(name, got, k, want, largest, exact, scale, n):
    """got: list of (value,index); want: exact contributions by index"""
    msgs = []
    if len(got) != k: return ["%s returned %d entries for k=%d" % (name, len(got), k)]
    idx = [i for _, i in got]
    if len(set(idx)) != len(idx) or any(i < 0 or i >= n for i in idx):
        return ["%s returned indices %s (not distinct indices of the set, n=%d)" % (name, idx, n)]
    for v, i in got:
        if not close(v, want[i], scale, exact):
            msgs.append("%s reports contribution %r for point %d, hypervolume lost by removing it is %d" % (name, v, i, want[i])); break
    ext = sorted(want, reverse=largest)[:k]
    gv = [v for v, _ in got]
    if not msgs and any(not close(a, b, scale, exact) for a, b in zip(gv, ext)):
        msgs.append("%s returned contributions %s, the %d %s contributions are %s" % (name, gv, k, "largest" if largest else "smallest", ext))
    return msgs

def monitor(lines, out):
    q, d, k, ref, P, hasE = parse_case(lines)
    if not hasE: return []
    o = result_line(lines, out)
    if o is None: return ["no result line"]
    n = len(P); f = fields(o); msgs = []
    if "EXC" in o.split() or "=EXC" in o or "=STDEXC" in o:
        if q == "S" and (n == 0 or min(k, n) < 1 or min(k, n) > front_size(P)): return []
        return ["unexpected exception: " + o]
    if q == "R":
        want = spec_ranks(P)
        for name in ("nds", "fast", "dc"):
            if ints(f.get(name, "")) != want:
                msgs.append("%s ranks %s, definition gives %s" % (name, f.get(name), ",".join(map(str, want))))
    elif q in ("H", "G"):
        want = spec_hv(P, ref)
        for name in ("disp", "a2", "a3", "hoy", "wfg"):
            v = f.get(name, "-")
            if v == "-": continue
            if float(v) != want:
                msgs.append("hypervolume %s=%s, measure of the dominated region is %d" % (name, v, want))
    elif q == "Y":
        # direct call of HOY's stream on a region [low, up) x (-inf, cover) with every point inside: the result is the
        # measure of the part of the region the points dominate (doubled coordinates: 2^m * result is an integer)
        if "st" not in f: return []
        want = spec_hv(P, ref)
        if float(f["st"]) != want:
            msgs.append("HOY stream returns %s / 2^%d on the region, measure of the dominated part is %d / 2^%d" % (f["st"], d, want, d))
    elif q == "K":
        if n == 0: return []
        keff = min(k, n); want = spec_contribs(P, ref); scale = spec_hv(P, ref)
        for name in ("s_disp", "l_disp", "s_alg", "l_alg", "s_md", "l_md"):
            v = f.get(name, "-")
            if v == "-": continue
            exact = not (name.endswith("md") or (d >= 4))
            msgs += check_contrib(name, kvlist(v), keff, want, name.startswith("l_"), exact, scale, n)
    elif q == "S":
        keff = min(k, n)
        if n == 0 or keff < 1 or keff > front_size(P): return []
        sel = f.get("sel", "")
        chosen = [P[i] for i, c in enumerate(sel) if c == "1"]
        best = max(spec_hv(list(c), ref) for c in itertools.combinations(P, keff))
        if len(sel) != n or len(chosen) > keff:
            msgs.append("subset selection marked %d points for k=%d" % (len(chosen), keff))
        elif spec_hv(chosen, ref) != best:
            msgs.append("selected subset %s has hypervolume %d, best %d-subset has %d" % (sel, spec_hv(chosen, ref), keff, best))
    return msgs

def monitor_noref(lines, out):
    """overloads without reference point: entries must be contributions (w.r.t. the component-wise
    maximum as reference) of k distinct points of the set"""
    q, d, k, ref, P, hasE = parse_case(lines)
    if not hasE or not P: return []
    o = result_line(lines, out)
    if o is None: return ["no result line"]
    n = len(P); keff = min(k, n); f = fields(o); msgs = []
    iref = [max(p[j] for p in P) for j in range(d)]
    want = spec_contribs(P, iref); scale = spec_hv(P, iref)
    for name in ("s_disp", "l_disp"):
        v = f.get(name, "-")
        if v in ("EXC", "STDEXC"):
            # k <= number of points is a request the selection operators rely on (IndicatorBasedSelection discards extreme points
            # of small fronts): since /repo commit 1a2ef572 it is answered by appending the extreme points last
            msgs.append("%s (no reference point) k=%d n=%d d=%d is rejected (%s) although the set has k points" % (name, keff, n, d, v)); continue
        try: got = kvlist(v)
        except ValueError: msgs.append("%s unparsable %s" % (name, v)); continue
        if len(got) != keff: msgs.append("%s (no reference point) returned %d entries for k=%d" % (name, len(got), keff)); continue
        idx = [i for _, i in got]
        if len(set(idx)) != len(idx) or any(i < 0 or i >= n for i in idx):
            msgs.append("%s (no reference point) k=%d n=%d d=%d returned entries %s: indices are not distinct points of the set" % (name, keff, n, d, v)); continue
        for val, i in got:
            if not close(val, want[i], scale, d <= 3):
                msgs.append("%s (no reference point) reports %r for point %d, contribution w.r.t. the implied reference %s is %d" % (name, val, i, iref, want[i])); break
    return msgs

def compare_noref(case, mout, iout):
    """overloads without reference point: the model's result list against the code's.  Contributions position by
    position (the selected part is sorted, the appended extreme points come in a fixed order), the indices of the
    appended extreme points exactly, every reported (value, index) against the contribution of that index w.r.t. the
    implicit reference point; the indices of EQUAL contributions inside the selected part are not determined by the code
    (std::sort / heap) and are compared as 'distinct indices with the right value' only."""
    q, d, k, ref, P, _ = parse_case(case)
    if not P: return None
    fm, fi = fields(result_line(case, mout) or ""), fields(result_line(case, iout) or "")
    n = len(P); keff = min(k, n)
    if "nall" not in fm: return "model printed no result: %r" % (result_line(case, mout),)
    nall = ints(fm["nall"]); scale = max([1] + [abs(v) for v in nall]) * 10
    exact = d <= 3
    ncand = max(0, n - 2) if d == 2 else n - len(set(min(range(n), key=lambda i: (P[i][j], i)) for j in range(d)))
    for mname, iname in (("ns", "s_disp"), ("nl", "l_disp")):
        try: got = kvlist(fi.get(iname, "")); want = kvlist(fm.get(mname, ""))
        except ValueError: return "unparsable %s / %s" % (fi.get(iname), fm.get(mname))
        if len(got) != len(want): return "%s has %d entries, model has %d" % (iname, len(got), len(want))
        for (gv, gi), (wv, wi) in zip(got, want):
            if (gv != wv) if exact else (abs(gv - wv) > 1e-9 * scale): return "%s values %s, model %s" % (iname, fi.get(iname), fm.get(mname))
            if gi >= n or ((gv != nall[gi]) if exact else (abs(gv - nall[gi]) > 1e-9 * scale)):
                return "%s entry %r@%d, contribution of that index w.r.t. the implicit reference is %s" % (iname, gv, gi, nall[gi] if gi < n else "?")
        nsel = min(keff, ncand)
        # which of several COPIES of an extreme point is appended is decided by std::sort on (f1, f2) (the index is not part of the
        # comparator: unspecified order among equal points; seeds 99 / thorough: 17 points, three distinct ones): the appended
        # entries are compared as points, their indices only where the extreme point occurs once
        gx, wx = [i for _, i in got[nsel:]], [i for _, i in want[nsel:]]
        if any(gi >= n for gi in gx) or [list(P[i]) for i in gx] != [list(P[i]) for i in wx] or \
           any(gi != wi and [list(q_) for q_ in P].count(list(P[wi])) == 1 for gi, wi in zip(gx, wx)):
            return "%s appended extreme points %s, model %s" % (iname, got[nsel:], want[nsel:])
        if len(set(i for _, i in got)) != len(got): return "%s indices not distinct" % iname
    return None

# ------------------------------------------------------------------------------------------------
# model vs implementation (canonical comparison; the model prints spec values)

def compare(a, b, lines_holder=[None]):
    """a: model lines, b: implementation lines of one case"""
    for x, y in zip(a, b):
        if x in ("C", "p") or y in ("C", "p"):
            if x != y: return False
            continue
        fx, fy = fields(x), fields(y); kind = x.split()[0]
        if kind != y.split()[0]: return False
        if kind == "R":
            if not (fx["nds"] == fy["nds"] and fx["fast"] == fy["fast"] and fx["dc"] == fy["dc"]): return False
        elif kind == "H":
            for name in ("disp", "a3", "hoy", "wfg"):
                if fy.get(name, "-") != "-" and float(fy[name]) != int(fx["spec"]): return False
            if fx["a2"] != "-" and float(fy["a2"]) != int(fx["a2"]): return False
            # the models of the 3-D sweep and of the WFG recursion run next to the code
            if fx["a3"] != "-" and float(fy["a3"]) != int(fx["a3"]): return False
            if fx["wfg"] != "-" and fy.get("wfg", "-") != "-" and float(fy["wfg"]) != int(fx["wfg"]): return False
            if fx["lim"] != fy.get("lim", "?"): return False      # limitSet(points[1..], points[0]) as a sorted multiset
            if fx.get("disp", "-") != "-" and fy.get("disp", "-") != "-" and float(fy["disp"]) != int(fx["disp"]): return False   # front end model
            # the model of HypervolumeCalculatorMDHOY (C13Hoy.v) next to the code
            if fx.get("hoy", "-") != "-" and fy.get("hoy", "-") != "-" and float(fy["hoy"]) != int(fx["hoy"]): return False
        elif kind == "Y":
            if "nolow" in x or "nolow" in y:
                if x != y: return False
                continue
            # stream: value, recursion tree (sizes of the child point sets of every splitting call), getMedian, computeTrellis
            if "EXC" in y: return False
            if float(fy["st"]) != int(fx["st"]) or fy["tr"] != fx["tr"]: return False
            if fx["med"] != "-" and float(fy["med"]) != int(fx["med"]): return False
            if fx["trel"] != "-" and float(fy["trel"]) != int(fx["trel"]): return False
        elif kind == "K":
            if "empty" in x or "empty" in y:
                if x != y: return False
                continue
            small, large = ints(fx["small"]), ints(fx["large"]); scale = max([1] + [abs(v) for v in ints(fx["spec"])]) * 10
            # the model of the front end HypervolumeContribution (contrib_front_smallest / largest): same values in the same order
            for mname, iname in (("fes", "s_disp"), ("fel", "l_disp")):
                if mname in fx and iname in fy and "EXC" not in fy[iname]:
                    gv = [v for v, _ in kvlist(fy[iname])]; wv = [v for v, _ in kvlist(fx[mname])]
                    if len(gv) != len(wv) or any(abs(a - b) > 1e-9 * scale for a, b in zip(gv, wv)): return False
            for name in ("s_disp", "l_disp", "s_alg", "l_alg", "s_md", "l_md"):
                v = fy.get(name, "-")
                if v == "-": continue
                if "EXC" in v: return False
                got = sorted(val for val, _ in kvlist(v)); want = sorted(large if name.startswith("l_") else small)
                if len(got) != len(want) or any(abs(g - w) > 1e-9 * scale for g, w in zip(got, want)): return False
                # every reported (contribution, index) entry against the value the extracted model of that algorithm
                # computes for that index (md= HypervolumeContributionMD, c3d= the 3-D sweep, c2d= the 2-D formula)
                col = "md" if name.endswith("_md") else {2: "c2d", 3: "c3d"}.get(int(fx.get("d", "0")), "md")
                mv = fx.get(col, "-")
                if mv not in ("-", None):
                    mvals = ints(mv); exact = col != "md"
                    for val, idx in kvlist(v):
                        if idx >= len(mvals): return False
                        if (val != mvals[idx]) if exact else (abs(val - mvals[idx]) > 1e-9 * scale): return False
        elif kind == "S":
            # the model of HypervolumeSubsetSelection2D (createFront, upper envelope, dynamic programme, back-tracking)
            # selects exactly the points the code selects (n <= 16: std::sort is libstdc++'s insertion sort)
            if "sel" in fx and fx["sel"] != "-":
                if fx["sel"] == "EXC":
                    if "EXC" not in y: return False
                elif fy.get("sel") != fx["sel"]: return False
    return len(a) == len(b)

# ------------------------------------------------------------------------------------------------
# generators

def rng_points(rng, d, n, R):
    mode = rng.random()
    P = []
    for _ in range(n):
        if mode < 0.2 and P and rng.random() < 0.4:
            P.append(list(rng.choice(P)))                      # duplicate
        elif mode < 0.4 and P and rng.random() < 0.5:
            q = list(rng.choice(P)); j = rng.randrange(d); q[j] = rng.randint(0, R); P.append(q)   # tie in d-1 coordinates
        elif mode < 0.55:
            s = rng.randint(0, R); p = [rng.randint(0, R) for _ in range(d)]; p[rng.randrange(d)] = s; P.append(p)
        elif mode < 0.7 and d == 2:
            x = rng.randint(0, R); P.append([x, R - x])          # collinear anti-chain
        else:
            P.append([rng.randint(0, R) for _ in range(d)])
    return P

def pick_dR(rng, big):
    d = rng.choice([2, 2, 3, 3, 4, 5])
    R = rng.choice({2: [1, 2, 4, 7, 10], 3: [1, 2, 4, 6], 4: [1, 2, 3, 4], 5: [1, 2, 3]}[d])
    return d, R

def make_ref(rng, P, d, R, strict=False):
    mx = [max([p[j] for p in P] + [0]) for j in range(d)]
    if not strict and rng.random() < 0.12: return mx      # every objective has a point ON the reference boundary
    return [m + rng.choice([1, 1, 1, 2, 3] if strict else [0, 1, 1, 1, 2, 3]) for m in mx]

def case_lines(q, d, k, ref, P):
    return ["C %s %d %d %s" % (q, d, k, " ".join(map(str, ref)))] + ["p " + " ".join(map(str, p)) for p in P] + ["E"]

def gen_dc(rng, big):
    """rank queries aimed at the case splits of the divide-and-conquer sort: 3-6 objectives (splitA / ndHelperB / splitB need
    k >= 3 resp. k >= 4), few distinct values per objective (median ties, 'all values of objective k equal'), many
    duplicates, chains (many fronts), sizes around the switch of the front end (n = 3^(m+1) for m = 3)"""
    d = rng.choice([2, 3, 3, 4, 4, 4, 5, 5, 6])
    mode = rng.choice(["few", "few", "lastconst", "chain", "binary", "switch", "mixed"])
    n = rng.choice([3, 4, 5, 6, 7, 9, 12, 16, 24, 32, 48] + ([64, 96] if big else []))
    if mode == "few":
        R = rng.choice([1, 2, 3]); P = [[rng.randint(0, R) for _ in range(d)] for _ in range(n)]
    elif mode == "binary":
        P = [[rng.randint(0, 1) for _ in range(d)] for _ in range(n)]
    elif mode == "lastconst":          # the last 1..d-2 objectives are constant: ndHelperA descends by 'k_equal'
        c = rng.randint(1, max(1, d - 2)); R = rng.choice([2, 3, 5])
        P = [[rng.randint(0, R) for _ in range(d - c)] + [1] * c for _ in range(n)]
    elif mode == "chain":              # long dominance chains plus incomparable points: many fronts, fronts set by ndHelperB
        R = 3; P = []
        for i in range(n):
            b = i // 2
            P.append([b + rng.randint(0, 1) for _ in range(d)] if rng.random() < 0.7 else [rng.randint(0, n // 2) for _ in range(d)])
    elif mode == "switch":             # sizes around n = 3^(m+1): both branches of the front end (m = 3 only: 81)
        d = 3; n = rng.choice([79, 80, 81, 82, 83, 90]); R = rng.choice([3, 5, 8])
        P = [[rng.randint(0, R) for _ in range(d)] for _ in range(n)]
    else:
        R = rng.choice([2, 4, 6]); P = rng_points(rng, d, n, R)
    if mode != "switch" and rng.random() < 0.3:
        for _ in range(rng.randint(1, 4)): P.insert(rng.randrange(len(P) + 1), list(rng.choice(P)))
    return case_lines("R", d, 0, [0] * d, P)

def gen_k3(rng, big, q="K"):
    """contribution queries aimed at the case splits of the 3-D sweep (HypervolumeContribution3D): mutually non-dominated
    sets with few distinct values per objective (equal f1 / equal f2 / equal f3 between different points: multiset order,
    'right neighbour with the same second objective', equal sweep heights), duplicates (also triples), points on the
    reference boundary of each objective, n = 1, 2, and the 4/5-objective MD algorithm on the same kind of sets"""
    d = rng.choice([3, 3, 3, 3, 4, 5])
    R = rng.choice([1, 2, 2, 3, 3, 4, 6] if d == 3 else [1, 2, 3])
    n = rng.choice([1, 2, 3, 4, 5, 6, 8, 10, 12, 16] if d == 3 else [1, 2, 3, 5, 8, 12])
    P0 = [[rng.randint(0, R) for _ in range(d)] for _ in range(4 * n)]
    if rng.random() < 0.3:            # anti-chain on a plane: many equal coordinate pairs
        P0 = [p for p in P0 if sum(p) == (d * R) // 2] or P0
    P = []
    for p in P0:
        if not any(dom(q, p) for q in P0) and p not in P: P.append(p)
    P = P[:n] or [P0[0]]
    for _ in range(rng.choice([0, 0, 1, 2, 3])):
        P.insert(rng.randrange(len(P) + 1), list(rng.choice(P)))
    rng.shuffle(P)
    mx = [max(p[j] for p in P) for j in range(d)]
    ref = [m + rng.choice([0, 0, 1, 1, 2]) for m in mx]      # boundary points in every objective are frequent
    return case_lines(q, d, rng.randint(1, len(P)), ref, P)

def gen_shifted(rng, big):
    """any of the other cases translated by a negative offset (negative objective values, in particular -1: the value
    HypervolumeCalculatorMDHOY used as 'no split bound yet' until /repo commit 589fd5bd)"""
    while True:
        c = gen_case(rng, big, rng.choice(["R", "H", "H", "K", "K3", "S", "D"]))
        t = c[0].split(); q, d = t[1], int(t[2])
        off = rng.choice([-1, -2, -3, -7])
        out = []
        for l in c:
            u = l.split()
            if u[0] == "C": out.append(" ".join(["C", q] + u[2:4] + [str(int(x) + off) for x in u[4:4 + d]]))
            elif u[0] == "p": out.append("p " + " ".join(str(int(x) + off) for x in u[1:]))
            else: out.append(l)
        return out

def gen_hoy_neg(rng, big):
    """HOY with negative coordinates around -1 (3-5 objectives: explicit call; 4 objectives: also through the front end):
    split bounds (medians of coordinates) equal to -1, regions with lower corner -1"""
    d = rng.choice([3, 4, 4, 4, 5]); n = rng.choice([3, 4, 5, 6, 8, 10, 14] + ([20, 30] if big else []))
    if d == 5: n = min(n, 10)
    lo = rng.choice([-2, -3, -4]); hi = rng.choice([-1, 0, 1])
    P = [[rng.randint(lo, hi) for _ in range(d)] for _ in range(n)]
    if rng.random() < 0.4:
        for p in P: p[rng.randrange(d)] = -1
    return case_lines("H", d, 0, [hi + rng.choice([0, 1, 1, 2]) for _ in range(d)], P)

def gen_hoy_stream(rng, big):
    """direct call of HypervolumeCalculatorMDHOY::stream (query Y, all numbers doubled): the call operator() makes
    (points strictly below the reference point, sorted by the last objective, regionLow = component-wise minimum,
    m_sqrtNoPoints = floor(sqrt(n))), and variations of it that are legal states of the recursion: half-integer region
    bounds, lower corner below the minimum, other thresholds m_sqrtNoPoints, split = 1"""
    import math
    while True:
        d = rng.choice([3, 4, 4, 4, 5]); n = rng.choice([1, 2, 3, 4, 5, 6, 8, 10, 14, 20] + ([30, 40] if big else []))
        if d == 5: n = min(n, 10)
        if rng.random() < 0.4:
            lo = rng.choice([-2, -3, -4]); hi = rng.choice([-1, 0, 1])
            P = [[rng.randint(lo, hi) for _ in range(d)] for _ in range(n)]
        else:
            R = rng.choice({3: [1, 2, 4, 6], 4: [1, 2, 3, 4], 5: [1, 2, 3]}[d]); P = rng_points(rng, d, n, R)
        mx = [max(p[j] for p in P) for j in range(d)]
        ref = [m + rng.choice([0, 1, 1, 1, 2]) for m in mx]
        S = sorted([p for p in P if all(x < r for x, r in zip(p, ref))], key=lambda p: p[-1])
        if S: break
    low = [2 * min(p[j] for p in S) for j in range(d - 1)]; up = [2 * r for r in ref[:-1]]; cover = 2 * ref[-1]
    sq = int(math.isqrt(len(P))); split = 0
    if rng.random() < 0.4:
        low = [l - rng.choice([0, 0, 1, 2, 3]) for l in low]; up = [u + rng.choice([0, 0, 1, 3]) for u in up]
        cover += rng.choice([0, 1, 2]); sq = rng.choice([0, 1, 2, sq, len(S)]); split = rng.choice([0, 0, 1])
    return (["C Y %d %d %s" % (d, sq, " ".join(map(str, up + [cover]))), "l %d %s" % (split, " ".join(map(str, low)))]
            + ["p " + " ".join(str(2 * x) for x in p) for p in S] + ["E"])

def gen_case(rng, big, kind=None):
    kind = kind or rng.choice(["R", "R", "H", "H", "H", "K", "K", "S", "S", "D", "K3", "NEG", "HOYNEG"])
    if kind == "D": return gen_dc(rng, big)
    if kind == "K3": return gen_k3(rng, big)
    if kind == "NEG": return gen_shifted(rng, big)
    if kind == "HOYNEG": return gen_hoy_neg(rng, big)
    if kind == "Y": return gen_hoy_stream(rng, big)
    d, R = pick_dR(rng, big)
    if kind == "R":
        n = rng.choice([1, 2, 3, 5, 8, 13, 20, 30, 40] + ([60, 80] if big else []))
        P = rng_points(rng, d, n, R); return case_lines("R", d, 0, [0] * d, P)
    if kind == "H":
        n = rng.choice([1, 2, 3, 4, 6, 9, 14, 20, 30, 40] + ([60] if big else []))
        if d == 5: n = min(n, 14 if not big else 20)      # WFG is exponential
        P = rng_points(rng, d, n, R); return case_lines("H", d, 0, make_ref(rng, P, d, R), P)
    if kind in ("K", "N"):
        n = rng.choice([1, 2, 3, 5, 8, 12, 16])
        P0 = rng_points(rng, d, 3 * n, R)
        P = [p for p in P0 if not any(dom(q, p) for q in P0)][:n]        # mutually non-dominated
        for _ in range(rng.choice([0, 0, 1, 2])):
            if P: P.insert(rng.randrange(len(P) + 1), list(rng.choice(P)))   # duplicates allowed
        rng.shuffle(P)
        k = rng.randint(1, len(P))
        return case_lines(kind, d, k, make_ref(rng, P, d, R, strict=rng.random() < 0.85), P)
    if kind == "S":
        d = 2; R = rng.choice([2, 4, 7, 10]); n = rng.choice([1, 2, 3, 4, 6, 8, 10])
        P = rng_points(rng, d, n, R)
        if rng.random() < 0.6:
            # a strict staircase plus points that are dominated only through a TIE in one coordinate with a
            # staircase point (same f2 / same f1): they must be filtered before the dynamic programme runs
            R = rng.choice([5, 6, 8]); m0 = rng.randint(2, 5)
            xs = sorted(rng.sample(range(0, R), min(m0, R))); ys = sorted(rng.sample(range(0, R), len(xs)), reverse=True)
            P = [[x, y] for x, y in zip(xs, ys)]
            for _ in range(rng.randint(1, 3)):
                x, y = rng.choice(P[:len(xs)])
                P.append([x + rng.randint(1, 2), y] if rng.random() < 0.6 else [x, y + rng.randint(1, 2)])
            rng.shuffle(P)
        m = front_size(P)
        return case_lines("S", 2, rng.randint(1, m), make_ref(rng, P, 2, R, strict=rng.random() < 0.85), P)

def load_cases(ck, gen, n):
    rd = lambda p: [l for l in open(p).read().split("\n") if l.strip() and not l.startswith("#")]
    if ck.replay: return [rd(ck.replay)]
    cases = []
    cdir = os.path.join(ROOT, "corpus", PID)
    if os.path.isdir(cdir):
        for f in sorted(os.listdir(cdir)): cases.append(rd(os.path.join(cdir, f)))
    for _ in range(n): cases.append(gen())
    return cases

# ------------------------------------------------------------------------------------------------

def model_checks(ck, cases, model_out):
    """consistency inside the model run: unproved model parts against the proved spec values"""
    bad = []
    stats = {"fast_nds=rank_list": 0, "dc_nds=nds_front=rank_list": 0, "contribs_md=contribs_spec": 0, "contribs3d=contribs_spec": 0, "contrib2d_ref=contrib_spec": 0, "best_subset(model)=best_subset(monitor)": 0,
             "hv3d=hv_spec": 0, "wfg=hv_spec": 0, "wfg_limit=python_limit": 0, "hoy=hv_spec": 0, "hoy_stream=measure": 0,
             "hv(hssp2d model selection)=best_subset_hv": 0}
    for c, (o, rc, _) in zip(cases, model_out):
        q, d, k, ref, P, hasE = parse_case(c)
        if not hasE: continue
        r = result_line(c, o)
        if r is None: continue
        f = fields(r)
        if q == "R":
            stats["fast_nds=rank_list"] += 1
            if f["spec"] != f["fast"]: bad.append(("fast_nds model differs from rank_list", c, r))
            stats["dc_nds=nds_front=rank_list"] += 1
            if f["spec"] != f["dc"]: bad.append(("dc_nds model (divide-and-conquer sort) differs from rank_list", c, r))
            if f["spec"] != f["nds"]: bad.append(("nds_front model (sorting front end) differs from rank_list", c, r))
            if ints(f["spec"]) != spec_ranks(P): bad.append(("rank_list differs from the Python rank definition", c, r))
        elif q in ("H", "G"):
            if int(f["spec"]) != spec_hv(P, ref): bad.append(("hv_spec differs from the Python slab HSO", c, r))
            if f["a2"] != "-" and f["a2"] != f["spec"]: bad.append(("hv2d model differs from hv_spec", c, r))
            if f["a3"] != "-":
                stats["hv3d=hv_spec"] += 1
                if f["a3"] != f["spec"]: bad.append(("hv3d model (3-D sweep) differs from hv_spec", c, r))
            if f["wfg"] != "-":
                stats["wfg=hv_spec"] += 1
                if f["wfg"] != f["spec"]: bad.append(("wfg model differs from hv_spec", c, r))
            if f.get("disp", "-") != "-" and f["disp"] != f["spec"]: bad.append(("hv_dispatch model differs from hv_spec", c, r))
            if f.get("hoy", "-") != "-":
                stats["hoy=hv_spec"] += 1
                if f["hoy"] != f["spec"]: bad.append(("hoy model (HypervolumeCalculatorMDHOY) differs from hv_spec", c, r))
            if f["lim"] != "-":
                stats["wfg_limit=python_limit"] += 1
                if f["lim"] != spec_limit(P): bad.append(("wfg_limit model differs from the Python limit set", c, r))
        elif q == "Y" and "st" in f:
            stats["hoy_stream=measure"] += 1
            if int(f["st"]) != spec_hv(P, ref): bad.append(("hoy_stream model differs from the measure of the dominated part of the region", c, r))
        elif q == "K" and P:
            if ints(f["spec"]) != spec_contribs(P, ref): bad.append(("contribs_spec differs from the Python contributions", c, r))
            if f["c2d"] != "-":
                stats["contrib2d_ref=contrib_spec"] += 1
                if f["c2d"] != f["spec"]: bad.append(("contrib2d_ref model differs from contribs_spec on a mutually non-dominated set", c, r))
            if f.get("c3d", "-") != "-":
                stats["contribs3d=contribs_spec"] += 1
                if f["c3d"] != f["spec"]: bad.append(("contribs3d model (3-D contribution sweep) differs from contribs_spec on a mutually non-dominated set", c, r))
                if [v for v, _ in kvlist(f["c3s"])] != ints(f["small"]) or [v for v, _ in kvlist(f["c3l"])] != ints(f["large"]):
                    bad.append(("smallest_kv / largest_kv of the 3-D model differ from the k extremal contributions", c, r))
            if f.get("md", "-") != "-":
                stats["contribs_md=contribs_spec"] += 1
                if f["md"] != f["spec"]: bad.append(("contribs_md model (HypervolumeContributionMD) differs from contribs_spec", c, r))
                if [v for v, _ in kvlist(f["mds"])] != ints(f["small"]) or [v for v, _ in kvlist(f["mdl"])] != ints(f["large"]):
                    bad.append(("smallest_kv / largest_kv of the MD model differ from the k extremal contributions", c, r))
        elif q == "S" and "best" in f:
            stats["best_subset(model)=best_subset(monitor)"] += 1
            keff = min(k, len(P))
            if int(f["best"]) != max(spec_hv(list(s), ref) for s in itertools.combinations(P, keff)):
                bad.append(("best_subset_hv differs from Python brute force", c, r))
            if f.get("hvsel", "-") != "-":
                stats["hv(hssp2d model selection)=best_subset_hv"] += 1
                if f["hvsel"] != f["best"]: bad.append(("hssp2d model selects a subset that is not of maximal hypervolume", c, r))
                if f["sel"].count("1") > keff: bad.append(("hssp2d model selects more than k points", c, r))
    for what, c, r in bad[:3]:
        cf = ck.write_replay("model_%d.txt" % len(ck.violations), "\n".join(c) + "\n")
        ck.violation("model-consistency:" + what, {"case_file": cf, "case": c, "model_output": r}, "model-internal consistency: " + what, no_input=True)
    ck.oblige("model-internal consistency (fast_nds=rank_list, hv2d=hv3d=wfg=hv_spec, wfg_limit=Python limit set, contrib2d_ref=contribs_spec, Coq spec=Python spec) on every case", not bad, "%d failures" % len(bad))
    return stats

def main():
    ck = Check(PID)
    ck.trusted = DEFAULT_TRUSTED + ["modelled not verified: std::sort / heap algorithms of libstdc++ ('some arrangement sorted by the key'; theorem C13_hv2d_correct_any_tie_order quantifies over all of them)",
                                    "modelled not verified: std::map of the DC sort's sweeps is an association list with unique keys (iteration order is not observable: a maximum is computed); std::nth_element / std::max_element in median() are 'the element of rank n/2' / 'the maximum of the lower half' of the sorted values",
                                    "modelled not verified: std::sort in createFront of the 2-D subset selection is libstdc++'s insertion sort (n <= 16; the selection vector is compared for n <= 16 only; the theorem covers every arrangement sorted by the first objective); double comparisons of intersection abscissae with the 1e-10 tolerance are exact rational comparisons on small integer coordinates",
                                    "modelled not verified: exp(sum(log(ref - p))) in HypervolumeContributionMD is the exact product of the edge lengths (compared at 1e-9); -inf (= -DBL_MAX) of the sentinels in HypervolumeContribution3D is any value below all coordinates; Box::upper.f3 there is dead data",
                                    "modelled not verified: bestContributors (heap of k+1 slots, push_heap / pop_heap / sort_heap) of the 2-D contribution code is 'the k best entries in sorted order'; the order among equal contributions is left open by the code and by the theorems",
                                    "modelled not verified: HOY's double arithmetic on half-integer split bounds is exact (the model C13Hoy.v computes on the doubled integers; value, recursion tree, getMedian and computeTrellis are compared with the code on every run); the order std::sort leaves equal last objectives in is a parameter of the theorem",
                                    "not proved, differential test only: subset selection without reference point"]
    ck.assumptions = ["integer objective values (products of at most 5 integers <= 13 are exact in double, comparison is equality; MD contributions use exp(sum(log)) and are compared at 1e-9 relative to the total hypervolume)",
                      "reference point weakly dominated by every point (ref_i >= max coordinate, mostly strictly)",
                      "contribution queries: mutually non-dominated sets with duplicates, 1 <= k <= n, overloads WITH reference point in the main stream; overloads without reference point in a separate stream",
                      "subset selection: k <= number of distinct non-dominated points (documented precondition)"]
    ck.proofs()
    model = extract_model(PID, "C13Extract.v", "c13_driver.ml")
    exe, err = cxx_build("c13_pareto", [os.path.join(ROOT, "harness", "c13_pareto.cpp")] + repo_src("src/Core/Random.cpp"))
    if exe is None:
        ck.oblige("harness builds against /repo", False, err); ck.finish()
    tmpd = os.path.join(BUILD, "tmp", PID); os.makedirs(tmpd, exist_ok=True)
    big = ck.tier == "thorough"
    env = {"OMP_NUM_THREADS": "2"}
    cases = load_cases(ck, lambda: gen_case(ck.rng, big), 3000 if not big else 30000)
    if not ck.replay:
        # direct calls of HOY's stream (value + recursion tree + getMedian + computeTrellis next to the model C13Hoy.v)
        cases += [gen_hoy_stream(ck.rng, big) for _ in range(400 if not big else 4000)]
    main_cases = [c for c in cases if c[0].split()[1] != "N"]
    noref_cases = [c for c in cases if c[0].split()[1] == "N"]

    def search(dcases):
        out = []
        for c in dcases:
            kind = c[0].split()[1]
            for _ in range(150): out.append(gen_case(ck.rng, big, {"N": "K", "G": "NEG"}.get(kind, kind) if not any(x.startswith("p ") and "-" in x for x in c) else ("HOYNEG" if kind in ("H", "G") else "NEG")))
        return out
    def keyfn(msg, case):
        q, d, k, ref, P, _ = parse_case(case)
        if q in ("H", "K") and d >= 3 and any(x < 0 for p in P for x in p) and ("hoy" in msg or "disp" in msg or "crashed" in msg or "s_md" in msg or "l_md" in msg):
            # HypervolumeCalculatorMDHOY with negative coordinates: the value -1.0 was the 'no bound yet' sentinel (fixed by 589fd5bd)
            return "hoy-sentinel-minus-one %s d=%d n=%d: %s" % (q, d, len(P), msg)
        touch = q != "R" and any(x == r for p in P for x, r in zip(p, ref))
        return "%s d=%d n=%d%s: %s" % (q, d, len(P), " point-on-reference-boundary" if touch else "", msg)
    r = correspond(ck, main_cases, model, exe, monitor, tmpd, compare=compare, impl_env=env,
                   what="C13Model/C13Dc/C13Wfg/C13Sweep3d/C13Hoy (rank_list, fast_nds, dc_nds, nds_front, hv_spec, hv2d, hv3d, wfg, wfg_limit, hoy, hoy_stream + trace, hssp2d, contribs_spec, best_subset_hv) vs shark nonDominatedSort/Hypervolume*",
                   search=search, keyfn=keyfn)
    stats = model_checks(ck, main_cases, r["model_out"])

    # ---- separate stream: contribution overloads WITHOUT reference point
    if not ck.replay:
        noref_cases += [gen_case(ck.rng, big, "N") if i % 2 else gen_k3(ck.rng, big, "N") for i in range(300 if not big else 3000)]
    nr = {"cases": len(noref_cases), "ok": 0, "k_exceeds_candidates_bad": 0, "other_bad": 0, "crash": 0}
    if noref_cases:
        # one process per case: the undefined behaviour of one query must not be blamed on the next
        io = [run_cases(exe, [c], os.path.join(tmpd, "noref_in.txt"), env=env, timeout=120)[0] for c in noref_cases]
        mo = run_cases(model, noref_cases, os.path.join(tmpd, "noref_model_in.txt"), timeout=600)
        reported = set()
        for c, (o, rc, e), (om, rcm, em) in zip(noref_cases, io, mo):
            q, d, k, ref, P, _ = parse_case(c)
            msgs = ["implementation crashed (rc=%s)" % rc] if rc != 0 else monitor_noref(c, o)
            if rc == 0 and not msgs:
                # the extracted model of the overloads without reference point (noref_front) next to the code
                mm = compare_noref(c, om, o)
                if mm: msgs = ["model (noref_front) and implementation differ: " + mm]
                nr["model_compared"] = nr.get("model_compared", 0) + 1
            if not msgs: nr["ok"] += 1; continue
            n = len(P); keff = min(k, n)
            # candidates: 2-D never selects the two extreme points; 3-D/MD skip the first minimiser of each objective
            ncand = max(0, n - 2) if d == 2 else n - len(set(min(range(n), key=lambda i: (P[i][j], i)) for j in range(d)))
            cls = "k>candidates" if keff > ncand else "k<=candidates"
            if rc != 0: nr["crash"] += 1
            if cls == "k>candidates": nr["k_exceeds_candidates_bad"] += 1
            else: nr["other_bad"] += 1
            key = "contribution-without-reference %s d=%s" % (cls, "2" if d == 2 else "3" if d == 3 else "MD")
            if key in reported: continue
            reported.add(key)
            cf = ck.write_replay("noref_%d.txt" % len(reported), "\n".join(c) + "\n")
            ck.violation(key, {"case_file": cf, "case": c, "implementation_output": o, "monitor": msgs,
                               "replay_cmd": "python3 tools/c13.py --replay " + cf},
                         "overloads without reference point: " + msgs[0])
    ck.notes["noref_stream"] = nr

    kinds = {}
    for c in cases: kinds[c[0].split()[1]] = kinds.get(c[0].split()[1], 0) + 1
    dims = {}
    for c in cases: dims[c[0].split()[2]] = dims.get(c[0].split()[2], 0) + 1
    nontriv = set()
    for c in cases:
        q, d, k, ref, P, _ = parse_case(c)
        if len(P) >= 3 and (len(set(map(tuple, P))) < len(P) or any(dom(a, b) for a in P for b in P) or q in ("K", "N", "S")):
            nontriv.add(" ".join(c))
    ck.cov["evaluations"] = len(cases) + len(noref_cases) - len([c for c in cases if c[0].split()[1] == "N"])
    ck.cov["distinct_nontrivial"] = len(nontriv)
    ck.cov["rule"] = ("random integer point sets, 2-6 objectives, coordinates 0..R (R<=10 for 2-D .. R<=3 for 5-D) with duplicates, "
                      "a stream translated to negative coordinates (query G = H without HOY), streams aimed at the case splits of the DC sort "
                      "(few distinct values, constant last objectives, chains, sizes around the front-end switch) and of the 3-D contribution sweep "
                      "(equal coordinates between different points, duplicates, points on the reference boundary), "
                      "single-coordinate ties, collinear and dominated points; queries R (ranks: dispatcher, fast, DC; n<=40), "
                      "H (hypervolume: front end, 2D, 3D, HOY, WFG and WFG's limit set of the first point, each next to its extracted model; n<=40), Y (direct calls of HOY's stream on doubled data incl. half-integer regions: value, recursion tree, getMedian, computeTrellis next to the model; n<=20), K (smallest/largest-k contributions with reference, "
                      "dispatcher + 2D/3D + MD; n<=18), S (2-D subset selection: selection vector equal to the extracted model's, optimal vs brute force; n<=10), N (contributions without reference, "
                      "separate stream); non-trivial = at least 3 points and (a duplicate or a dominated point or a K/N/S query); distinct = distinct case text")
    ck.cov["samples"] = cases[:2]
    ck.cov["traces_validated_against_impl"] = len(main_cases)
    ck.cov["disagreements_checked"] = r["disagreements"] + r["monitor_failures"]
    ck.notes["query_mix"] = kinds; ck.notes["objectives_mix"] = dims; ck.notes["model_internal_checks"] = stats
    ck.finish(explanation="dominance, rank definition (existence/uniqueness/consistent fronts), fast sort, hv_spec invariances, the 2-D sweep, the 3-D sweep, "
              "the WFG recursion, the 2-D contributions and the 2-D subset selection (upper envelope + dynamic programme) are proved (models run next to the code on every case); "
              "the divide-and-conquer sort and the sorting front end, the MD and 3-D contributions, the contribution front end and the overloads without reference point are proved too; "
              "HOY (HypervolumeCalculatorMDHOY, the front end's algorithm for 4 objectives) is proved equal to hv_spec for every number of objectives (model C13Hoy.v run next to the code: "
              "value for 3-5 objectives, direct calls of stream with the recursion tree read from the real code, getMedian, computeTrellis)")

if __name__ == "__main__":
    main()
