#!/usr/bin/env python3
"""Shared machinery for the /verif checks.

Layers (see DESIGN.md section 1):
  * coq_build / coq_props : build the Coq development, (re)compile Properties_<id>.v and collect the
    theorem names and the `Print Assumptions` output of this very run;
  * extract_model        : Coq extraction (ExtrOcamlBasic only) + OCaml driver -> native executable;
  * cxx_build            : compile a harness (and the /repo sources it needs) from /repo's *current
    working tree*, cached by a content hash of every file the translation unit depends on;
  * Check                : argument handling, evidence file, VIOLATION / KNOWN-FINDING reporting.
"""
import hashlib, json, os, random, re, shutil, subprocess, sys, time

ROOT = os.path.dirname(os.path.dirname(os.path.abspath(__file__)))
REPO = os.environ.get("VERIF_REPO", "/repo")
BUILD = os.path.join(ROOT, "build")
COQ = os.path.join(ROOT, "coq")
GUARD = "SHARK_VERIF_HOOKS"
NCPU = os.cpu_count() or 4

CXX = "g++"
CXXFLAGS = ["-std=gnu++11", "-fopenmp", "-O2", "-DNDEBUG", "-D" + GUARD, "-w",
            "-DBOOST_ALL_DYN_LINK", "-DBOOST_RESULT_OF_USE_DECLTYPE", "-DBOOST_PARAMETER_MAX_ARITY=15"]
ASAN_FLAGS = ["-std=gnu++11", "-fopenmp", "-O1", "-g", "-DNDEBUG", "-D" + GUARD, "-w", "-fsanitize=address,undefined",
              "-fno-sanitize-recover=all", "-fno-omit-frame-pointer",
              "-DBOOST_ALL_DYN_LINK", "-DBOOST_RESULT_OF_USE_DECLTYPE", "-DBOOST_PARAMETER_MAX_ARITY=15"]
LIBS = ["-lboost_serialization", "-lboost_system", "-lboost_filesystem", "-lopenblas", "-lpthread"]


def log(*a):
    print(*a, file=sys.stderr, flush=True)


def sh(cmd, timeout=1800, cwd=None, env=None, input=None, check=False):
    """run a command (list), return (rc, stdout, stderr); rc=-9 on timeout"""
    e = dict(os.environ)
    if env:
        e.update(env)
    try:
        p = subprocess.run(cmd, cwd=cwd, env=e, input=input, capture_output=True, text=True,
                           timeout=timeout, errors="replace")
        rc, out, err = p.returncode, p.stdout, p.stderr
    except subprocess.TimeoutExpired as ex:
        rc, out, err = -9, (ex.stdout or b"").decode("utf8", "replace") if isinstance(ex.stdout, bytes) else (ex.stdout or ""), "TIMEOUT"
    if check and rc != 0:
        raise RuntimeError("command failed (%s): %s\n%s\n%s" % (rc, " ".join(cmd), out[-4000:], err[-4000:]))
    return rc, out, err


# --------------------------------------------------------------------------------------------
# repo include path: the generated Shark.h lives in _build/include; if it is absent (fresh clone
# without a cmake run) we generate the same configuration into build/include.

def repo_includes():
    inc = [os.path.join(REPO, "include")]
    gen = os.path.join(REPO, "_build", "include")
    if not os.path.exists(os.path.join(gen, "shark", "Core", "Shark.h")):
        gen = os.path.join(BUILD, "include")
        dst = os.path.join(gen, "shark", "Core", "Shark.h")
        if not os.path.exists(dst):
            os.makedirs(os.path.dirname(dst), exist_ok=True)
            src = open(os.path.join(REPO, "include", "shark", "Core", "Shark.h.in")).read()
            for k in ("SHARK_USE_OPENMP", "SHARK_USE_CBLAS", "SHARK_USE_LAPACK"):
                src = src.replace("#cmakedefine " + k, "#define " + k)
            src = re.sub(r"#cmakedefine\s+(\w+)", r"/* #undef \1 */", src)
            src = re.sub(r"@\w+@", "0", src)
            open(dst, "w").write(src)
    return ["-I" + inc[0], "-I" + gen]


# --------------------------------------------------------------------------------------------
# Coq

_FORBIDDEN = re.compile(r"\b(Admitted|admit|Axiom|Axioms|Parameter|Parameters|Conjecture|Conjectures|"
                        r"Unset\s+Guard|bypass_check|Admit\s+Obligations|Unset\s+Positivity|"
                        r"Unset\s+Universe\s+Checking|type-in-type|impredicative-set)\b")


def strip_coq_comments(t):
    out, depth, i = [], 0, 0
    while i < len(t):
        if t.startswith("(*", i):
            depth += 1; i += 2
        elif t.startswith("*)", i) and depth:
            depth -= 1; i += 2
        else:
            if not depth:
                out.append(t[i])
            i += 1
    return "".join(out)


def strip_coq_strings(t):
    return re.sub(r'"(?:[^"]|"")*"', '""', t)


def coq_deps(pid_file):
    """transitive closure of SharkV/SharkGen modules imported by a .v file (paths)"""
    seen, todo = {}, [pid_file]
    while todo:
        f = todo.pop()
        if f in seen or not os.path.exists(f):
            continue
        txt = strip_coq_comments(open(f).read()); seen[f] = True
        for mm in re.finditer(r"(?:From\s+(SharkV|SharkGen)\s+)?Require\s+(?:Import|Export)\s+([^.]*)\.", txt):
            for x in mm.group(2).split():
                x = x.split(".")[-1]
                for sub in ("theories", "gen"):
                    cand = os.path.join(COQ, sub, x + ".v")
                    if os.path.exists(cand):
                        todo.append(cand)
    return sorted(seen)


def coq_hygiene(files=None):
    """grep the development (or the given files) for forbidden vernacular; returns offending lines"""
    bad = []
    if files is None:
        files = []
        for d, _, fs in os.walk(COQ):
            files += [os.path.join(d, f) for f in fs if f.endswith(".v")]
    for p in files:
        txt = strip_coq_strings(strip_coq_comments(open(p).read()))
        for n, l in enumerate(txt.split("\n"), 1):
            if _FORBIDDEN.search(l):
                bad.append("%s:%d:%s" % (p, n, l.strip()))
            if re.match(r"\s*(Variable|Variables|Hypothesis|Hypotheses)\b", l):
                pre = "\n".join(txt.split("\n")[:n])
                if len(re.findall(r"^\s*Section\s", pre, re.M)) <= len(re.findall(r"^\s*End\s", pre, re.M)):
                    bad.append("%s:%d:%s (outside section)" % (p, n, l.strip()))
    return bad


def coq_project_files():
    th = os.path.join(COQ, "theories")
    fs = sorted(f for f in os.listdir(th) if f.endswith(".v"))
    gen = os.path.join(COQ, "gen")
    gs = sorted(f for f in os.listdir(gen) if f.endswith(".v")) if os.path.isdir(gen) else []
    return ["theories/" + f for f in fs] + ["gen/" + f for f in gs]


PER_FILE_TIMEOUT = int(os.environ.get("VERIF_COQ_FILE_TIMEOUT", "900"))


def coq_build(targets=None, timeout=3000):
    """coq_makefile + make -k; returns (ok, log).  targets: list like ['theories/Properties_C09.vo']"""
    files = coq_project_files()
    proj = "-Q theories SharkV\n-Q gen SharkGen\n-arg -w -arg -notation-overridden,-deprecated-hint-without-locality,-deprecated-instance-without-locality,-ambiguous-paths,-redundant-canonical-projection\n" + "\n".join(files) + "\n"
    os.makedirs(os.path.join(COQ, "gen"), exist_ok=True)
    pf = os.path.join(COQ, "_CoqProject")
    if not os.path.exists(pf) or open(pf).read() != proj:
        open(pf, "w").write(proj)
    rc, out, err = sh(["coq_makefile", "-f", "_CoqProject", "-o", "Makefile"], cwd=COQ)
    if rc != 0:
        return False, out + err
    # per-file time limit: a proof script that hangs must not stall the whole build (make -k goes on)
    cmd = ["make", "-k", "-j%d" % NCPU, "COQC=timeout %d coqc" % PER_FILE_TIMEOUT] + (targets or [])
    rc, out, err = sh(cmd, cwd=COQ, timeout=timeout)
    return rc == 0, out + err


def coq_props(pid, extra_files=()):
    """Re-compile Properties_<pid>.v now (it only contains `exact lemma` proofs, ~1 s) and parse
    theorem names + Print Assumptions blocks.  Returns dict(ok, theorems=[{name, axioms:[...]}], log)."""
    th = os.path.join(COQ, "theories")
    fn = os.path.join(th, "Properties_%s.v" % pid)
    res = {"ok": False, "theorems": [], "log": "", "file": fn}
    if not os.path.exists(fn):
        res["log"] = "missing " + fn
        return res
    ok, lg = coq_build(["theories/Properties_%s.vo" % pid])
    res["log"] = lg[-6000:]
    if not ok:
        return res
    # fresh compile of the property file itself to capture the assumptions of *this* run
    tmpd = os.path.join(BUILD, "coqprops"); os.makedirs(tmpd, exist_ok=True)
    rc, out, err = sh(["coqc", "-Q", "theories", "SharkV", "-Q", "gen", "SharkGen", "-o",
                       os.path.join(tmpd, "Properties_%s.vo" % pid), fn], cwd=COQ, timeout=600)
    res["log"] += out[-6000:] + err[-3000:]
    if rc != 0:
        return res
    src = strip_coq_comments(open(fn).read())
    names = re.findall(r"^\s*(?:Theorem|Lemma|Corollary)\s+(\w+)", src, re.M)
    printed = re.findall(r"Print Assumptions\s+(\w+)", src)
    # split output into blocks, one per Print Assumptions, in order
    blocks = re.split(r"(?=Closed under the global context|Axioms:)", out)
    blocks = [b for b in blocks if b.startswith("Closed under") or b.startswith("Axioms:")]
    ax = {}
    for n, b in zip(printed, blocks):
        if b.startswith("Closed"):
            ax[n] = []
        else:
            ax[n] = sorted(set(re.findall(r"^([A-Za-z_][\w.']*)\s*:", b[len("Axioms:"):], re.M)))
    res["theorems"] = [{"name": n, "axioms": ax.get(n, ["<not printed>"])} for n in names]
    res["ok"] = len(names) > 0 and all(n in ax for n in names)
    return res


# --------------------------------------------------------------------------------------------
# OCaml extraction

def extract_model(pid, extract_v, driver_ml, exe_name=None):
    """coqc the extraction file (which writes <name>.ml/.mli into cwd) and compile with the driver."""
    d = os.path.join(BUILD, "ocaml", pid); os.makedirs(d, exist_ok=True)
    exe = os.path.join(d, exe_name or (pid.lower() + "_model"))
    ev = os.path.join(COQ, "extract", extract_v)
    dv = os.path.join(ROOT, "ocaml", driver_ml)
    # dependencies: every .vo in theories + the two files
    h = hashlib.sha256()
    for f in sorted(os.listdir(os.path.join(COQ, "theories"))):
        if f.endswith(".v") and not f.startswith("Properties_") and not f.endswith("Proofs.v"):
            h.update(open(os.path.join(COQ, "theories", f), "rb").read())
    gd = os.path.join(COQ, "gen")
    if os.path.isdir(gd) and "SharkGen" in open(ev).read():      # extraction files that import generated (translator) modules
        for f in sorted(os.listdir(gd)):
            if f.endswith(".v"): h.update(open(os.path.join(gd, f), "rb").read())
    h.update(open(ev, "rb").read()); h.update(open(dv, "rb").read())
    stamp = os.path.join(d, "stamp")
    if os.path.exists(exe) and os.path.exists(stamp) and open(stamp).read() == h.hexdigest():
        return exe
    # build only the modules the extraction file imports (models stay usable when some proof file breaks,
    # and parallel checks do not rebuild each other's files)
    mods = []
    for mm in re.finditer(r"From\s+(SharkV|SharkGen)\s+Require\s+Import\s+([^.]*)\.", strip_coq_comments(open(ev).read())):
        sub = "theories" if mm.group(1) == "SharkV" else "gen"
        mods += ["%s/%s.vo" % (sub, x) for x in mm.group(2).split()]
    ok, lg = coq_build(mods or None)
    if not ok:
        log("coq build reported errors (continuing to extraction):\n" + lg[-2000:])
    for f in os.listdir(d):
        if f.endswith((".ml", ".mli", ".cmi", ".cmx", ".o")):
            os.remove(os.path.join(d, f))
    sh(["coqc", "-Q", os.path.join(COQ, "theories"), "SharkV", "-Q", os.path.join(COQ, "gen"), "SharkGen",
        "-o", os.path.join(d, os.path.basename(ev)[:-2] + ".vo"), ev], cwd=d, timeout=600, check=True)
    mls = sorted(f for f in os.listdir(d) if f.endswith(".ml"))
    mlis = sorted(f for f in os.listdir(d) if f.endswith(".mli"))
    shutil.copy(dv, os.path.join(d, "driver_main.ml"))
    if os.path.exists(exe): os.remove(exe)          # never keep a stale executable when the compile below fails
    sh(["ocamlfind", "ocamlopt", "-O3", "-w", "-a", "-package", "str", "-linkpkg"] + mlis + mls + ["driver_main.ml", "-o", exe],
       cwd=d, timeout=600, check=False)
    if not os.path.exists(exe):
        sh(["ocamlfind", "ocamlopt", "-w", "-a", "-package", "str", "-linkpkg"] + mlis + mls + ["driver_main.ml", "-o", exe],
           cwd=d, timeout=600, check=True)
    open(stamp, "w").write(h.hexdigest())
    return exe


# --------------------------------------------------------------------------------------------
# C++

def _hash_files(paths, extra=""):
    h = hashlib.sha256(extra.encode())
    for p in paths:
        try:
            h.update(open(p, "rb").read())
        except OSError:
            h.update(b"<missing:" + p.encode() + b">")
    return h.hexdigest()


def _parse_dep(dfile):
    try:
        t = open(dfile).read()
    except OSError:
        return None
    t = t.replace("\\\n", " ")
    deps = []
    for l in t.split("\n"):
        if ":" in l:
            deps += l.split(":", 1)[1].split()
    return deps


def cxx_object(src, tag, flags, compiler=None):
    """compile one TU to build/obj/<tag>/<name>.o (cached by content hash of all dependencies)"""
    compiler = compiler or CXX
    od = os.path.join(BUILD, "obj", tag); os.makedirs(od, exist_ok=True)
    base = re.sub(r"[^A-Za-z0-9_]", "_", os.path.relpath(src, "/"))
    obj = os.path.join(od, base + ".o"); dep = obj + ".d"; hf = obj + ".hash"
    deps = _parse_dep(dep)
    key = " ".join([compiler] + flags + repo_includes() + [src])
    if deps is not None and os.path.exists(obj) and os.path.exists(hf):
        if open(hf).read() == _hash_files(deps, key):
            return obj, True, ""
    # compile into private temporaries and rename: two checks running at the same time may build the same TU
    sfx = ".tmp%d" % os.getpid()
    cmd = [compiler] + flags + repo_includes() + ["-I" + os.path.join(ROOT, "harness"), "-MMD", "-MF", dep + sfx, "-MT", obj, "-c", src, "-o", obj + sfx]
    rc, out, err = sh(cmd, timeout=1500)
    if rc != 0:
        for f in (obj + sfx, dep + sfx):
            if os.path.exists(f):
                os.remove(f)
        return None, False, err[-6000:]
    deps = _parse_dep(dep + sfx) or []
    open(hf + sfx, "w").write(_hash_files(deps, key))
    os.replace(obj + sfx, obj); os.replace(dep + sfx, dep); os.replace(hf + sfx, hf)
    return obj, False, ""


def cxx_build(name, sources, flags=None, libs=None, tag="std", compiler=None):
    """Build executable build/bin/<tag>/<name> from harness sources and /repo sources.
    Returns (exe or None, error text).  Compiles TUs in parallel."""
    from concurrent.futures import ThreadPoolExecutor
    if os.path.realpath(REPO) != os.path.realpath("/repo"):
        # a scratch checkout gets its own object/binary directory: runs against different trees never share files
        tag = tag + "_" + hashlib.sha256(os.path.realpath(REPO).encode()).hexdigest()[:8]
    flags = list(CXXFLAGS if flags is None else flags)
    libs = list(LIBS if libs is None else libs)
    if os.environ.get("VERIF_COVERAGE") and (compiler or CXX) == CXX and not any(f.startswith("-fsanitize") for f in flags):
        # diagnostic mode (tools/coverage.py): gcov-instrumented harnesses in their own directories; never used by a registered check
        tag = tag + "_cov"; flags = [f for f in flags if f not in ("-O2", "-O3")] + ["-O1", "--coverage"]; libs = libs + ["--coverage"]
    bd = os.path.join(BUILD, "bin", tag); os.makedirs(bd, exist_ok=True)
    exe = os.path.join(bd, name)
    with ThreadPoolExecutor(max_workers=NCPU) as ex:
        rs = list(ex.map(lambda s: cxx_object(s, tag, flags, compiler), sources))
    objs = []
    for (o, cached, err), s in zip(rs, sources):
        if o is None:
            return None, "compile error in %s:\n%s" % (s, err)
        objs.append(o)
    if os.path.exists(exe) and all(c for _, c, _ in rs):
        return exe, ""
    tmpexe = exe + ".tmp%d" % os.getpid()
    cmd = [compiler or CXX, "-fopenmp"] + [f for f in flags if f.startswith("-fsanitize") or f.startswith("-fno-sanitize")] + objs + ["-o", tmpexe] + libs
    rc, out, err = sh(cmd, timeout=900)
    if rc != 0:
        if os.path.exists(tmpexe):
            os.remove(tmpexe)
        return None, "link error:\n" + err[-6000:]
    os.replace(tmpexe, exe)
    return exe, ""


def repo_src(*rel):
    return [os.path.join(REPO, r) for r in rel]


# --------------------------------------------------------------------------------------------
# known findings

def load_known():
    p = os.path.join(ROOT, "known_findings.json")
    if not os.path.exists(p):
        return {"known": [], "fixed": []}
    return json.load(open(p))


# --------------------------------------------------------------------------------------------
# the check object

class Check:
    def __init__(self, pid, argv=None):
        import argparse
        ap = argparse.ArgumentParser()
        ap.add_argument("--tier", default=os.environ.get("VERIF_TIER", "quick"))
        ap.add_argument("--replay", default=None)
        ap.add_argument("--seed", type=int, default=None)
        a = ap.parse_args(argv)
        self.pid = pid
        self.tier = "thorough" if a.tier == "thorough" else "quick"
        self.replay = a.replay
        seed = a.seed if a.seed is not None else os.environ.get("VERIF_SEED")
        try:
            self.seed = int(seed) if seed is not None else 20260929
        except ValueError:
            self.seed = int(hashlib.sha256(str(seed).encode()).hexdigest()[:8], 16)
        self.rng = random.Random(self.seed * 1000003 + int(pid[1:]))
        self.t0 = time.time()
        self.violations = []      # (replay_path, suffix)
        self.known_hits = []
        self.cov = {"evaluations": 0, "distinct_nontrivial": 0, "samples": [], "rule": ""}
        self.assumptions = []
        self.obligations = []     # (name, discharged bool, note)
        self.trusted = []
        self.notes = {}
        self.known = load_known()
        os.makedirs(os.path.join(ROOT, "evidence"), exist_ok=True)
        self.replay_dir = os.path.join(ROOT, "build", "replay", pid)
        os.makedirs(self.replay_dir, exist_ok=True)

    # -- obligations
    def oblige(self, name, ok, note=""):
        self.obligations.append((name, bool(ok), note))

    def proofs(self, pid=None):
        """build + re-check the property file; registers one obligation per theorem"""
        deps = coq_deps(os.path.join(COQ, "theories", "Properties_%s.v" % (pid or self.pid)))
        bad = coq_hygiene(deps)
        self.notes["coq_files_checked"] = [os.path.relpath(f, COQ) for f in deps]
        self.oblige("coq-hygiene(no Admitted/admit/Axiom/Parameter/Conjecture/guard switches in %d files the property file depends on)" % len(deps), not bad, "; ".join(bad[:5]))
        r = coq_props(pid or self.pid)
        if not r["ok"]:
            self.oblige("Properties_%s.v compiles" % (pid or self.pid), False, r["log"][-1500:])
        axs = set()
        for t in r["theorems"]:
            self.oblige("theorem " + t["name"], True, "axioms: " + (", ".join(t["axioms"]) or "none (closed under the global context)"))
            axs.update(t["axioms"])
        self.notes["axioms_used"] = sorted(axs)
        self.notes["theorems"] = [t["name"] for t in r["theorems"]]
        if self.tier == "thorough" and r["ok"] and os.environ.get("VERIF_NO_COQCHK") is None:
            # independent re-check of the compiled property file and everything it depends on
            rc, out, err = sh(["coqchk", "-silent", "-o", "-Q", "theories", "SharkV", "-Q", "gen", "SharkGen",
                               "SharkV.Properties_%s" % (pid or self.pid)], cwd=COQ, timeout=3000)
            txt = out + err
            m = re.search(r"\* Axioms:(.*?)(?:\n\s*\n|\Z)", txt, re.S)
            self.notes["coqchk_axioms"] = (m.group(1).strip() if m else "")[:2000]
            self.oblige("coqchk (independent checker) accepts Properties_%s.vo and all its dependencies" % (pid or self.pid), rc == 0, txt[-600:] if rc != 0 else self.notes["coqchk_axioms"][:200])
        return r

    # -- reporting
    def write_replay(self, name, obj):
        p = os.path.join(self.replay_dir, name)
        with open(p, "w") as f:
            if isinstance(obj, str):
                f.write(obj)
            else:
                json.dump(obj, f, indent=1)
        return p

    def match_known(self, key):
        for k in self.known.get("known", []):
            if k.get("property") == self.pid and re.search(k["match"], key):
                return k
        return None

    def violation(self, key, replay_obj, what, no_input=False):
        """key: string identifying call site + input shape, matched against known findings"""
        k = None if no_input else self.match_known(key)
        if k is not None:
            if k["id"] not in [x["id"] for x in self.known_hits]:
                self.known_hits.append(k)
                print("KNOWN-FINDING: property=%s %s" % (self.pid, k["what"]), flush=True)
            return
        name = "viol_%d.json" % len(self.violations)
        if isinstance(replay_obj, dict):
            replay_obj = dict(replay_obj); replay_obj.setdefault("what", what); replay_obj.setdefault("key", key)
        p = self.write_replay(name, replay_obj)
        self.violations.append((p, what, no_input))
        print("VIOLATION property=%s replay=%s%s" % (self.pid, p, " no-failing-input-found" if no_input else ""), flush=True)
        log("  -> " + what[:2000])

    def finish(self, level="proof", checker_cmd="coqc (Coq 8.16.1 kernel) via make; correspondence by tools/*.py", explanation=""):
        n_ob = len(self.obligations); n_ok = sum(1 for _, ok, _ in self.obligations if ok)
        # an undischarged obligation without a concrete failing input is still a violation
        for name, ok, note in self.obligations:
            if not ok and not any(True for v in self.violations):
                self.violation("obligation:" + name, {"obligation": name, "note": note},
                               "obligation no longer checks: %s %s" % (name, note), no_input=True)
        cov = dict(self.cov)
        cov["obligations"] = n_ob
        cov["discharged"] = n_ok
        cov["checker_cmd"] = checker_cmd
        cov["trusted_base"] = self.trusted or DEFAULT_TRUSTED
        cov["obligation_list"] = [{"name": n, "ok": ok, "note": note[:300]} for n, ok, note in self.obligations]
        if explanation:
            cov["explanation"] = explanation
        cov.update(self.notes)
        cov["known_findings_hit"] = [k["id"] for k in self.known_hits]
        cov["distinct_nontrivial"] = max(int(cov.get("distinct_nontrivial", 0)), 0)
        ev = {"property_id": self.pid, "tier": self.tier, "seed": self.seed, "level": level,
              "coverage": cov, "assumptions": self.assumptions, "wall_s": round(time.time() - self.t0, 2),
              "violations": len(self.violations)}
        # evidence/ describes runs against /repo itself; a run against a scratch checkout (VERIF_REPO, used to try
        # breaking changes) or a replay must not overwrite it
        evdir = os.path.join(ROOT, "evidence")
        if os.path.realpath(REPO) != os.path.realpath("/repo") or self.replay or os.environ.get("VERIF_SWEEP") or os.environ.get("VERIF_COVERAGE"):
            evdir = os.path.join(BUILD, "evidence_scratch"); os.makedirs(evdir, exist_ok=True)
        with open(os.path.join(evdir, self.pid + ".json"), "w") as f:
            json.dump(ev, f, indent=1, default=str)
        log("[%s] %s tier=%s seed=%d obligations %d/%d evaluations=%d violations=%d known=%d wall=%.1fs" % (
            self.pid, "FAIL" if self.violations else "ok", self.tier, self.seed, n_ok, n_ob, cov["evaluations"],
            len(self.violations), len(self.known_hits), time.time() - self.t0))
        sys.exit(1 if self.violations else 0)


DEFAULT_TRUSTED = [
    "Coq 8.16.1 kernel (coqc, vm_compute; no native_compute)",
    "no Axiom/Parameter/Admitted in /verif/coq (grep is an obligation of every run)",
    "Coq extraction with ExtrOcamlBasic only (Extract Inductive bool/option/unit/list/prod/sumbool...; no Extract Constant of ours), OCaml 4.13.1",
    "hand-written OCaml drivers, C++ harnesses and Python generators of the correspondence check",
    "g++ 12.2, Boost, OpenBLAS, OpenMP runtime",
]


# --------------------------------------------------------------------------------------------
# generic delta-debugging shrinker over a list

def ddmin(items, fails, max_runs=400):
    """smallest sublist (order kept) for which fails(sublist) is True (greedy ddmin)"""
    runs = [0]
    def f(x):
        runs[0] += 1
        return fails(x)
    n = 2
    cur = list(items)
    while len(cur) >= 2 and runs[0] < max_runs:
        chunk = max(1, len(cur) // n)
        reduced = False
        for i in range(0, len(cur), chunk):
            cand = cur[:i] + cur[i + chunk:]
            if cand and f(cand):
                cur = cand; n = max(n - 1, 2); reduced = True
                break
        if not reduced:
            if chunk == 1:
                break
            n = min(n * 2, len(cur))
    return cur


# --------------------------------------------------------------------------------------------
# generic correspondence: model executable vs implementation harness, one output line per input line

def run_lines(exe, lines, tmp, timeout=900, env=None, args=()):
    with open(tmp, "w") as f:
        f.write("\n".join(lines) + "\n")
    rc, out, err = sh([exe] + list(args) + [tmp], timeout=timeout, env=env)
    ol = out.split("\n")
    if ol and ol[-1] == "":
        ol.pop()
    return rc, ol, err


def split_cases(cases, out):
    """outputs are one line per input line; returns list of per-case output lists (short if crashed)"""
    res, p = [], 0
    for c in cases:
        res.append(out[p:p + len(c)]); p += len(c)
    return res


def run_cases(exe, cases, tmp, env=None, args=(), timeout=900):
    """run all cases in one process; if the process dies, resume after the crashing case"""
    outs = [None] * len(cases)
    start = 0
    guard = 0
    while start < len(cases) and guard < 50:
        guard += 1
        flat = [l for c in cases[start:] for l in c]
        rc, ol, err = run_lines(exe, flat, tmp, env=env, args=args, timeout=timeout)
        per = split_cases(cases[start:], ol)
        adv = 0
        for i, (c, o) in enumerate(zip(cases[start:], per)):
            if len(o) == len(c):
                outs[start + i] = (o, 0, ""); adv = i + 1
            else:
                if rc == -9:
                    # the BATCH ran into the time limit while this case was being processed: that is a hang of this case only if the
                    # case alone does not finish either (a loaded machine can exhaust the limit of a long batch without any hang)
                    rc1, ol1, err1 = run_lines(exe, list(c), tmp + ".single", env=env, args=args, timeout=min(timeout, 300))
                    if rc1 == 0 and len(ol1) == len(c):
                        outs[start + i] = (ol1, 0, ""); adv = i + 1
                        break
                outs[start + i] = (o, rc if rc != 0 else -1, err[-500:]); adv = i + 1
                break
        start += adv
        if rc == 0 and start >= len(cases):
            break
    for i in range(len(cases)):
        if outs[i] is None:
            outs[i] = ([], -1, "not run")
    return outs


def correspond(ck, cases, model_exe, impl_exe, monitor, tmpd, compare=None, header_lines=1,
               what="model vs implementation", search=None, max_report=3, impl_env=None,
               impl_args=(), model_args=(), shrink=True, keyfn=None):
    """Decision procedure of DESIGN.md 1.5 for line-oriented cases.
    monitor(case_lines, impl_out_lines) -> list of messages (the Spec evaluated on the implementation).
    Returns dict(disagreements, monitor_failures)."""
    compare = compare or (lambda a, b: a == b)
    keyfn = keyfn or (lambda msg, case: msg)
    os.makedirs(tmpd, exist_ok=True)
    mo = run_cases(model_exe, cases, os.path.join(tmpd, "model_in.txt"), args=model_args)
    io = run_cases(impl_exe, cases, os.path.join(tmpd, "impl_in.txt"), env=impl_env, args=impl_args)
    dis, mon = [], []
    for ci, c in enumerate(cases):
        (a, rca, ea), (b, rcb, eb) = mo[ci], io[ci]
        if rca != 0:
            raise RuntimeError("model driver failed on case %d: %s" % (ci, ea))
        if rcb != 0:
            mon.append((ci, ["implementation crashed/stopped after %d of %d lines (rc=%s) %s" % (len(b), len(c), rcb, eb.strip()[-200:])]))
            continue
        msgs = monitor(c, b)
        if msgs:
            mon.append((ci, msgs))
        elif not compare(a, b):
            dis.append(ci)

    def one(lines):
        ra, xa, _ = run_lines(model_exe, lines, os.path.join(tmpd, "s_model.txt"), args=model_args)
        rb, xb, eb = run_lines(impl_exe, lines, os.path.join(tmpd, "s_impl.txt"), env=impl_env, args=impl_args)
        if rb != 0 or len(xb) != len(lines):
            return xa, xb, ["implementation crashed/stopped after %d of %d lines (rc=%s) %s" % (len(xb), len(lines), rb, eb.strip()[-200:])]
        return xa, xb, monitor(lines, xb)

    def report(ci, is_mon):
        c = cases[ci]
        small = c
        if shrink and len(c) > header_lines + 1:
            hd, body = c[:header_lines], c[header_lines:]
            if is_mon:
                pred = lambda ops: bool(one(hd + ops)[2])
            else:
                def pred(ops):
                    xa, xb, m = one(hd + ops)
                    return bool(m) or not compare(xa, xb)
            small = hd + ddmin(body, pred)
        xa, xb, m = one(small)
        cf = ck.write_replay("case_%d.txt" % ci, "\n".join(small) + "\n")
        rp = {"case_file": cf, "case": small, "model_output": xa, "implementation_output": xb, "monitor": m,
              "replay_cmd": "python3 tools/%s.py --replay %s" % (ck.pid.lower(), cf)}
        return rp, m

    reported = 0
    for ci, msgs in mon[:max_report]:
        rp, m = report(ci, True)
        msg = (m or msgs)[0]
        ck.violation(keyfn(msg, cases[ci]), rp, "spec monitor fails on the implementation: " + msg)
        reported += 1
    if not mon and dis:
        # broken correspondence without a failing input so far: search
        found = False
        if search is not None:
            extra = search([cases[ci] for ci in dis[:5]])
            eo = run_cases(impl_exe, extra, os.path.join(tmpd, "search_in.txt"), env=impl_env, args=impl_args)
            for c, (b, rcb, eb) in zip(extra, eo):
                msgs = ["implementation crashed (rc=%s)" % rcb] if rcb != 0 else monitor(c, b)
                if msgs:
                    cases.append(c)
                    rp, m = report(len(cases) - 1, True)
                    ck.violation(keyfn((m or msgs)[0], c), rp, "spec monitor fails on the implementation (found by search after the correspondence broke): " + (m or msgs)[0])
                    found = True
                    break
            ck.notes["search_cases"] = len(extra)
        if not found:
            rp, m = report(dis[0], False)
            rp["broken"] = "correspondence " + what
            ck.violation("correspondence", rp, "correspondence %s no longer checks (outputs differ on %d cases); the spec monitor passes on every explored input" % (what, len(dis)), no_input=True)
    ck.oblige("correspondence %s on %d cases" % (what, len(cases)), not mon and not dis,
              "" if not (mon or dis) else "%d monitor failures, %d disagreements" % (len(mon), len(dis)))
    return {"disagreements": len(dis), "monitor_failures": len(mon), "model_out": mo, "impl_out": io}
