#!/usr/bin/env python3
"""C05 - kernels: proofs (Properties_C05.v) + correspondence (extracted C05Model, run with Coq's exact rationals
or with floats, vs shark kernels compiled from /repo on the same generated kernel expressions and inputs) + an
independent spec monitor on the C++ output (symmetry, batch = single, normalised diagonal, feature distance,
Gram assembly vs single evaluations, eigenvalues, derivatives vs finite differences) for every anchored class.
Extension: kernel expressions as a Coq data type (C05Expr den/bden: fields SE/BE), calculateMixedKernelMatrix and
calculateKernelMatrixParameterDerivative (C05Blocks: MX/KD), GaussianTaskKernel/MultiTaskKernel (C05Task: T cases, fields TK/MT,
monitor task-kernel-reinit); positive semi-definiteness of Gaussian/ARD/all expressions/task kernels proved over Coq's reals.
Magnitude stream (W cases, every quick run): the generated kernel expressions on inputs multiplied by 2^e so that k(x,x) reaches 2^+-500 .. 2^+-940
(1e+-150 .. 1e+-280) while every correct intermediate stays a normal double; monitors with RELATIVE tolerances only (symmetry, batch = single,
normalised diagonal, feature distance, Gram assembly / batching) + the exact metamorphic relation value(2^e x) = 2^(e*deg) value(x) for homogeneous
expressions (check magnitude-scaling); NormalizedKernel's three operation orders (C05Norm.norm_single_mat / norm_rowdiv / norm_outer, proved equal to
k/sqrt(kxx kzz) in every ordered field) are run on the base-kernel numbers printed by the harness and must reproduce S / B / BS BIT FOR BIT (N lines)."""
import os, sys, re, math
from fractions import Fraction
sys.path.insert(0, os.path.dirname(os.path.abspath(__file__)))
from vlib import *

PID = "C05"
DY = ["0", "1", "-1", "2", "-2", "3", "-3", "1/2", "-1/2", "3/2", "4", "-4"]

# ------------------------------------------------------------------ generator
def gnum(rng, nz=False):
    while True:
        x = rng.choice(DY[:7] if rng.random() < 0.8 else DY)
        if not nz or x != "0": return x

POLY_DEG = [1, 1, 2, 2, 3]; MONO_DEG = [1, 1, 2, 3]     # the magnitude stream uses higher degrees (MAG_*_DEG)
def gen_tree(rng, dim, depth, sparse=False, in_norm=False, no_norm=False):
    """NormalizedKernel needs k(x,x) > 0 for its base: no model-based kernel below it (the model may map a point to 0)
    and none above it (sparse=True below MODEL also excludes NORM)"""
    leaves = ["LIN", "POLY", "MONO", "RBF"] + ([] if sparse else ["ARD"])
    comps = ["SCALED", "WSUM", "PROD"] + ([] if sparse else ["NORM", "SUBR", "MODEL"])
    if in_norm and "MODEL" in comps: comps.remove("MODEL")
    if no_norm and "NORM" in comps: comps.remove("NORM")
    c = rng.choice(leaves) if depth <= 0 or rng.random() < 0.35 else rng.choice(comps)
    if c == "LIN": return ["LIN"]
    if c == "POLY":
        un = rng.random() < 0.25
        off = rng.choice(["1", "2", "1/2", "3"]) if un else rng.choice(["0", "1", "2", "1/2", "1"])
        return ["POLY", str(rng.choice(POLY_DEG)), off, "1" if rng.random() < 0.3 else "0", "1" if un else "0"]
    if c == "MONO": return ["MONO", str(rng.choice(MONO_DEG))]
    if c == "RBF": return ["RBF", rng.choice(["1/4", "1/2", "1", "2", "1/8"]), "1" if rng.random() < 0.3 else "0"]
    if c == "ARD": return ["ARD"] + [rng.choice(["1/4", "1/2", "1", "2"]) for _ in range(dim)]
    if c == "NORM": return ["NORM"] + gen_tree(rng, dim, depth - 1, sparse, True, no_norm)
    if c == "SCALED": return ["SCALED", rng.choice(["2", "1/2", "3", "1/4"])] + gen_tree(rng, dim, depth - 1, sparse, in_norm, no_norm)
    if c == "WSUM":
        n = rng.choice([1, 2, 2, 3, 4]); out = ["WSUM", str(n)] + [rng.choice(["0", "0", "0", "1", "-1/2", "1/4"]) for _ in range(n - 1)]
        if rng.random() < 0.5: out = ["WSUM", str(n)] + ["0"] * (n - 1)
        for _ in range(n): out += gen_tree(rng, dim, depth - 1, sparse, in_norm, no_norm)
        return out
    if c == "PROD":
        n = rng.choice([1, 2, 2, 3]); out = ["PROD", str(n)]
        for _ in range(n): out += gen_tree(rng, dim, depth - 1, sparse, in_norm, no_norm)
        return out
    if c == "SUBR":
        n = rng.choice([1, 2, 2, 3]); out = ["SUBR", str(n)]
        for _ in range(n):
            a = rng.randrange(dim); b = rng.randint(a + 1, dim)
            out += [str(a), str(b)] + gen_tree(rng, b - a, depth - 1, sparse, in_norm, no_norm)
        return out
    if c == "MODEL":
        m = rng.randint(1, 3)
        return ["MODEL", str(m)] + [rng.choice(["0", "1", "-1", "2", "1/2"]) for _ in range(m * dim)] + [rng.choice(["0", "1", "-1"]) for _ in range(m)] + gen_tree(rng, m, depth - 1, sparse, in_norm, True)

def gen_points(rng, n, dim, nz, pool):
    pts = []
    for _ in range(n):
        r = rng.random()
        if pool and r < 0.2: pts.append(list(rng.choice(pool)))                  # duplicates across / within the batches
        elif r < 0.35 and not nz:                                               # axis vectors: orthogonal pairs, zero inner products
            v = ["0"] * dim; v[rng.randrange(dim)] = gnum(rng, True); pts.append(v)
        elif r < 0.4 and not nz: pts.append(["0"] * dim)
        else: pts.append([gnum(rng, nz) for _ in range(dim)])
        pool.append(pts[-1])
    return pts

def composition(rng, n):
    parts = []
    while n > 0:
        k = rng.randint(1, n); parts.append(k); n -= k
    return parts

def gen_vector(rng, sparse=False, big=False):
    dim = rng.choice([1, 2, 2, 3, 3, 4] + ([6] if big else []))
    tree = gen_tree(rng, dim, rng.choice([0, 1, 1, 2, 2, 3]), sparse)
    nz = "NORM" in tree
    n1 = rng.choice([1, 2, 3, 3, 4, 5] + ([7] if big else [])); n2 = rng.choice([1, 2, 2, 3, 4] + ([6] if big else []))
    pool = []; x1 = gen_points(rng, n1, dim, nz, pool); x2 = gen_points(rng, n2, dim, nz, pool)
    c = [rng.choice(["1", "1", "2", "-1", "0", "1/2", "3"]) for _ in range(n1 * n2)]
    return mk_vector("sparse" if sparse else "dense", dim, tree, x1, x2, c, composition(rng, n1), rng.choice(["0", "0", "1/2", "2"]))

def mk_vector(kind, dim, tree, x1, x2, c, parts, reg, e=None):
    """e: exponent of a magnitude case (W line: inputs multiplied by 2^e)"""
    return "%s %d%s | %s | %d %s | %d %s | %s | %s | %s" % (("V " if e is None else "W ") + kind, dim, "" if e is None else " %d" % e, " ".join(tree), len(x1), " ".join(v for p in x1 for v in p),
                                                          len(x2), " ".join(v for p in x2 for v in p), " ".join(c), " ".join(map(str, parts)), reg)

NORM_EXACT_BASES = [["LIN"], ["POLY", "2", "0", "0", "0"], ["POLY", "1", "0", "0", "0"], ["POLY", "3", "0", "0", "0"], ["MONO", "1"], ["MONO", "2"], ["MONO", "3"], ["SCALED", "1/4", "LIN"], ["SCALED", "4", "LIN"]]
POW2 = ["1", "-1", "2", "-2", "4", "1/2", "-1/2", "-4"]
def gen_norm_exact(rng):
    """NormalizedKernel where floating point is exact: base kernel with k(x,x) = 4^a on axis vectors with coordinates +-2^a, so that
    every square root and every division (by powers of two) is exact; value, input and parameter derivatives are compared exactly"""
    dim = rng.choice([1, 2, 2, 3]); tree = ["NORM"] + rng.choice(NORM_EXACT_BASES)
    def pts(n):
        out = []
        for _ in range(n):
            v = ["0"] * dim; v[rng.randrange(dim)] = rng.choice(POW2); out.append(v)
        return out
    n1 = rng.randint(1, 4); n2 = rng.randint(1, 3); x1 = pts(n1); x2 = pts(n2)
    if rng.random() < 0.3: x2[0] = list(x1[0])
    c = [rng.choice(["1", "1", "2", "-1", "0", "1/2", "3"]) for _ in range(n1 * n2)]
    return mk_vector("dense", dim, tree, x1, x2, c, composition(rng, n1), rng.choice(["0", "1/2"]))

def norm_exact(line):
    g = [x.split() for x in line.split("|")]; dim = int(g[0][2])
    if g[1][0] != "NORM" or g[1][1:] not in NORM_EXACT_BASES: return False
    for grp in (g[2], g[3]):
        n = int(grp[0])
        for i in range(n):
            nzs = [v for v in grp[1 + i * dim:1 + (i + 1) * dim] if v != "0"]
            if len(nzs) != 1 or nzs[0] not in POW2: return False
    return True

def gen_discrete(rng):
    n = rng.randint(1, 5); r = rng.randint(1, 3)
    a = [[rng.randint(-2, 2) for _ in range(r)] for _ in range(n)]
    tab = [sum(a[i][k] * a[j][k] for k in range(r)) for i in range(n) for j in range(n)]      # A A^T: symmetric psd table
    n1 = rng.randint(1, 5); n2 = rng.randint(1, 4)
    x1 = [rng.randrange(n) for _ in range(n1)]; x2 = [rng.randrange(n) for _ in range(n2)]
    return "D %d | %s | %d %s | %d %s | %s | %s" % (n, " ".join(map(str, tab)), n1, " ".join(map(str, x1)), n2, " ".join(map(str, x2)),
                                                   " ".join(map(str, composition(rng, n1))), rng.choice(["0", "1/2"]))

def gen_pointset(rng):
    dim = rng.randint(1, 3); tree = gen_tree(rng, dim, rng.choice([0, 0, 1]), True)   # base kernels without NORM/SUBR/MODEL/ARD
    def sets(n):
        out = [str(n)]
        for _ in range(n):
            s = rng.randint(1, 3); out.append(str(s)); out += [gnum(rng) for _ in range(s * dim)]
        return out
    n1 = rng.randint(1, 3); n2 = rng.randint(1, 3)
    return "P %d | %s | %s | %s | %s" % (dim, " ".join(tree), " ".join(sets(n1)), " ".join(sets(n2)), " ".join(rng.choice(["1", "2", "-1", "1/2"]) for _ in range(n1 * n2)))

def gen_mkl(rng):
    d1 = rng.randint(1, 3); d3 = rng.randint(1, 3); nt = rng.randint(1, 4); r = rng.randint(1, 2)
    a = [[rng.randint(-2, 2) for _ in range(r)] for _ in range(nt)]
    tab = [sum(a[i][k] * a[j][k] for k in range(r)) for i in range(nt) for j in range(nt)]
    def pts(n): return "%d %s" % (n, " ".join(" ".join([gnum(rng) for _ in range(d1)] + [str(rng.randrange(nt))] + [gnum(rng) for _ in range(d3)]) for _ in range(n)))
    n1 = rng.randint(1, 4); n2 = rng.randint(1, 4)
    lw = rng.choice([["0", "0"], ["0", "0"], ["1", "-1/2"], ["1/4", "0"]])
    return "M %d %d %d | %s | %s %s %s | %s | %s | %s" % (d1, d3, nt, " ".join(map(str, tab)), rng.choice(["1/4", "1/2", "1"]), lw[0], lw[1], pts(n1), pts(n2),
                                                         " ".join(map(str, composition(rng, n1))))

def gen_task(rng):
    """GaussianTaskKernel / MultiTaskKernel: multi-task data (input, task index; some tasks may have no example), input kernel
    without NormalizedKernel / ModelKernel, gamma, number of setParameterVector(parameterVector()) round trips"""
    dim = rng.randint(1, 3); nt = rng.randint(1, 4); tree = gen_tree(rng, dim, rng.choice([0, 0, 1, 2]), False, True, True)
    n = rng.randint(1, 6); pts = []
    for _ in range(n): pts += [gnum(rng) for _ in range(dim)] + [str(rng.randrange(nt))]
    return "T %d %d | %s | %s | %d %s | %d" % (dim, nt, " ".join(tree), rng.choice(["1/4", "1/2", "1", "2", "1/8"]), n, " ".join(pts), rng.randint(1, 3))


# ------------------------------------------------------------------ magnitude stream (W cases)
MAG_POLY_DEG = [1, 2, 3, 4, 6, 8]; MAG_MONO_DEG = [1, 2, 3, 5]
MAG_COORD = ["1", "-1", "2", "-2", "3", "-3"]         # integer coordinates: inner products (and their powers up to 36^8 < 2^53) are exact
MAG_NORM_BASES = [["POLY", "8", "1", "0", "0"], ["LIN"], ["POLY", "8", "0", "0", "0"], ["POLY", "6", "2", "0", "0"], ["MONO", "5"], ["MONO", "2"], ["SCALED", "3", "LIN"],
                  ["WSUM", "2", "0", "LIN", "LIN"], ["PROD", "2", "LIN", "MONO", "2"], ["WSUM", "2", "-1/2", "POLY", "4", "0", "0", "0", "MONO", "4"], ["POLY", "3", "1/2", "0", "1"]]

def frac_log2(x): return math.log2(float(x)) if x > 0 else 0.0

def mag_analyse(tree, dim):
    """structural facts about a kernel expression on inputs with integer coordinates |x_i| <= 3:
    deg   homogeneity degree: k(s x, s z) = s^deg k(x,z) for every s (None: not homogeneous; then no scaling relation is demanded)
    grow  largest power of the input scale s that any intermediate value of the expression carries (values, normaliser bases, squared distances)
    vbits log2 of a bound on the intermediate values at scale 1
    exact False where an intermediate std::pow result need not be an exact double (then the relation is demanded at 1e-13 instead of bit for bit)"""
    def walk(p, dim, cb, db):
        t = tree[p]
        dotb = max(dim * cb * cb, Fraction(1))
        if t == "LIN": return p + 1, dict(deg=2, grow=2, vbits=frac_log2(dotb), exact=True)
        if t == "POLY":
            d = int(tree[p + 1]); c = Fraction(tree[p + 2])
            mant = frac_log2(dotb + c) + 2 * db + (1 if c.denominator > 1 else 0)
            return p + 5, dict(deg=2 * d if c == 0 else None, grow=2 * d, vbits=d * frac_log2(dotb + c + 1), exact=d * mant <= 52)
        if t == "MONO":
            d = int(tree[p + 1])
            return p + 2, dict(deg=2 * d, grow=2 * d, vbits=d * frac_log2(dotb), exact=d * (frac_log2(dotb) + 2 * db) <= 52)
        if t == "RBF": return p + 3, dict(deg=None, grow=2, vbits=frac_log2(4 * dotb) + 3, exact=True)
        if t == "ARD": return p + 1 + dim, dict(deg=None, grow=2, vbits=frac_log2(4 * dotb) + 3, exact=True)
        if t == "NORM":
            q, b = walk(p + 1, dim, cb, db)
            return q, dict(deg=0 if b["deg"] is not None else None, grow=b["grow"], vbits=b["vbits"] + 1, exact=b["exact"])
        if t == "SCALED":
            q, b = walk(p + 2, dim, cb, db)
            return q, dict(deg=b["deg"], grow=b["grow"], vbits=b["vbits"] + abs(frac_log2(Fraction(tree[p + 1]))), exact=b["exact"])
        if t in ("WSUM", "PROD"):
            n = int(tree[p + 1]); q = p + 2 + (n - 1 if t == "WSUM" else 0); subs = []
            for _ in range(n):
                q, b = walk(q, dim, cb, db); subs.append(b)
            degs = [b["deg"] for b in subs]; ex = all(b["exact"] for b in subs)
            if t == "PROD":
                return q, dict(deg=sum(degs) if None not in degs else None, grow=sum(b["grow"] for b in subs), vbits=sum(b["vbits"] for b in subs), exact=ex)
            return q, dict(deg=degs[0] if None not in degs and len(set(degs)) == 1 else None, grow=max(b["grow"] for b in subs), vbits=max(b["vbits"] for b in subs) + 3, exact=ex)
        if t == "SUBR":
            n = int(tree[p + 1]); q = p + 2; subs = []
            for _ in range(n):
                a, b_ = int(tree[q]), int(tree[q + 1]); q, b = walk(q + 2, b_ - a, cb, db); subs.append(b)
            degs = [b["deg"] for b in subs]
            return q, dict(deg=degs[0] if None not in degs and len(set(degs)) == 1 else None, grow=max(b["grow"] for b in subs), vbits=max(b["vbits"] for b in subs) + 3, exact=all(b["exact"] for b in subs))
        if t == "MODEL":
            m = int(tree[p + 1]); W = [Fraction(x) for x in tree[p + 2:p + 2 + m * dim]]; bb = [Fraction(x) for x in tree[p + 2 + m * dim:p + 2 + m * dim + m]]
            rows = [sum(abs(w) for w in W[i * dim:(i + 1) * dim]) for i in range(m)]
            cb2 = max(rows + [Fraction(0)]) * cb + max([abs(x) for x in bb] + [Fraction(0)])
            db2 = db + (1 if any(x.denominator > 1 for x in W + bb) else 0)
            q, b = walk(p + 2 + m * dim + m, m, max(cb2, Fraction(1)), db2)
            return q, dict(deg=b["deg"] if all(x == 0 for x in bb) else None, grow=b["grow"], vbits=b["vbits"], exact=b["exact"])
        raise ValueError("kernel " + t)
    q, info = walk(0, dim, Fraction(3), 0)
    assert q == len(tree), (q, tree)
    return info

def gen_magnitude(rng, sparse=False):
    """one kernel expression on one set of points at three input scales: 2^0, 2^e_up, 2^-e_down with e * grow in 500 .. 940 (k(x,x) ~ 1e+-150 .. 1e+-280);
    all lines share everything but the exponent.  Half of the dense cases have a NormalizedKernel at the root."""
    global POLY_DEG, MONO_DEG
    dim = rng.choice([1, 2, 3, 3, 4])
    old = (POLY_DEG, MONO_DEG); POLY_DEG, MONO_DEG = MAG_POLY_DEG, MAG_MONO_DEG
    try:
        r = rng.random()
        if not sparse and r < 0.25: tree = ["NORM"] + list(rng.choice(MAG_NORM_BASES))
        elif not sparse and r < 0.5: tree = ["NORM"] + gen_tree(rng, dim, rng.choice([0, 1, 1, 2]), False, True, False)
        else: tree = gen_tree(rng, dim, rng.choice([0, 1, 1, 2, 2, 3]), sparse)
    finally: POLY_DEG, MONO_DEG = old
    a = mag_analyse(tree, dim)
    n1 = rng.choice([1, 2, 3, 3, 4]); n2 = rng.choice([1, 2, 2, 3])
    def pts(n, pool):
        out = []
        for _ in range(n):
            if pool and rng.random() < 0.2: out.append(list(rng.choice(pool)))
            elif "NORM" in tree or rng.random() < 0.7: out.append([rng.choice(MAG_COORD) for _ in range(dim)])
            else:
                v = ["0"] * dim; v[rng.randrange(dim)] = rng.choice(MAG_COORD); out.append(v)
            pool.append(out[-1])
        return out
    pool = []; x1 = pts(n1, pool); x2 = pts(n2, pool)
    c = [rng.choice(["1", "1", "2", "-1", "0", "1/2", "3"]) for _ in range(n1 * n2)]
    parts = composition(rng, n1); reg = rng.choice(["0", "0", "0", "1/2"])
    cap = 1000 - 2 * a["vbits"] - 20                       # every intermediate stays inside [2^-1000, 2^1000]
    exps = [0]
    for sign in (1, -1):
        E = min(rng.randint(500, 940), cap)
        if E >= 250: exps.append(sign * int(E // a["grow"]))
    return [mk_vector("sparse" if sparse else "dense", dim, tree, x1, x2, c, parts, reg, e) for e in exps]

def mag_info(line):
    g = [x.split() for x in line.split("|")]
    return dict(dim=int(g[0][2]), e=int(g[0][3]), tree=g[1], reg=Fraction(g[6][0]), **mag_analyse(g[1], int(g[0][2])))

def fnum(x): return float(x)
def same_double(x, y):
    x = float(x); y = float(y)
    if math.isnan(x) or math.isnan(y): return math.isnan(x) and math.isnan(y)
    return x == y
def rclose(a, b, rel, extra=0.0):
    """relative comparison, no absolute floor; equal non-finite values (inf = inf) are not a difference, NaN always is"""
    a = float(a); b = float(b)
    if math.isnan(a) or math.isnan(b): return False
    if math.isinf(a) or math.isinf(b): return a == b
    return abs(a - b) <= rel * max(abs(a), abs(b)) + extra

def monitor_magnitude(line, out):
    """the clauses of the property on ONE magnitude case, with tolerances relative to the magnitudes involved"""
    info = case_info(line); d = parse_out(out); bad = []; n1, n2 = info["n1"], info["n2"]
    if "EXC" in d or "STDEXC" in d or not d: return [("exception", "EXC", "the library threw / produced no output: " + out[:120])]
    def get(k, n=None):
        v = d.get(k)
        return None if v is None or (n is not None and len(v) != n) else v
    def cmp(check, fa, a, fb, b, rel=1e-11, extra=None):
        if a is None or b is None: return
        for i, (x, y) in enumerate(zip(a, b)):
            if not rclose(x, y, rel, extra[i] if extra else 0.0):
                bad.append((check, fa, "%s[%d] = %r but %s = %r (inputs scaled by 2^%d)" % (fa, i, float(x), fb, float(y), info["e"]))); return
    S = get("S", n1 * n2); T = get("T", n1 * n2); SS = get("SS", n1 * n1); F = get("F")
    if S is None: return [("exception", "S", "no single evaluations printed")]
    for f in ("S", "SS", "D1", "D2"):
        v = get(f)
        if v and any(math.isnan(float(x)) or math.isinf(float(x)) for x in v): return [("non-finite", f, "kernel value %s is not finite although every correct intermediate is representable (inputs scaled by 2^%d)" % (f, info["e"]))]
    # a kernel value is a sum that may cancel (orthogonal points, non-homogeneous expressions: s^2*0 + s*c); its natural scale is
    # sqrt(k(x,x)) * sqrt(k(z,z)) >= |k(x,z)|: differences are judged relative to the two values OR 1e-12 of that scale, never absolutely
    D1 = get("D1", n1); D2 = get("D2", n2)
    def rt(v): return math.sqrt(abs(float(v)))
    e12 = [1e-12 * rt(D1[i]) * rt(D2[j]) for i in range(n1) for j in range(n2)] if D1 and D2 else None
    e11 = [1e-12 * rt(D1[i]) * rt(D1[j]) for i in range(n1) for j in range(n1)] if D1 else None
    if T: cmp("symmetry", "k(x,z)", S, "k(z,x)", [T[j * n1 + i] for i in range(n1) for j in range(n2)], extra=e12)
    if SS: cmp("symmetry", "k(x_i,x_j)", SS, "k(x_j,x_i)", [SS[j * n1 + i] for i in range(n1) for j in range(n1)], extra=e11)
    for f in ("B", "BS", "SD", "MX"): cmp("batch!=single", f, get(f, n1 * n2), "single", S, extra=e12)
    for f in ("B11", "KM", "KR"): cmp("batch!=single", f, get(f, n1 * n1), "single", SS, extra=e11)
    if F and F[0] and D1 and D2: cmp("normalized-diagonal", "k(x,x)", D1 + D2, "1", [1.0] * (n1 + n2))
    if D1 and D2:
        want = [D1[i] - 2 * S[i * n2 + j] + D2[j] for i in range(n1) for j in range(n2)]
        ext = [1e-10 * max(abs(float(D1[i])), abs(float(D2[j])), abs(float(S[i * n2 + j]))) for i in range(n1) for j in range(n2)]   # cancellation: relative to the terms
        cmp("feature-distance", "FD", get("FD", n1 * n2), "k(x,x)-2k(x,z)+k(z,z)", want, 1e-10, ext)
        cmp("feature-distance", "FB", get("FB", n1 * n2), "k(x,x)-2k(x,z)+k(z,z)", want, 1e-10, ext)
    if SS and "GR" in d:
        reg = d["GR"][0]
        want = [SS[i * n1 + j] + (reg if i == j else 0) for i in range(n1) for j in range(n1)]
        for f in ("G", "G1"): cmp("gram-assembly", f, get(f, n1 * n1), "single evaluations + regulariser", want, extra=e11)
        cmp("gram-assembly", "KF", get("KF", n1 * n1), "single evaluations", SS, extra=e11)
        dmax = max(abs(float(SS[i * n1 + i])) for i in range(n1))
        if dmax > 0 and all(not math.isinf(float(x)) for x in SS):
            sc = 2.0 ** -math.frexp(dmax)[1]                    # eigenvalues of the Gram matrix divided by (a power of two near) its largest diagonal entry
            e = jacobi_min_eig([float(x) * sc for x in SS], n1)
            if e < -1e-9 * n1: bad.append(("negative-eigenvalue", "SS", "Gram matrix SS / %g has eigenvalue %.6g (inputs scaled by 2^%d)" % (1 / sc, e, info["e"])))
    return bad

SCALED_FIELDS = ("S", "T", "SS", "D1", "D2", "B", "B11", "BS", "SD", "MX", "KM", "KR", "KF", "FD", "FB")
def monitor_scaling(line0, out0, line, out):
    """exact metamorphic relation for homogeneous expressions: multiplication of all inputs by 2^e is exact and commutes with every rounding
    (no overflow / underflow), so every kernel value of the scaled case is the unscaled one times 2^(e*deg), bit for bit; the relation is
    skipped where the true value is not a normal double.  derivative-scaling: the same for weightedInputDerivative with 2^(e*(deg-1))."""
    a = mag_info(line); d0 = parse_out(out0); d = parse_out(out); bad = []
    if a["deg"] is None or not d0 or not d or "EXC" in d0 or "STDEXC" in d0: return bad
    sh = a["e"] * a["deg"]
    def rel(check, f, shift):
        u, v = d0.get(f), d.get(f)
        if u is None or v is None or len(u) != len(v): return
        for i, (x, y) in enumerate(zip(u, v)):
            x = float(x); y = float(y)
            if math.isnan(x) or math.isinf(x): return
            if x == 0.0: ok = y == 0.0; want = 0.0
            else:
                m, ex = math.frexp(x)
                if not (-1021 <= ex + shift <= 1023): continue            # the true value is not a normal double: no demand
                want = math.ldexp(x, shift); ok = y == want if a["exact"] else rclose(y, want, 1e-13)
            if not ok:
                bad.append((check, f, "%s[%d] = %r on inputs * 2^%d but %r * 2^%d = %r (expression homogeneous of degree %d, %r on the unscaled inputs)" % (f, i, y, a["e"], x, shift, want, a["deg"], x))); return
    for f in SCALED_FIELDS: rel("magnitude-scaling", f, sh)
    if a["reg"] == 0:
        for f in ("G", "G1"): rel("magnitude-scaling", f, sh)
    rel("derivative-scaling", "WI", sh - a["e"])
    return bad

def norm_lines(line, out):
    """N line for the model: the base-kernel numbers the C++ NormalizedKernel combined (as printed, hex doubles)"""
    d = {}
    for t in out.split():
        if "=" in t: k, v = t.split("=", 1); d[k] = v.split(",") if v else []
    info = case_info(line)
    if not all(k in d for k in ("KB", "KX", "KZ", "BB", "BBS", "KX1", "KZ1")): return None
    return "N %d %d | %s" % (info["n1"], info["n2"], " | ".join(" ".join(d[k]) for k in ("KB", "KX", "KZ", "BB", "BBS", "KX1", "KZ1")))

# ------------------------------------------------------------------ parsing of output lines
def pnum(s):
    if s.startswith("0x") or s.startswith("-0x") or "nan" in s or "inf" in s: return float.fromhex(s) if "x" in s else float(s)
    return Fraction(s)

def parse_out(line):
    d = {}; toks = line.split()
    for t in toks:
        if "=" in t:
            k, v = t.split("=", 1)
            try: d[k] = [pnum(x) for x in v.split(",") if x != ""]
            except Exception: d[k] = None
        else: d["_mode"] = t
    return d

def case_info(line):
    g = [x.split() for x in line.split("|")]
    kind = g[0][0]
    if kind == "V":
        dim = int(g[0][2]); n1 = int(g[2][0]); n2 = int(g[3][0]); return dict(kind="V", sub=g[0][1], dim=dim, tree=g[1], n1=n1, n2=n2, parts=list(map(int, g[5])), reg=Fraction(g[6][0]), c=[Fraction(x) for x in g[4]])
    if kind == "W":
        dim = int(g[0][2]); n1 = int(g[2][0]); n2 = int(g[3][0]); return dict(kind="W", sub=g[0][1], dim=dim, e=int(g[0][3]), tree=g[1], n1=n1, n2=n2, parts=list(map(int, g[5])), reg=Fraction(g[6][0]), c=[Fraction(x) for x in g[4]])
    if kind == "D": return dict(kind="D", tree=["DISC"], n1=int(g[2][0]), n2=int(g[3][0]), parts=list(map(int, g[4])), reg=Fraction(g[5][0]))
    if kind == "P": return dict(kind="P", tree=["PSET"] + g[1], n1=int(g[2][0]), n2=int(g[3][0]))
    if kind == "M": return dict(kind="M", tree=["MKL", "WSUM", "RBF", "DISC", "LIN"], n1=int(g[3][0]), n2=int(g[4][0]), parts=list(map(int, g[5])), reg=Fraction(0))
    if kind == "T": return dict(kind="T", tree=["MTASK", "GTASK"] + g[1], n1=int(g[3][0]), n2=int(g[3][0]), nt=int(g[0][2]))
    return dict(kind="?", tree=[], n1=0, n2=0)

CLASSES = {"LIN": "LinearKernel", "POLY": "PolynomialKernel", "MONO": "MonomialKernel", "RBF": "GaussianRbfKernel", "ARD": "ARDKernelUnconstrained", "NORM": "NormalizedKernel",
           "SCALED": "ScaledKernel", "WSUM": "WeightedSumKernel", "PROD": "ProductKernel", "SUBR": "SubrangeKernel", "MODEL": "ModelKernel", "DISC": "DiscreteKernel",
           "PSET": "PointSetKernel", "MKL": "MklKernel", "MTASK": "MultiTaskKernel", "GTASK": "GaussianTaskKernel"}
def classes_of(tree): return [t for t in tree if t in CLASSES]

# ------------------------------------------------------------------ spec monitor (on the implementation's output only)
def close(a, b, rel=1e-11, ab=1e-12):
    a = float(a); b = float(b)
    if math.isnan(a) or math.isnan(b) or math.isinf(a) or math.isinf(b): return False
    return abs(a - b) <= ab + rel * max(abs(a), abs(b))

def jacobi_min_eig(m, n):
    a = [[float(m[i * n + j] + m[j * n + i]) / 2 for j in range(n)] for i in range(n)]
    for _ in range(60):
        off = sum(a[i][j] ** 2 for i in range(n) for j in range(n) if i != j)
        if off < 1e-300: break
        for p in range(n):
            for q in range(p + 1, n):
                if abs(a[p][q]) < 1e-300: continue
                th = (a[q][q] - a[p][p]) / (2 * a[p][q])
                t = (1 if th >= 0 else -1) / (abs(th) + math.sqrt(th * th + 1)); c = 1 / math.sqrt(t * t + 1); s = t * c
                for k in range(n):
                    akp, akq = a[k][p], a[k][q]; a[k][p] = c * akp - s * akq; a[k][q] = s * akp + c * akq
                for k in range(n):
                    apk, aqk = a[p][k], a[q][k]; a[p][k] = c * apk - s * aqk; a[q][k] = s * apk + c * aqk
    return min(a[i][i] for i in range(n)) if n else 0.0

def monitor_task(info, d):
    """T cases: the task-kernel table is symmetric, has unit diagonal and no negative eigenvalue - right after construction (TK) and after
    setParameterVector(parameterVector()) round trips (TK2, which must also equal TK: check task-kernel-reinit); MultiTaskKernel is the
    product of input kernel and task kernel, symmetric, batch = single, no negative eigenvalue"""
    bad = []; n = info["n1"]; nt = info["nt"]
    def get(k, m):
        v = d.get(k); return v if v is not None and len(v) == m else None
    TK, TK2, KI, MT, MB, TS = get("TK", nt * nt), get("TK2", nt * nt), get("KI", n * n), get("MT", n * n), get("MB", n * n), get("TS", n)
    if TK is None or MT is None or KI is None or TS is None: return [("exception", "TK", "task-kernel table / multi-task kernel values not printed")]
    def table(check, f, m):
        if any(math.isnan(float(x)) or math.isinf(float(x)) for x in m): bad.append((check if check == "task-kernel-reinit" else "non-finite", f, "%s is not finite" % f)); return
        for i in range(nt):
            if not close(m[i * nt + i], 1): bad.append((check or "normalized-diagonal", f, "%s(%d,%d) = %r, expected 1" % (f, i, i, float(m[i * nt + i])))); return
            for j in range(nt):
                if not close(m[i * nt + j], m[j * nt + i]): bad.append((check or "symmetry", f, "%s(%d,%d) = %r but %s(%d,%d) = %r" % (f, i, j, float(m[i * nt + j]), f, j, i, float(m[j * nt + i])))); return
        e = jacobi_min_eig(m, nt)
        if e < -1e-9 * nt: bad.append((check or "negative-eigenvalue", f, "task-kernel table %s has eigenvalue %.6g" % (f, e)))
    table(None, "TK", TK)
    if TK2 is not None:
        for i, (x, y) in enumerate(zip(TK2, TK)):
            if not close(x, y): bad.append(("task-kernel-reinit", "TK2", "after setParameterVector(parameterVector()) table[%d] = %r, before %r" % (i, float(x), float(y)))); break
        table("task-kernel-reinit", "TK2", TK2)
    ts = [int(t) for t in TS]
    for i in range(n):
        for j in range(n):
            want = float(KI[i * n + j]) * float(TK[ts[i] * nt + ts[j]])
            if not close(MT[i * n + j], want): bad.append(("definition", "MT", "MultiTaskKernel(%d,%d) = %r but input kernel * task kernel = %r" % (i, j, float(MT[i * n + j]), want))); break
            if not close(MT[i * n + j], MT[j * n + i]): bad.append(("symmetry", "MT", "MultiTaskKernel(%d,%d) = %r but (%d,%d) = %r" % (i, j, float(MT[i * n + j]), j, i, float(MT[j * n + i])))); break
        else: continue
        break
    if MB is not None:
        for i, (x, y) in enumerate(zip(MB, MT)):
            if not close(x, y): bad.append(("batch!=single", "MB", "MB[%d] = %r but single = %r" % (i, float(x), float(y)))); break
    if all(abs(float(x)) < 1e100 for x in MT):
        e = jacobi_min_eig(MT, n); tr = max([1.0] + [abs(float(MT[i * n + i])) for i in range(n)]) * n
        if e < -1e-9 * tr: bad.append(("negative-eigenvalue", "MT", "MultiTaskKernel Gram matrix has eigenvalue %.6g" % e))
    return bad

def monitor_line(line, out):
    """returns list of (check, field, message); check names are stable (used in violation keys)"""
    info = case_info(line); d = parse_out(out); bad = []
    n1, n2 = info["n1"], info["n2"]
    if "EXC" in d or "STDEXC" in d or not d: return [("exception", "EXC", "the library threw / produced no output: " + out[:120])]
    if info["kind"] == "T": return monitor_task(info, d)
    if info["kind"] == "W": return monitor_magnitude(line, out)
    def get(k, n=None):
        v = d.get(k)
        if v is None or (n is not None and len(v) != n): return None
        return v
    ex = exact_case(line)    # all intermediate values exactly representable: batch/single/Gram/symmetry must agree bit for bit
    def cmp(check, fa, a, fb, b, rel=1e-11, ab=1e-12):
        if a is None or b is None: return
        if ex and check in ("symmetry", "batch!=single", "gram-assembly", "definition"): rel = ab = 0.0
        for i, (x, y) in enumerate(zip(a, b)):
            if not close(x, y, rel, ab):
                bad.append((check, fa, "%s[%d] = %r but %s = %r" % (fa, i, float(x), fb, float(y)))); return
    F = get("F")
    if F and (get("P") is None or int(F[3]) != len(d["P"])):
        bad.append(("parameter-count", "F", "numberOfParameters() = %r but parameterVector() %s" % (float(F[3]), "could not be produced" if "PERR" in d else "has %d entries" % len(d.get("P") or []))))
    S = get("S", n1 * n2); T = get("T", n1 * n2); SS = get("SS", n1 * n1)
    if S is None: return bad + [("exception", "S", "no single evaluations printed")]
    if any(math.isnan(float(x)) or math.isinf(float(x)) for x in S): return bad + [("non-finite", "S", "kernel value is not finite")]
    # symmetry
    if T: cmp("symmetry", "k(x,z)", S, "k(z,x)", [T[j * n1 + i] for i in range(n1) for j in range(n2)])
    if SS: cmp("symmetry", "k(x_i,x_j)", SS, "k(x_j,x_i)", [SS[j * n1 + i] for i in range(n1) for j in range(n1)])
    # batch = matrix of single evaluations
    for f in ("B", "BS", "SD", "MX"):
        cmp("batch!=single", f, get(f, n1 * n2), "single", S)
    for f in ("B11", "KM", "KR"):
        cmp("batch!=single", f, get(f, n1 * n1), "single", SS)
    if info["kind"] in ("P", "M"): cmp("definition", "S", S, "direct", get("R", n1 * n2))
    D1 = get("D1", n1); D2 = get("D2", n2)
    if F and F[0] and D1 and D2:
        cmp("normalized-diagonal", "k(x,x)", D1 + D2, "1", [1.0] * (n1 + n2))
    if D1 and D2:
        want = [D1[i] - 2 * S[i * n2 + j] + D2[j] for i in range(n1) for j in range(n2)]
        sc = max([1.0] + [abs(float(x)) for x in D1 + D2])
        cmp("feature-distance", "FD", get("FD", n1 * n2), "k(x,x)-2k(x,z)+k(z,z)", want, 1e-10, 1e-11 * sc)
        cmp("feature-distance", "FB", get("FB", n1 * n2), "k(x,x)-2k(x,z)+k(z,z)", want, 1e-10, 1e-11 * sc)
    if SS and "GR" in d:
        reg = d["GR"][0]
        want = [SS[i * n1 + j] + (reg if i == j else 0) for i in range(n1) for j in range(n1)]
        for f in ("G", "G1"): cmp("gram-assembly", f, get(f, n1 * n1), "single evaluations + regulariser", want)
        cmp("gram-assembly", "KF", get("KF", n1 * n1), "single evaluations", SS)
        tr = max([1.0] + [abs(float(SS[i * n1 + i])) for i in range(n1)]) * n1
        for f, m in (("SS", SS), ("G", get("G", n1 * n1))):
            if m and all(abs(float(x)) < 1e100 for x in m):
                e = jacobi_min_eig(m, n1)
                if e < -1e-9 * tr: bad.append(("negative-eigenvalue", f, "Gram matrix %s has eigenvalue %.6g" % (f, e)))
    # derivatives against finite differences of the weighted sum of single evaluations
    def dcmp(check, fa, fb):
        a, b = get(fa), get(fb)
        if a is None or b is None: return
        if len(a) != len(b): bad.append((check, fa, "%s has %d entries, expected %d" % (fa, len(a), len(b)))); return
        sc = max([1.0] + [abs(float(x)) for x in a + b if not math.isnan(float(x))])
        cmp(check, fa, a, fb + " (finite differences)", b, 0, 2e-6 * sc)
    dcmp("input-derivative", "WI", "NI"); dcmp("parameter-derivative", "WP", "NP"); dcmp("parameter-derivative", "KD", "NKD")
    cmp("parameter-derivative-reused-gradient", "WP2", get("WP2"), "first call", get("WP"))
    return bad

# ------------------------------------------------------------------ model vs implementation
PAIRS = [("S", "S"), ("B", "B"), ("BS", "B"), ("SD", "SD"), ("D1", "D1"), ("FD", "FD"), ("FB", "FD"), ("G", "G"), ("G1", "G"), ("MX", "S"), ("KM", None), ("WI", "WI"), ("WP", "WP"), ("WP", "WP1"),
         ("S", "SE"), ("B", "BE"),
         ("MX", "MX"), ("KD", "KD"),
         ("TK", "TK"), ("KI", "KI"), ("MT", "MT"), ("MB", "MT"),
         ("S", "NK"), ("B", "NBK"), ("BS", "NBSK")]      # W cases with NORM at the root: C05Norm.k_norm_coded / b_norm_nostate / b_norm_state   # C05Task.gt_matrix / k_mtask: GaussianTaskKernel table, MultiTaskKernel    # C05Blocks.gram_mixed / kmpd: the block loops of calculateMixedKernelMatrix / calculateKernelMatrixParameterDerivative     # SE/BE: den / bden of the expression as a C05Expr.kexp value (the function the expression theorems are about)
MUST = ("S", "B")
def exact_case(line):
    """every intermediate value of the C++ computation is a small dyadic rational: no sqrt/exp, divisions only by 1, 2, 4"""
    info = case_info(line); tr = info["tree"]
    if info["kind"] == "D": return True
    if info["kind"] in ("M", "T"): return False
    if info["kind"] in ("V", "W") and "NORM" in tr: return norm_exact(line)
    if any(c in tr for c in ("NORM", "RBF", "ARD")): return False
    for i, tk in enumerate(tr):
        if tk == "WSUM":
            n = int(tr[i + 1])
            if n not in (1, 2, 4) or any(x != "0" for x in tr[i + 2:i + 1 + n]): return False
        if tk == "SUBR" and int(tr[i + 1]) not in (1, 2, 4): return False
    if info["kind"] == "P":
        g = [x.split() for x in line.split("|")]; dim = int(g[0][1])
        for grp in (g[2], g[3]):
            p = 1
            for _ in range(int(grp[0])):
                s = int(grp[p]); p += 1 + s * dim
                if s not in (1, 2, 4): return False
    return True
def is_dyadic(fr): q = fr.denominator; return q & (q - 1) == 0 and abs(fr.numerator) < (1 << 53)

def compare_line(line, mout, iout, stats):
    m = parse_out(mout); d = parse_out(iout); exact = m.get("_mode") == "Q" and exact_case(line)
    if mout.startswith("ERR") or mout == "?": return ["model driver: " + mout]
    diffs = []
    # which derivatives exist: the model has a coded gradient (WI: wid over g_*, WP: wpdv over p_*) exactly for the classes
    # whose C++ code has one (ProductKernel: none; ModelKernel: parameters only; PolynomialKernel with the degree as
    # parameter is not modelled); the C++ reports it in its feature flags F = normalized,hasParamDeriv,hasInputDeriv,n
    info = case_info(line); F = d.get("F"); mag = info["kind"] == "W"
    fscale = {}
    if mag:    # magnitude cases: relative tolerance only; sums with cancellation (feature distance, gradients) relative to their terms
        dd = [abs(float(x)) for k in ("D1", "D2", "S") for x in (d.get(k) or []) if not (math.isnan(float(x)) or math.isinf(float(x)))]
        fscale["FD"] = fscale["FB"] = 1e-10 * max(dd + [0.0])
        fscale["*"] = 1e-12 * max(dd + [0.0])       # kernel values are sums that may cancel (orthogonal points): relative to the largest k(x,x) of the case
        # gradient = sum_j c_ij * (terms of magnitude ~ degree * k / |x|) with cancellation (e.g. a normalised kernel in one dimension is constant)
        fscale["WI"] = 1e-11 * 32 * info["n2"] * max([abs(float(x)) for x in info["c"]] + [1.0]) * max(dd + [0.0]) * math.ldexp(1.0, -info["e"])
    if info["kind"] == "V" and F and len(F) >= 4:
        tr = info["tree"]; degparam = any(tk == "POLY" and tr[i + 3] == "1" for i, tk in enumerate(tr))
        stats["flags"] = stats.get("flags", 0) + 1
        if bool(F[2]) != ("WI" in m):
            diffs.append("hasFirstInputDerivative() = %d but the model %s a coded input gradient for this kernel expression" % (int(F[2]), "has" if "WI" in m else "has no"))
        if bool(F[1]) != ("WP" in m) and not (degparam and "WP" not in m):
            diffs.append("hasFirstParameterDerivative() = %d but the model %s a coded parameter gradient for this kernel expression" % (int(F[1]), "has" if "WP" in m else "has no"))
        if "WP" in m and m["WP"] is not None and int(F[3]) != len(m["WP"]):
            diffs.append("numberOfParameters() = %d but the model's parameter gradient has %d entries" % (int(F[3]), len(m["WP"])))
    for fi, fm in PAIRS:
        if fm is None or fm not in m or m[fm] is None: continue
        a = d.get(fi)
        if fi in ("G1",) and a is not None and fm == "G": pass
        if a is None or len(a) != len(m[fm]):
            if fi in d or fi in MUST: diffs.append("%s: implementation printed %s values, model %d" % (fi, "no" if a is None else len(a), len(m[fm])))
            continue
        for i, (x, y) in enumerate(zip(a, m[fm])):
            if exact and isinstance(y, Fraction) and is_dyadic(y) and not (math.isnan(x) or math.isinf(x)):
                stats["exact"] += 1
                if fi in ("WI", "WP"): stats[fi + "_exact"] = stats.get(fi + "_exact", 0) + 1
                if fm in ("SE", "BE", "MX", "KD", "TK", "MT"): stats["x" + fm + "_exact"] = stats.get("x" + fm + "_exact", 0) + 1
                if Fraction(x) != y: diffs.append("%s[%d]: implementation %r, model %s (exact)" % (fi, i, x, y)); break
            else:
                stats["tol"] += 1
                if fi in ("WI", "WP"): stats[fi + "_tol"] = stats.get(fi + "_tol", 0) + 1
                if fm in ("SE", "BE", "MX", "KD", "TK", "MT"): stats["x" + fm + "_tol"] = stats.get("x" + fm + "_tol", 0) + 1
                if mag:
                    if not (rclose(x, y, 1e-11, fscale.get(fi, fscale["*"])) or same_double(x, y)): diffs.append("%s[%d]: implementation %r, model %r (inputs * 2^%d)" % (fi, i, float(x), float(y), info["e"])); break
                elif not close(x, y, 1e-11, 1e-12): diffs.append("%s[%d]: implementation %r, model %r" % (fi, i, float(x), float(y))); break
    return diffs

# ------------------------------------------------------------------ shrinking a failing case (same check must keep failing)
def subtrees(tree):
    """proper sub-expressions with the same input dimension (not below SUBR / MODEL)"""
    res = []
    def walk(p, top):
        t = tree[p]; start = p
        if t == "LIN": p += 1
        elif t == "POLY": p += 5
        elif t == "MONO": p += 2
        elif t == "RBF": p += 3
        elif t == "ARD":
            p += 1
            while p < len(tree) and tree[p] not in CLASSES: p += 1
        elif t == "NORM": p = walk(p + 1, False)
        elif t == "SCALED": p = walk(p + 2, False)
        elif t in ("WSUM", "PROD"):
            n = int(tree[p + 1]); p += 2 + (n - 1 if t == "WSUM" else 0)
            for _ in range(n): p = walk(p, False)
        elif t in ("SUBR", "MODEL"): return None
        if p is None: return None
        if not top: res.append(tree[start:p])
        return p
    try: walk(0, True)
    except Exception: pass
    return res

def with_exp(line, e):
    h = line.split("|", 1); t = h[0].split(); t[3] = str(e); return " ".join(t) + " |" + h[1]

def shrink_case(line, check, impl, pair=False):
    """pair: the check is a relation between a magnitude case and the same case with exponent 0 (monitor_scaling)"""
    info = case_info(line)
    if info["kind"] not in ("V", "W"): return line
    g = [x.split() for x in line.split("|")]
    dim = info["dim"]
    def build(tree, x1, x2, c, parts, reg): return mk_vector(info["sub"], dim, tree, x1, x2, c, parts, reg, info.get("e"))
    def unpack(l):
        g = [x.split() for x in l.split("|")]; n1 = int(g[2][0]); n2 = int(g[3][0])
        x1 = [g[2][1 + i * dim:1 + (i + 1) * dim] for i in range(n1)]; x2 = [g[3][1 + i * dim:1 + (i + 1) * dim] for i in range(n2)]
        c = [g[4][i * n2:(i + 1) * n2] for i in range(n1)]
        return g[1], x1, x2, c, list(map(int, g[5])), g[6][0]
    cur = line
    for _ in range(14):
        tree, x1, x2, c, parts, reg = unpack(cur); cands = []
        for st in subtrees(tree): cands.append(build(st, x1, x2, [v for r in c for v in r], parts, reg))
        for i in range(len(x1)):
            if len(x1) > 1:
                nx = x1[:i] + x1[i + 1:]; nc = c[:i] + c[i + 1:]
                cands.append(build(tree, nx, x2, [v for r in nc for v in r], [len(nx)], reg))
                if len(nx) > 1: cands.append(build(tree, nx, x2, [v for r in nc for v in r], [1, len(nx) - 1], reg))
        for j in range(len(x2)):
            if len(x2) > 1:
                nx = x2[:j] + x2[j + 1:]; nc = [r[:j] + r[j + 1:] for r in c]
                cands.append(build(tree, x1, nx, [v for r in nc for v in r], parts, reg))
        if reg != "0": cands.append(build(tree, x1, x2, [v for r in c for v in r], parts, "0"))
        if not cands: break
        outs = run_cases(impl, [[with_exp(x, 0), x] if pair else [x] for x in cands], os.path.join(BUILD, "tmp", PID, "shrink.txt"), env={"OMP_NUM_THREADS": "1", "OPENBLAS_NUM_THREADS": "1"})
        nxt = None
        for cand, (o, rc, _) in zip(cands, outs):
            if pair: ms = [] if rc != 0 or len(o) != 2 else monitor_scaling(with_exp(cand, 0), o[0], cand, o[1])
            else: ms = [("exception", "", "crash")] if rc != 0 or not o else monitor_line(cand, o[0])
            if any(m[0] == check for m in ms): nxt = cand; break
        if nxt is None: break
        cur = nxt
    return cur

# ------------------------------------------------------------------ main
def load_cases(ck, gens):
    if ck.replay:
        return [l for l in open(ck.replay).read().split("\n") if l.strip() and not l.startswith("#")]
    cases = []
    cdir = os.path.join(ROOT, "corpus", PID)
    if os.path.isdir(cdir):
        for f in sorted(os.listdir(cdir)):
            cases += [l for l in open(os.path.join(cdir, f)).read().split("\n") if l.strip() and not l.startswith("#")]
    for gen, n in gens:
        for _ in range(n): cases.append(gen())
    return cases

def main():
    ck = Check(PID)
    for f in ([] if ck.replay else os.listdir(ck.replay_dir)):          # replays of earlier runs would be mistaken for results of this one
        if f.startswith(("viol_", "case_")): os.remove(os.path.join(ck.replay_dir, f))
    ck.trusted = DEFAULT_TRUSTED + ["Coq standard library Reals (axioms ClassicalDedekindReals.sig_forall_dec, ClassicalDedekindReals.sig_not_dec, FunctionalExtensionality.functional_extensionality_dep) for the theorems over R; Classical_Prop.classic in addition for the four binary64 witness theorems C05_normalized_*binary64* (Flocq 4.1.0 operations); no other axiom",
                                    "the OCaml driver parses the kernel expression and composes the extracted combinators (no arithmetic of its own); exact runs use Coq's extracted Qc operations, float runs OCaml doubles with libm sqrt/exp",
                                    "finite differences (five-point stencil, h = 2^-10) inside the harness are built from the kernels' own single evaluations"]
    ck.assumptions = ["inputs of one kernel call have equal dimension; PolynomialKernel offset >= 0, ScaledKernel factor > 0, WeightedSumKernel weights exp(.) > 0, DiscreteKernel table symmetric positive semi-definite (generated as A*A^T)",
                      "NormalizedKernel: base kernel value k(x,x) > 0 on every generated point",
                      "magnitude stream: scales are chosen from a structural bound (growth degree, magnitude bits) of the expression so that every mathematically correct intermediate is a normal double; where the true value of a "
                      "scaled quantity is not a normal double the scaling relation is not demanded; Gaussian/ARD values that underflow to 0 are accepted; the bit-for-bit comparison of C05Norm assumes IEEE double division, multiplication and sqrt in both g++ (SSE2) and OCaml",
                      "the binary64 witnesses (C05_normalized_*_binary64_*) are evaluated with Flocq's operations inside Coq; they rest on the standard real-number axioms and Classical_Prop.classic (used by Flocq's proofs)",
                      "GaussianTaskKernel/MultiTaskKernel (T cases): the model's table is computeMatrix() on a cleared matrix, summation order of the mean embeddings differs from the C++ loop (compared at 1e-11); setGamma()/setWidth() (no recomputation of the table) are not exercised",
                      "the theorems stated over Coq's real numbers (C05_real_ordered_field_instance, C05_psd_exponentiated_inner_product, C05_psd_gaussian, C05_psd_gaussian_quadratic_forms, C05_psd_ard, C05_limit_features_*, "
                      "C05_limit_closure_*, C05_psd_expression, C05_psd_expression_point_set, C05_psd_gaussian_task_kernel, C05_psd_multi_task_kernel, C05_psd_multi_task_kernel_expression) instantiate the model with "
                      "A := R, expA := exp and rest on the standard-library axioms behind R and exp only: ClassicalDedekindReals.sig_forall_dec, ClassicalDedekindReals.sig_not_dec, "
                      "FunctionalExtensionality.functional_extensionality_dep (listed per theorem in the obligations); all other theorems are axiom-free and hold in every ordered field",
                      "positive semi-definiteness over R says nothing about rounding: the floating-point Gram matrices of Gaussian/ARD (and composed) kernels are additionally monitored by eigenvalues (tolerance 1e-9 * trace)"]
    ck.proofs()
    model = extract_model(PID, "C05Extract.v", "c05_driver.ml")
    impl, err = cxx_build("c05_kernels", [os.path.join(ROOT, "harness", "c05_kernels.cpp")])
    if impl is None:
        ck.oblige("harness builds against /repo", False, err); ck.finish()
    tmpd = os.path.join(BUILD, "tmp", PID); os.makedirs(tmpd, exist_ok=True)
    big = ck.tier == "thorough"; rng = ck.rng; f = 12 if big else 1
    cases = load_cases(ck, [(lambda: gen_vector(rng, False, big), 700 * f), (lambda: gen_vector(rng, True, big), 150 * f), (lambda: gen_norm_exact(rng), 60 * f),
                            (lambda: gen_discrete(rng), 60 * f), (lambda: gen_pointset(rng), 60 * f), (lambda: gen_mkl(rng), 60 * f),
                            (lambda: gen_task(rng), 60 * f)])
    if not ck.replay:      # magnitude stream: groups of lines that differ in the exponent only (dense, a few sparse)
        for i in range(150 * f): cases += gen_magnitude(rng, sparse=(i % 6 == 5))
    log("[C05] %d cases generated, proofs+builds took %.1fs" % (len(cases), time.time() - ck.t0))
    io = run_cases(impl, [[c] for c in cases], os.path.join(tmpd, "impl_in.txt"), env={"OMP_NUM_THREADS": "2", "OPENBLAS_NUM_THREADS": "1"})
    mo = run_cases(model, [[c] for c in cases], os.path.join(tmpd, "model_in.txt"))
    # NormalizedKernel's operation orders on the numbers the C++ combined: second model run on N lines built from the harness output
    nidx = []; nlines = []
    for ci, c in enumerate(cases):
        if c.startswith("W ") and io[ci][1] == 0 and io[ci][0]:
            nl = norm_lines(c, io[ci][0][0])
            if nl: nidx.append(ci); nlines.append(nl)
    no = run_cases(model, [[l] for l in nlines], os.path.join(tmpd, "model_norm_in.txt")) if nlines else []
    normout = dict(zip(nidx, no))
    # groups of magnitude cases: same line up to the exponent; the member with exponent 0 is the reference of the scaling relation
    mgroups = {}
    for ci, c in enumerate(cases):
        if c.startswith("W "):
            h = c.split("|", 1); t = h[0].split(); mgroups.setdefault(" ".join(t[:3]) + " |" + h[1], {})[int(t[3])] = ci
    log("[C05] model and implementation ran, %.1fs" % (time.time() - ck.t0))
    stats = {"exact": 0, "tol": 0}; mon = {}; dis = []; nmon = 0; qmode = 0; checks_run = 0
    mstat = {"lines": 0, "groups": len(mgroups), "norm_root_lines": 0, "norm_numbers_bit_for_bit": 0, "one_division_order_differs": 0, "one_division_order_nonfinite_or_zero": 0,
             "scaling_relation_lines": 0, "scaling_relation_exact_lines": 0, "max_abs_log2_kxx": 0.0}
    pairref = {}
    for ci, c in enumerate(cases):
        (b, rcb, eb), (a, rca, ea) = io[ci], mo[ci]
        if rca != 0 or not a: raise RuntimeError("model driver failed on case %d: %s\n%s" % (ci, ea, c))
        if a[0].startswith("Q"): qmode += 1
        if rcb != 0 or not b: msgs = [("crash", "", "implementation crashed/stopped (rc=%s) %s" % (rcb, eb.strip()[-200:]))]
        else: msgs = monitor_line(c, b[0])
        if c.startswith("W ") and rcb == 0 and b:
            mstat["lines"] += 1; mi = mag_info(c); d_ = parse_out(b[0])
            for f_ in ("KX", "KZ", "D1", "D2"):
                for x in d_.get(f_) or []:
                    if float(x) > 0 and not math.isinf(float(x)): mstat["max_abs_log2_kxx"] = max(mstat["max_abs_log2_kxx"], abs(math.log2(float(x))))
            h = c.split("|", 1); t = h[0].split(); grp = mgroups[" ".join(t[:3]) + " |" + h[1]]
            if mi["e"] != 0 and 0 in grp and io[grp[0]][1] == 0 and io[grp[0]][0] and mi["deg"] is not None:
                mstat["scaling_relation_lines"] += 1; mstat["scaling_relation_exact_lines"] += 1 if mi["exact"] else 0
                sm_ = monitor_scaling(cases[grp[0]], io[grp[0]][0][0], c, b[0])
                for m_ in sm_: pairref[(ci, m_[0])] = grp[0]
                msgs = msgs + sm_
        if msgs:
            nmon += 1
            for chk, fld, msg in msgs:
                mon.setdefault(chk, []).append((case_info(c)["kind"] != "V", len(c), ci, msg, fld))
        # failures that do not touch the compared values (parameter bookkeeping) do not excuse a disagreement
        if all(m[0] in ("parameter-count", "parameter-derivative-reused-gradient") for m in msgs):
            diffs = compare_line(c, a[0], b[0], stats)
            if ci in normout:      # bit for bit: C05Norm's three operation orders on the C++ base-kernel numbers vs the C++ results
                (na, rcn, en) = normout[ci]
                if rcn != 0 or not na or na[0].startswith("ERR"): raise RuntimeError("model driver failed on the N line of case %d: %s" % (ci, en))
                nm = parse_out(na[0]); d_ = parse_out(b[0]); mstat["norm_root_lines"] += 1
                for fi, fm in (("S", "NS"), ("B", "NB"), ("BS", "NBS")):
                    u, v = d_.get(fi), nm.get(fm)
                    if u is None or v is None or len(u) != len(v): diffs.append("%s: implementation printed %s values, C05Norm %s" % (fi, "no" if u is None else len(u), "none" if v is None else len(v))); continue
                    for i, (x, y) in enumerate(zip(u, v)):
                        mstat["norm_numbers_bit_for_bit"] += 1
                        if not same_double(x, y):
                            diffs.append("%s[%d]: implementation %s but C05Norm.%s on the same base-kernel numbers gives %s (bit-for-bit comparison, inputs * 2^%d)" % (fi, i, float(x).hex(), {"NS": "norm_single_mat", "NB": "norm_rowdiv", "NBS": "norm_outer"}[fm], float(y).hex(), case_info(c)["e"])); break
                # how often the documented one-division order v/sqrt(a*b) would have been told apart from the coded order on this stream
                nd = nm.get("ND") or []; sv = d_.get("S") or []
                if any(not rclose(x, y, 1e-11) for x, y in zip(sv, nd)): mstat["one_division_order_differs"] += 1
                if any(math.isnan(float(y)) or math.isinf(float(y)) or (float(y) == 0.0 and float(x) != 0.0) for x, y in zip(sv, nd)): mstat["one_division_order_nonfinite_or_zero"] += 1
            if diffs: dis.append((ci, diffs))
    log("[C05] monitor+comparison done, %.1fs" % (time.time() - ck.t0))
    # per check: report the smallest failing case (shrunk); cases whose kernel expression contains all classes of an
    # already reported culprit count as explained by it; repeat with the rest (distinct culprits get distinct reports)
    kinds = {}; PAIRCHK = ("magnitude-scaling", "derivative-scaling")
    def report_check(chk, entries):
        rest = sorted(entries); nrep = 0
        while rest and nrep < 4:
            _, _, ci, msg, fld = rest[0]; pair = chk in PAIRCHK
            small = shrink_case(cases[ci], chk, impl, pair) if chk not in ("crash",) else cases[ci]
            sm = run_cases(model, [[small]], os.path.join(tmpd, "s_model.txt"))[0]
            if pair:       # the relation is between the case and the same case with exponent 0: both lines are the failing input
                small0 = with_exp(small, 0); r2 = run_cases(impl, [[small0, small]], os.path.join(tmpd, "s_impl.txt"))[0]
                m2 = [m for m in (monitor_scaling(small0, r2[0][0], small, r2[0][1]) if len(r2[0]) == 2 else []) if m[0] == chk]; so = (r2[0][1:], r2[1], r2[2])
                if not m2: small = cases[ci]; small0 = cases[pairref[(ci, chk)]]; m2 = [(chk, fld, msg)]; so = io[ci]; sm = mo[ci]
                text = small0 + "\n" + small + "\n"
            else:
                so = run_cases(impl, [[small]], os.path.join(tmpd, "s_impl.txt"))[0]
                m2 = [m for m in (monitor_line(small, so[0][0]) if so[0] else []) if m[0] == chk]
                if not m2: small = cases[ci]; m2 = [(chk, fld, msg)]; so = io[ci]; sm = mo[ci]
                text = small + "\n"
            inf = case_info(small); cl = classes_of(inf["tree"]); cls = ">".join(CLASSES[t] for t in cl)
            flds = ",".join(sorted(set(m[1] for m in m2)))
            root = cl[1] if cl and cl[0] == "PSET" and len(cl) > 1 and chk != "parameter-derivative-reused-gradient" else cl[0] if cl else "?"
            expl = [r for r in rest if root in classes_of(case_info(cases[r[2]])["tree"])] or [rest[0]]
            rest = [r for r in rest if r not in expl]
            key = "%s:%s:%s:%s n1=%d n2=%d" % (chk, flds, cls, inf.get("sub", inf["kind"]), inf["n1"], inf["n2"])
            what = "spec monitor fails on the implementation [%s] (%s, %d cases): %s" % (chk, cls, len(set(r[2] for r in expl)), "; ".join(m[2] for m in m2[:3]))
            cf = ck.write_replay("case_%s_%d.txt" % (re.sub(r"[^a-z]", "", chk), nrep), text)
            ck.violation(key, {"case_file": cf, "case": text.strip().split("\n") if pair else small, "implementation_output": so[0], "model_output": sm[0], "monitor": [m[2] for m in m2],
                               "failing_cases_of_this_kind": len(set(r[2] for r in expl)), "replay_cmd": "python3 tools/c05.py --replay %s" % cf}, what)
            kinds[chk + ":" + cls] = len(set(r[2] for r in expl)); nrep += 1
    for chk in sorted(mon): report_check(chk, mon[chk])
    if dis:
        ci, diffs = dis[0]
        cf = ck.write_replay("case_correspondence.txt", cases[ci] + "\n")
        ck.violation("correspondence", {"case_file": cf, "case": cases[ci], "model_output": mo[ci][0], "implementation_output": io[ci][0], "differences": diffs,
                                        "broken": "correspondence C05Model vs shark kernels"},
                     "correspondence C05Model vs shark kernels no longer checks (outputs differ on %d cases without a monitor failure): %s" % (len(dis), diffs[0]), no_input=True)
    ck.oblige("correspondence C05Model = shark kernels on %d cases (%d numbers compared exactly, %d within 1e-11)" % (len(cases), stats["exact"], stats["tol"]), not dis and not mon,
              "" if not (mon or dis) else "%d cases with monitor failures (%d kinds), %d disagreements" % (nmon, len(mon), len(dis)))
    nw = sum(1 for c in cases if c.startswith("W "))
    if nw:
        ck.oblige("magnitude stream: %d lines in %d groups (inputs * 2^e, k(x,x) up to 1e+-%d); relative monitors + exact scaling relation on %d lines; C05Norm operation orders = C++ bit for bit on %d numbers of %d NormalizedKernel lines (one-division order v/sqrt(a*b) differs on %d of them)"
                  % (nw, mstat["groups"], int(mstat["max_abs_log2_kxx"] * math.log10(2)), mstat["scaling_relation_lines"], mstat["norm_numbers_bit_for_bit"], mstat["norm_root_lines"], mstat["one_division_order_differs"]),
                  not any(c.startswith("W ") for ci, _ in dis for c in [cases[ci]]) and not any(cases[e[2]].startswith("W ") for v in mon.values() for e in v)
                  and (ck.replay is not None or (mstat["one_division_order_differs"] > 0 and mstat["norm_numbers_bit_for_bit"] > 0)),
                  "" if mstat["one_division_order_differs"] > 0 or ck.replay else "the stream no longer distinguishes the operation orders")
    ck.oblige("spec monitor (symmetry, batch=single, normalised diagonal, feature distance, Gram assembly, eigenvalues, derivatives vs finite differences) on %d cases" % len(cases), not mon,
              "; ".join("%s x%d" % kv for kv in sorted(kinds.items()))[:900])
    infos = [case_info(c) for c in cases]
    nontriv = set(c for c, i in zip(cases, infos) if i["n1"] >= 2 and i["n2"] >= 2 and (len(classes_of(i["tree"])) >= 2 or i["kind"] not in ("V", "W")))
    ck.cov["evaluations"] = len(cases)
    ck.cov["distinct_nontrivial"] = len(nontriv)
    ck.cov["rule"] = ("random kernel expressions (depth <= 3 over Linear, Polynomial, Monomial, GaussianRbf, ARD, Normalized, Scaled, WeightedSum, Product, Subrange, Model(LinearModel); dense and sparse inputs; "
                      "DiscreteKernel, PointSetKernel, MklKernel, GaussianTaskKernel/MultiTaskKernel cases) on 1..5 x 1..4 points of dimension 1..4 with small integer/dyadic coordinates incl. duplicates, axis vectors, zero vectors, random batch partitions and regularisers; "
                      "magnitude stream: 150 more expressions (polynomial degree up to 8; half with NormalizedKernel at the root) on integer inputs at three scales 2^0, 2^e, 2^-e' with e * (growth degree of the expression) in 500..940; "
                      "non-trivial = at least 2 points on both sides and a composed kernel (or a non-vector kernel); distinct = distinct case strings")
    ck.cov["samples"] = cases[:2] + cases[-1:]
    cls_count = {}
    for i in infos:
        for t in set(classes_of(i["tree"])): cls_count[CLASSES[t]] = cls_count.get(CLASSES[t], 0) + 1
    ck.notes["cases_per_kernel_class"] = cls_count
    ck.notes["cases_run_with_exact_rationals"] = qmode
    ck.notes["numbers_compared_exactly"] = stats["exact"]; ck.notes["numbers_compared_with_tolerance"] = stats["tol"]
    ck.notes["derivative_numbers_compared"] = {k: v for k, v in stats.items() if k.startswith(("WI", "WP"))}
    ck.notes["cases_with_derivative_flags_compared"] = stats.get("flags", 0)
    # SE/BE: C05Expr.den/bden vs eval single/batch; MX: C05Blocks.gram_mixed vs calculateMixedKernelMatrix; KD: C05Blocks.kmpd vs calculateKernelMatrixParameterDerivative
    ck.notes["expression_and_block_routine_numbers_compared"] = {k[1:]: v for k, v in stats.items() if k.startswith("x")}
    mstat["max_abs_log10_kxx"] = round(mstat.pop("max_abs_log2_kxx") * math.log10(2), 1)
    ck.notes["magnitude_stream"] = mstat
    ck.notes["not_instantiable"] = "ARDKernelUnconstrained<CompressedRealVector> and NormalizedKernel<CompressedRealVector> (typedefs CompressedARDKernel, CompressedNormalizedKernel) do not compile in this tree; sparse cases use Linear, Polynomial, Monomial, GaussianRbf, Scaled, WeightedSum, Product"
    ck.finish(explanation="Coq theorems over C05Model (axiom-free for any ordered field; positive semi-definiteness of Gaussian/ARD and kernels composed from them over Coq's real numbers with the standard real-number axioms) + exact/1e-11 correspondence of the extracted model with the compiled kernels + independent monitor on every anchored kernel class")

if __name__ == "__main__":
    main()
