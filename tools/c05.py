#!/usr/bin/env python3
"""C05 - kernels: proofs (Properties_C05.v) + correspondence (extracted C05Model, run with Coq's exact rationals
or with floats, vs shark kernels compiled from /repo on the same generated kernel expressions and inputs) + an
independent spec monitor on the C++ output (symmetry, batch = single, normalised diagonal, feature distance,
Gram assembly vs single evaluations, eigenvalues, derivatives vs finite differences) for every anchored class.
Extension: kernel expressions as a Coq data type (C05Expr den/bden: fields SE/BE), calculateMixedKernelMatrix and
calculateKernelMatrixParameterDerivative (C05Blocks: MX/KD), GaussianTaskKernel/MultiTaskKernel (C05Task: T cases, fields TK/MT,
monitor task-kernel-reinit); positive semi-definiteness of Gaussian/ARD/all expressions/task kernels proved over Coq's reals."""
import os, sys, re, math
from fractions import Fraction
sys.path.insert(0, os.path.dirname(os.path.abspath(__file__)))
from vlib import *

PID = "C05"
DY = ["0", "1", "-1", "2", "-2", "3", "-3", "1/2", "-1/2", "3/2", "4", "-4"]

# ------------------------------------------------------------------ generator
def gnum(rng, nz=False):
    while True:
        x = rng.choice(DY[:7] if rng.random() < 0.8 else DY)
        if not nz or x != "0": return x

def gen_tree(rng, dim, depth, sparse=False, in_norm=False, no_norm=False):
    """NormalizedKernel needs k(x,x) > 0 for its base: no model-based kernel below it (the model may map a point to 0)
    and none above it (sparse=True below MODEL also excludes NORM)"""
    leaves = ["LIN", "POLY", "MONO", "RBF"] + ([] if sparse else ["ARD"])
    comps = ["SCALED", "WSUM", "PROD"] + ([] if sparse else ["NORM", "SUBR", "MODEL"])
    if in_norm and "MODEL" in comps: comps.remove("MODEL")
    if no_norm and "NORM" in comps: comps.remove("NORM")
    c = rng.choice(leaves) if depth <= 0 or rng.random() < 0.35 else rng.choice(comps)
    if c == "LIN": return ["LIN"]
    if c == "POLY":
        un = rng.random() < 0.25
        off = rng.choice(["1", "2", "1/2", "3"]) if un else rng.choice(["0", "1", "2", "1/2", "1"])
        return ["POLY", str(rng.choice([1, 1, 2, 2, 3])), off, "1" if rng.random() < 0.3 else "0", "1" if un else "0"]
    if c == "MONO": return ["MONO", str(rng.choice([1, 1, 2, 3]))]
    if c == "RBF": return ["RBF", rng.choice(["1/4", "1/2", "1", "2", "1/8"]), "1" if rng.random() < 0.3 else "0"]
    if c == "ARD": return ["ARD"] + [rng.choice(["1/4", "1/2", "1", "2"]) for _ in range(dim)]
    if c == "NORM": return ["NORM"] + gen_tree(rng, dim, depth - 1, sparse, True, no_norm)
    if c == "SCALED": return ["SCALED", rng.choice(["2", "1/2", "3", "1/4"])] + gen_tree(rng, dim, depth - 1, sparse, in_norm, no_norm)
    if c == "WSUM":
        n = rng.choice([1, 2, 2, 3, 4]); out = ["WSUM", str(n)] + [rng.choice(["0", "0", "0", "1", "-1/2", "1/4"]) for _ in range(n - 1)]
        if rng.random() < 0.5: out = ["WSUM", str(n)] + ["0"] * (n - 1)
        for _ in range(n): out += gen_tree(rng, dim, depth - 1, sparse, in_norm, no_norm)
        return out
    if c == "PROD":
        n = rng.choice([1, 2, 2, 3]); out = ["PROD", str(n)]
        for _ in range(n): out += gen_tree(rng, dim, depth - 1, sparse, in_norm, no_norm)
        return out
    if c == "SUBR":
        n = rng.choice([1, 2, 2, 3]); out = ["SUBR", str(n)]
        for _ in range(n):
            a = rng.randrange(dim); b = rng.randint(a + 1, dim)
            out += [str(a), str(b)] + gen_tree(rng, b - a, depth - 1, sparse, in_norm, no_norm)
        return out
    if c == "MODEL":
        m = rng.randint(1, 3)
        return ["MODEL", str(m)] + [rng.choice(["0", "1", "-1", "2", "1/2"]) for _ in range(m * dim)] + [rng.choice(["0", "1", "-1"]) for _ in range(m)] + gen_tree(rng, m, depth - 1, sparse, in_norm, True)

def gen_points(rng, n, dim, nz, pool):
    pts = []
    for _ in range(n):
        r = rng.random()
        if pool and r < 0.2: pts.append(list(rng.choice(pool)))                  # duplicates across / within the batches
        elif r < 0.35 and not nz:                                               # axis vectors: orthogonal pairs, zero inner products
            v = ["0"] * dim; v[rng.randrange(dim)] = gnum(rng, True); pts.append(v)
        elif r < 0.4 and not nz: pts.append(["0"] * dim)
        else: pts.append([gnum(rng, nz) for _ in range(dim)])
        pool.append(pts[-1])
    return pts

def composition(rng, n):
    parts = []
    while n > 0:
        k = rng.randint(1, n); parts.append(k); n -= k
    return parts

def gen_vector(rng, sparse=False, big=False):
    dim = rng.choice([1, 2, 2, 3, 3, 4] + ([6] if big else []))
    tree = gen_tree(rng, dim, rng.choice([0, 1, 1, 2, 2, 3]), sparse)
    nz = "NORM" in tree
    n1 = rng.choice([1, 2, 3, 3, 4, 5] + ([7] if big else [])); n2 = rng.choice([1, 2, 2, 3, 4] + ([6] if big else []))
    pool = []; x1 = gen_points(rng, n1, dim, nz, pool); x2 = gen_points(rng, n2, dim, nz, pool)
    c = [rng.choice(["1", "1", "2", "-1", "0", "1/2", "3"]) for _ in range(n1 * n2)]
    return mk_vector("sparse" if sparse else "dense", dim, tree, x1, x2, c, composition(rng, n1), rng.choice(["0", "0", "1/2", "2"]))

def mk_vector(kind, dim, tree, x1, x2, c, parts, reg):
    return "V %s %d | %s | %d %s | %d %s | %s | %s | %s" % (kind, dim, " ".join(tree), len(x1), " ".join(v for p in x1 for v in p),
                                                          len(x2), " ".join(v for p in x2 for v in p), " ".join(c), " ".join(map(str, parts)), reg)

NORM_EXACT_BASES = [["LIN"], ["POLY", "2", "0", "0", "0"], ["POLY", "1", "0", "0", "0"], ["POLY", "3", "0", "0", "0"], ["MONO", "1"], ["MONO", "2"], ["MONO", "3"], ["SCALED", "1/4", "LIN"], ["SCALED", "4", "LIN"]]
POW2 = ["1", "-1", "2", "-2", "4", "1/2", "-1/2", "-4"]
def gen_norm_exact(rng):
    """NormalizedKernel where floating point is exact: base kernel with k(x,x) = 4^a on axis vectors with coordinates +-2^a, so that
    every square root and every division (by powers of two) is exact; value, input and parameter derivatives are compared exactly"""
    dim = rng.choice([1, 2, 2, 3]); tree = ["NORM"] + rng.choice(NORM_EXACT_BASES)
    def pts(n):
        out = []
        for _ in range(n):
            v = ["0"] * dim; v[rng.randrange(dim)] = rng.choice(POW2); out.append(v)
        return out
    n1 = rng.randint(1, 4); n2 = rng.randint(1, 3); x1 = pts(n1); x2 = pts(n2)
    if rng.random() < 0.3: x2[0] = list(x1[0])
    c = [rng.choice(["1", "1", "2", "-1", "0", "1/2", "3"]) for _ in range(n1 * n2)]
    return mk_vector("dense", dim, tree, x1, x2, c, composition(rng, n1), rng.choice(["0", "1/2"]))

def norm_exact(line):
    g = [x.split() for x in line.split("|")]; dim = int(g[0][2])
    if g[1][0] != "NORM" or g[1][1:] not in NORM_EXACT_BASES: return False
    for grp in (g[2], g[3]):
        n = int(grp[0])
        for i in range(n):
            nzs = [v for v in grp[1 + i * dim:1 + (i + 1) * dim] if v != "0"]
            if len(nzs) != 1 or nzs[0] not in POW2: return False
    return True

def gen_discrete(rng):
    n = rng.randint(1, 5); r = rng.randint(1, 3)
    a = [[rng.randint(-2, 2) for _ in range(r)] for _ in range(n)]
    tab = [sum(a[i][k] * a[j][k] for k in range(r)) for i in range(n) for j in range(n)]      # A A^T: symmetric psd table
    n1 = rng.randint(1, 5); n2 = rng.randint(1, 4)
    x1 = [rng.randrange(n) for _ in range(n1)]; x2 = [rng.randrange(n) for _ in range(n2)]
    return "D %d | %s | %d %s | %d %s | %s | %s" % (n, " ".join(map(str, tab)), n1, " ".join(map(str, x1)), n2, " ".join(map(str, x2)),
                                                   " ".join(map(str, composition(rng, n1))), rng.choice(["0", "1/2"]))

def gen_pointset(rng):
    dim = rng.randint(1, 3); tree = gen_tree(rng, dim, rng.choice([0, 0, 1]), True)   # base kernels without NORM/SUBR/MODEL/ARD
    def sets(n):
        out = [str(n)]
        for _ in range(n):
            s = rng.randint(1, 3); out.append(str(s)); out += [gnum(rng) for _ in range(s * dim)]
        return out
    n1 = rng.randint(1, 3); n2 = rng.randint(1, 3)
    return "P %d | %s | %s | %s | %s" % (dim, " ".join(tree), " ".join(sets(n1)), " ".join(sets(n2)), " ".join(rng.choice(["1", "2", "-1", "1/2"]) for _ in range(n1 * n2)))

def gen_mkl(rng):
    d1 = rng.randint(1, 3); d3 = rng.randint(1, 3); nt = rng.randint(1, 4); r = rng.randint(1, 2)
    a = [[rng.randint(-2, 2) for _ in range(r)] for _ in range(nt)]
    tab = [sum(a[i][k] * a[j][k] for k in range(r)) for i in range(nt) for j in range(nt)]
    def pts(n): return "%d %s" % (n, " ".join(" ".join([gnum(rng) for _ in range(d1)] + [str(rng.randrange(nt))] + [gnum(rng) for _ in range(d3)]) for _ in range(n)))
    n1 = rng.randint(1, 4); n2 = rng.randint(1, 4)
    lw = rng.choice([["0", "0"], ["0", "0"], ["1", "-1/2"], ["1/4", "0"]])
    return "M %d %d %d | %s | %s %s %s | %s | %s | %s" % (d1, d3, nt, " ".join(map(str, tab)), rng.choice(["1/4", "1/2", "1"]), lw[0], lw[1], pts(n1), pts(n2),
                                                         " ".join(map(str, composition(rng, n1))))

def gen_task(rng):
    """GaussianTaskKernel / MultiTaskKernel: multi-task data (input, task index; some tasks may have no example), input kernel
    without NormalizedKernel / ModelKernel, gamma, number of setParameterVector(parameterVector()) round trips"""
    dim = rng.randint(1, 3); nt = rng.randint(1, 4); tree = gen_tree(rng, dim, rng.choice([0, 0, 1, 2]), False, True, True)
    n = rng.randint(1, 6); pts = []
    for _ in range(n): pts += [gnum(rng) for _ in range(dim)] + [str(rng.randrange(nt))]
    return "T %d %d | %s | %s | %d %s | %d" % (dim, nt, " ".join(tree), rng.choice(["1/4", "1/2", "1", "2", "1/8"]), n, " ".join(pts), rng.randint(1, 3))

# ------------------------------------------------------------------ parsing of output lines
def pnum(s):
    if s.startswith("0x") or s.startswith("-0x") or "nan" in s or "inf" in s: return float.fromhex(s) if "x" in s else float(s)
    return Fraction(s)

def parse_out(line):
    d = {}; toks = line.split()
    for t in toks:
        if "=" in t:
            k, v = t.split("=", 1)
            try: d[k] = [pnum(x) for x in v.split(",") if x != ""]
            except Exception: d[k] = None
        else: d["_mode"] = t
    return d

def case_info(line):
    g = [x.split() for x in line.split("|")]
    kind = g[0][0]
    if kind == "V":
        dim = int(g[0][2]); n1 = int(g[2][0]); n2 = int(g[3][0]); return dict(kind="V", sub=g[0][1], dim=dim, tree=g[1], n1=n1, n2=n2, parts=list(map(int, g[5])), reg=Fraction(g[6][0]), c=[Fraction(x) for x in g[4]])
    if kind == "D": return dict(kind="D", tree=["DISC"], n1=int(g[2][0]), n2=int(g[3][0]), parts=list(map(int, g[4])), reg=Fraction(g[5][0]))
    if kind == "P": return dict(kind="P", tree=["PSET"] + g[1], n1=int(g[2][0]), n2=int(g[3][0]))
    if kind == "M": return dict(kind="M", tree=["MKL", "WSUM", "RBF", "DISC", "LIN"], n1=int(g[3][0]), n2=int(g[4][0]), parts=list(map(int, g[5])), reg=Fraction(0))
    if kind == "T": return dict(kind="T", tree=["MTASK", "GTASK"] + g[1], n1=int(g[3][0]), n2=int(g[3][0]), nt=int(g[0][2]))
    return dict(kind="?", tree=[], n1=0, n2=0)

CLASSES = {"LIN": "LinearKernel", "POLY": "PolynomialKernel", "MONO": "MonomialKernel", "RBF": "GaussianRbfKernel", "ARD": "ARDKernelUnconstrained", "NORM": "NormalizedKernel",
           "SCALED": "ScaledKernel", "WSUM": "WeightedSumKernel", "PROD": "ProductKernel", "SUBR": "SubrangeKernel", "MODEL": "ModelKernel", "DISC": "DiscreteKernel",
           "PSET": "PointSetKernel", "MKL": "MklKernel", "MTASK": "MultiTaskKernel", "GTASK": "GaussianTaskKernel"}
def classes_of(tree): return [t for t in tree if t in CLASSES]

# ------------------------------------------------------------------ spec monitor (on the implementation's output only)
def close(a, b, rel=1e-11, ab=1e-12):
    a = float(a); b = float(b)
    if math.isnan(a) or math.isnan(b) or math.isinf(a) or math.isinf(b): return False
    return abs(a - b) <= ab + rel * max(abs(a), abs(b))

def jacobi_min_eig(m, n):
    a = [[float(m[i * n + j] + m[j * n + i]) / 2 for j in range(n)] for i in range(n)]
    for _ in range(60):
        off = sum(a[i][j] ** 2 for i in range(n) for j in range(n) if i != j)
        if off < 1e-300: break
        for p in range(n):
            for q in range(p + 1, n):
                if abs(a[p][q]) < 1e-300: continue
                th = (a[q][q] - a[p][p]) / (2 * a[p][q])
                t = (1 if th >= 0 else -1) / (abs(th) + math.sqrt(th * th + 1)); c = 1 / math.sqrt(t * t + 1); s = t * c
                for k in range(n):
                    akp, akq = a[k][p], a[k][q]; a[k][p] = c * akp - s * akq; a[k][q] = s * akp + c * akq
                for k in range(n):
                    apk, aqk = a[p][k], a[q][k]; a[p][k] = c * apk - s * aqk; a[q][k] = s * apk + c * aqk
    return min(a[i][i] for i in range(n)) if n else 0.0

def monitor_task(info, d):
    """T cases: the task-kernel table is symmetric, has unit diagonal and no negative eigenvalue - right after construction (TK) and after
    setParameterVector(parameterVector()) round trips (TK2, which must also equal TK: check task-kernel-reinit); MultiTaskKernel is the
    product of input kernel and task kernel, symmetric, batch = single, no negative eigenvalue"""
    bad = []; n = info["n1"]; nt = info["nt"]
    def get(k, m):
        v = d.get(k); return v if v is not None and len(v) == m else None
    TK, TK2, KI, MT, MB, TS = get("TK", nt * nt), get("TK2", nt * nt), get("KI", n * n), get("MT", n * n), get("MB", n * n), get("TS", n)
    if TK is None or MT is None or KI is None or TS is None: return [("exception", "TK", "task-kernel table / multi-task kernel values not printed")]
    def table(check, f, m):
        if any(math.isnan(float(x)) or math.isinf(float(x)) for x in m): bad.append((check if check == "task-kernel-reinit" else "non-finite", f, "%s is not finite" % f)); return
        for i in range(nt):
            if not close(m[i * nt + i], 1): bad.append((check or "normalized-diagonal", f, "%s(%d,%d) = %r, expected 1" % (f, i, i, float(m[i * nt + i])))); return
            for j in range(nt):
                if not close(m[i * nt + j], m[j * nt + i]): bad.append((check or "symmetry", f, "%s(%d,%d) = %r but %s(%d,%d) = %r" % (f, i, j, float(m[i * nt + j]), f, j, i, float(m[j * nt + i])))); return
        e = jacobi_min_eig(m, nt)
        if e < -1e-9 * nt: bad.append((check or "negative-eigenvalue", f, "task-kernel table %s has eigenvalue %.6g" % (f, e)))
    table(None, "TK", TK)
    if TK2 is not None:
        for i, (x, y) in enumerate(zip(TK2, TK)):
            if not close(x, y): bad.append(("task-kernel-reinit", "TK2", "after setParameterVector(parameterVector()) table[%d] = %r, before %r" % (i, float(x), float(y)))); break
        table("task-kernel-reinit", "TK2", TK2)
    ts = [int(t) for t in TS]
    for i in range(n):
        for j in range(n):
            want = float(KI[i * n + j]) * float(TK[ts[i] * nt + ts[j]])
            if not close(MT[i * n + j], want): bad.append(("definition", "MT", "MultiTaskKernel(%d,%d) = %r but input kernel * task kernel = %r" % (i, j, float(MT[i * n + j]), want))); break
            if not close(MT[i * n + j], MT[j * n + i]): bad.append(("symmetry", "MT", "MultiTaskKernel(%d,%d) = %r but (%d,%d) = %r" % (i, j, float(MT[i * n + j]), j, i, float(MT[j * n + i])))); break
        else: continue
        break
    if MB is not None:
        for i, (x, y) in enumerate(zip(MB, MT)):
            if not close(x, y): bad.append(("batch!=single", "MB", "MB[%d] = %r but single = %r" % (i, float(x), float(y)))); break
    if all(abs(float(x)) < 1e100 for x in MT):
        e = jacobi_min_eig(MT, n); tr = max([1.0] + [abs(float(MT[i * n + i])) for i in range(n)]) * n
        if e < -1e-9 * tr: bad.append(("negative-eigenvalue", "MT", "MultiTaskKernel Gram matrix has eigenvalue %.6g" % e))
    return bad

def monitor_line(line, out):
    """returns list of (check, field, message); check names are stable (used in violation keys)"""
    info = case_info(line); d = parse_out(out); bad = []
    n1, n2 = info["n1"], info["n2"]
    if "EXC" in d or "STDEXC" in d or not d: return [("exception", "EXC", "the library threw / produced no output: " + out[:120])]
    if info["kind"] == "T": return monitor_task(info, d)
    def get(k, n=None):
        v = d.get(k)
        if v is None or (n is not None and len(v) != n): return None
        return v
    ex = exact_case(line)    # all intermediate values exactly representable: batch/single/Gram/symmetry must agree bit for bit
    def cmp(check, fa, a, fb, b, rel=1e-11, ab=1e-12):
        if a is None or b is None: return
        if ex and check in ("symmetry", "batch!=single", "gram-assembly", "definition"): rel = ab = 0.0
        for i, (x, y) in enumerate(zip(a, b)):
            if not close(x, y, rel, ab):
                bad.append((check, fa, "%s[%d] = %r but %s = %r" % (fa, i, float(x), fb, float(y)))); return
    F = get("F")
    if F and (get("P") is None or int(F[3]) != len(d["P"])):
        bad.append(("parameter-count", "F", "numberOfParameters() = %r but parameterVector() %s" % (float(F[3]), "could not be produced" if "PERR" in d else "has %d entries" % len(d.get("P") or []))))
    S = get("S", n1 * n2); T = get("T", n1 * n2); SS = get("SS", n1 * n1)
    if S is None: return bad + [("exception", "S", "no single evaluations printed")]
    if any(math.isnan(float(x)) or math.isinf(float(x)) for x in S): return bad + [("non-finite", "S", "kernel value is not finite")]
    # symmetry
    if T: cmp("symmetry", "k(x,z)", S, "k(z,x)", [T[j * n1 + i] for i in range(n1) for j in range(n2)])
    if SS: cmp("symmetry", "k(x_i,x_j)", SS, "k(x_j,x_i)", [SS[j * n1 + i] for i in range(n1) for j in range(n1)])
    # batch = matrix of single evaluations
    for f in ("B", "BS", "SD", "MX"):
        cmp("batch!=single", f, get(f, n1 * n2), "single", S)
    for f in ("B11", "KM", "KR"):
        cmp("batch!=single", f, get(f, n1 * n1), "single", SS)
    if info["kind"] in ("P", "M"): cmp("definition", "S", S, "direct", get("R", n1 * n2))
    D1 = get("D1", n1); D2 = get("D2", n2)
    if F and F[0] and D1 and D2:
        cmp("normalized-diagonal", "k(x,x)", D1 + D2, "1", [1.0] * (n1 + n2))
    if D1 and D2:
        want = [D1[i] - 2 * S[i * n2 + j] + D2[j] for i in range(n1) for j in range(n2)]
        sc = max([1.0] + [abs(float(x)) for x in D1 + D2])
        cmp("feature-distance", "FD", get("FD", n1 * n2), "k(x,x)-2k(x,z)+k(z,z)", want, 1e-10, 1e-11 * sc)
        cmp("feature-distance", "FB", get("FB", n1 * n2), "k(x,x)-2k(x,z)+k(z,z)", want, 1e-10, 1e-11 * sc)
    if SS and "GR" in d:
        reg = d["GR"][0]
        want = [SS[i * n1 + j] + (reg if i == j else 0) for i in range(n1) for j in range(n1)]
        for f in ("G", "G1"): cmp("gram-assembly", f, get(f, n1 * n1), "single evaluations + regulariser", want)
        cmp("gram-assembly", "KF", get("KF", n1 * n1), "single evaluations", SS)
        tr = max([1.0] + [abs(float(SS[i * n1 + i])) for i in range(n1)]) * n1
        for f, m in (("SS", SS), ("G", get("G", n1 * n1))):
            if m and all(abs(float(x)) < 1e100 for x in m):
                e = jacobi_min_eig(m, n1)
                if e < -1e-9 * tr: bad.append(("negative-eigenvalue", f, "Gram matrix %s has eigenvalue %.6g" % (f, e)))
    # derivatives against finite differences of the weighted sum of single evaluations
    def dcmp(check, fa, fb):
        a, b = get(fa), get(fb)
        if a is None or b is None: return
        if len(a) != len(b): bad.append((check, fa, "%s has %d entries, expected %d" % (fa, len(a), len(b)))); return
        sc = max([1.0] + [abs(float(x)) for x in a + b if not math.isnan(float(x))])
        cmp(check, fa, a, fb + " (finite differences)", b, 0, 2e-6 * sc)
    dcmp("input-derivative", "WI", "NI"); dcmp("parameter-derivative", "WP", "NP"); dcmp("parameter-derivative", "KD", "NKD")
    cmp("parameter-derivative-reused-gradient", "WP2", get("WP2"), "first call", get("WP"))
    return bad

# ------------------------------------------------------------------ model vs implementation
PAIRS = [("S", "S"), ("B", "B"), ("BS", "B"), ("SD", "SD"), ("D1", "D1"), ("FD", "FD"), ("FB", "FD"), ("G", "G"), ("G1", "G"), ("MX", "S"), ("KM", None), ("WI", "WI"), ("WP", "WP"), ("WP", "WP1"),
         ("S", "SE"), ("B", "BE"),
         ("MX", "MX"), ("KD", "KD"),
         ("TK", "TK"), ("KI", "KI"), ("MT", "MT"), ("MB", "MT")]   # C05Task.gt_matrix / k_mtask: GaussianTaskKernel table, MultiTaskKernel    # C05Blocks.gram_mixed / kmpd: the block loops of calculateMixedKernelMatrix / calculateKernelMatrixParameterDerivative     # SE/BE: den / bden of the expression as a C05Expr.kexp value (the function the expression theorems are about)
MUST = ("S", "B")
def exact_case(line):
    """every intermediate value of the C++ computation is a small dyadic rational: no sqrt/exp, divisions only by 1, 2, 4"""
    info = case_info(line); tr = info["tree"]
    if info["kind"] == "D": return True
    if info["kind"] in ("M", "T"): return False
    if info["kind"] == "V" and "NORM" in tr: return norm_exact(line)
    if any(c in tr for c in ("NORM", "RBF", "ARD")): return False
    for i, tk in enumerate(tr):
        if tk == "WSUM":
            n = int(tr[i + 1])
            if n not in (1, 2, 4) or any(x != "0" for x in tr[i + 2:i + 1 + n]): return False
        if tk == "SUBR" and int(tr[i + 1]) not in (1, 2, 4): return False
    if info["kind"] == "P":
        g = [x.split() for x in line.split("|")]; dim = int(g[0][1])
        for grp in (g[2], g[3]):
            p = 1
            for _ in range(int(grp[0])):
                s = int(grp[p]); p += 1 + s * dim
                if s not in (1, 2, 4): return False
    return True
def is_dyadic(fr): q = fr.denominator; return q & (q - 1) == 0 and abs(fr.numerator) < (1 << 53)

def compare_line(line, mout, iout, stats):
    m = parse_out(mout); d = parse_out(iout); exact = m.get("_mode") == "Q" and exact_case(line)
    if mout.startswith("ERR") or mout == "?": return ["model driver: " + mout]
    diffs = []
    # which derivatives exist: the model has a coded gradient (WI: wid over g_*, WP: wpdv over p_*) exactly for the classes
    # whose C++ code has one (ProductKernel: none; ModelKernel: parameters only; PolynomialKernel with the degree as
    # parameter is not modelled); the C++ reports it in its feature flags F = normalized,hasParamDeriv,hasInputDeriv,n
    info = case_info(line); F = d.get("F")
    if info["kind"] == "V" and F and len(F) >= 4:
        tr = info["tree"]; degparam = any(tk == "POLY" and tr[i + 3] == "1" for i, tk in enumerate(tr))
        stats["flags"] = stats.get("flags", 0) + 1
        if bool(F[2]) != ("WI" in m):
            diffs.append("hasFirstInputDerivative() = %d but the model %s a coded input gradient for this kernel expression" % (int(F[2]), "has" if "WI" in m else "has no"))
        if bool(F[1]) != ("WP" in m) and not (degparam and "WP" not in m):
            diffs.append("hasFirstParameterDerivative() = %d but the model %s a coded parameter gradient for this kernel expression" % (int(F[1]), "has" if "WP" in m else "has no"))
        if "WP" in m and m["WP"] is not None and int(F[3]) != len(m["WP"]):
            diffs.append("numberOfParameters() = %d but the model's parameter gradient has %d entries" % (int(F[3]), len(m["WP"])))
    for fi, fm in PAIRS:
        if fm is None or fm not in m or m[fm] is None: continue
        a = d.get(fi)
        if fi in ("G1",) and a is not None and fm == "G": pass
        if a is None or len(a) != len(m[fm]):
            if fi in d or fi in MUST: diffs.append("%s: implementation printed %s values, model %d" % (fi, "no" if a is None else len(a), len(m[fm])))
            continue
        for i, (x, y) in enumerate(zip(a, m[fm])):
            if exact and isinstance(y, Fraction) and is_dyadic(y) and not (math.isnan(x) or math.isinf(x)):
                stats["exact"] += 1
                if fi in ("WI", "WP"): stats[fi + "_exact"] = stats.get(fi + "_exact", 0) + 1
                if fm in ("SE", "BE", "MX", "KD", "TK", "MT"): stats["x" + fm + "_exact"] = stats.get("x" + fm + "_exact", 0) + 1
                if Fraction(x) != y: diffs.append("%s[%d]: implementation %r, model %s (exact)" % (fi, i, x, y)); break
            else:
                stats["tol"] += 1
                if fi in ("WI", "WP"): stats[fi + "_tol"] = stats.get(fi + "_tol", 0) + 1
                if fm in ("SE", "BE", "MX", "KD", "TK", "MT"): stats["x" + fm + "_tol"] = stats.get("x" + fm + "_tol", 0) + 1
                if not close(x, y, 1e-11, 1e-12): diffs.append("%s[%d]: implementation %r, model %r" % (fi, i, float(x), float(y))); break
    return diffs

# ------------------------------------------------------------------ shrinking a failing case (same check must keep failing)
def subtrees(tree):
    """proper sub-expressions with the same input dimension (not below SUBR / MODEL)"""
    res = []
    def walk(p, top):
        t = tree[p]; start = p
        if t == "LIN": p += 1
        elif t == "POLY": p += 5
        elif t == "MONO": p += 2
        elif t == "RBF": p += 3
        elif t == "ARD":
            p += 1
            while p < len(tree) and tree[p] not in CLASSES: p += 1
        elif t == "NORM": p = walk(p + 1, False)
        elif t == "SCALED": p = walk(p + 2, False)
        elif t in ("WSUM", "PROD"):
            n = int(tree[p + 1]); p += 2 + (n - 1 if t == "WSUM" else 0)
            for _ in range(n): p = walk(p, False)
        elif t in ("SUBR", "MODEL"): return None
        if p is None: return None
        if not top: res.append(tree[start:p])
        return p
    try: walk(0, True)
    except Exception: pass
    return res

def shrink_case(line, check, impl):
    info = case_info(line)
    if info["kind"] != "V": return line
    g = [x.split() for x in line.split("|")]
    dim = info["dim"]
    def build(tree, x1, x2, c, parts, reg): return mk_vector(info["sub"], dim, tree, x1, x2, c, parts, reg)
    def unpack(l):
        g = [x.split() for x in l.split("|")]; n1 = int(g[2][0]); n2 = int(g[3][0])
        x1 = [g[2][1 + i * dim:1 + (i + 1) * dim] for i in range(n1)]; x2 = [g[3][1 + i * dim:1 + (i + 1) * dim] for i in range(n2)]
        c = [g[4][i * n2:(i + 1) * n2] for i in range(n1)]
        return g[1], x1, x2, c, list(map(int, g[5])), g[6][0]
    cur = line
    for _ in range(14):
        tree, x1, x2, c, parts, reg = unpack(cur); cands = []
        for st in subtrees(tree): cands.append(build(st, x1, x2, [v for r in c for v in r], parts, reg))
        for i in range(len(x1)):
            if len(x1) > 1:
                nx = x1[:i] + x1[i + 1:]; nc = c[:i] + c[i + 1:]
                cands.append(build(tree, nx, x2, [v for r in nc for v in r], [len(nx)], reg))
                if len(nx) > 1: cands.append(build(tree, nx, x2, [v for r in nc for v in r], [1, len(nx) - 1], reg))
        for j in range(len(x2)):
            if len(x2) > 1:
                nx = x2[:j] + x2[j + 1:]; nc = [r[:j] + r[j + 1:] for r in c]
                cands.append(build(tree, x1, nx, [v for r in nc for v in r], parts, reg))
        if reg != "0": cands.append(build(tree, x1, x2, [v for r in c for v in r], parts, "0"))
        if not cands: break
        outs = run_cases(impl, [[x] for x in cands], os.path.join(BUILD, "tmp", PID, "shrink.txt"), env={"OMP_NUM_THREADS": "1", "OPENBLAS_NUM_THREADS": "1"})
        nxt = None
        for cand, (o, rc, _) in zip(cands, outs):
            ms = [("exception", "", "crash")] if rc != 0 or not o else monitor_line(cand, o[0])
            if any(m[0] == check for m in ms): nxt = cand; break
        if nxt is None: break
        cur = nxt
    return cur

# ------------------------------------------------------------------ main
def load_cases(ck, gens):
    if ck.replay:
        return [l for l in open(ck.replay).read().split("\n") if l.strip() and not l.startswith("#")]
    cases = []
    cdir = os.path.join(ROOT, "corpus", PID)
    if os.path.isdir(cdir):
        for f in sorted(os.listdir(cdir)):
            cases += [l for l in open(os.path.join(cdir, f)).read().split("\n") if l.strip() and not l.startswith("#")]
    for gen, n in gens:
        for _ in range(n): cases.append(gen())
    return cases

def main():
    ck = Check(PID)
    for f in ([] if ck.replay else os.listdir(ck.replay_dir)):          # replays of earlier runs would be mistaken for results of this one
        if f.startswith(("viol_", "case_")): os.remove(os.path.join(ck.replay_dir, f))
    ck.trusted = DEFAULT_TRUSTED + ["Coq standard library Reals (axioms ClassicalDedekindReals.sig_forall_dec, ClassicalDedekindReals.sig_not_dec, FunctionalExtensionality.functional_extensionality_dep) for the theorems over R; no other axiom",
                                    "the OCaml driver parses the kernel expression and composes the extracted combinators (no arithmetic of its own); exact runs use Coq's extracted Qc operations, float runs OCaml doubles with libm sqrt/exp",
                                    "finite differences (five-point stencil, h = 2^-10) inside the harness are built from the kernels' own single evaluations"]
    ck.assumptions = ["inputs of one kernel call have equal dimension; PolynomialKernel offset >= 0, ScaledKernel factor > 0, WeightedSumKernel weights exp(.) > 0, DiscreteKernel table symmetric positive semi-definite (generated as A*A^T)",
                      "NormalizedKernel: base kernel value k(x,x) > 0 on every generated point",
                      "GaussianTaskKernel/MultiTaskKernel (T cases): the model's table is computeMatrix() on a cleared matrix, summation order of the mean embeddings differs from the C++ loop (compared at 1e-11); setGamma()/setWidth() (no recomputation of the table) are not exercised",
                      "the theorems stated over Coq's real numbers (C05_real_ordered_field_instance, C05_psd_exponentiated_inner_product, C05_psd_gaussian, C05_psd_gaussian_quadratic_forms, C05_psd_ard, C05_limit_features_*, "
                      "C05_limit_closure_*, C05_psd_expression, C05_psd_expression_point_set, C05_psd_gaussian_task_kernel, C05_psd_multi_task_kernel, C05_psd_multi_task_kernel_expression) instantiate the model with "
                      "A := R, expA := exp and rest on the standard-library axioms behind R and exp only: ClassicalDedekindReals.sig_forall_dec, ClassicalDedekindReals.sig_not_dec, "
                      "FunctionalExtensionality.functional_extensionality_dep (listed per theorem in the obligations); all other theorems are axiom-free and hold in every ordered field",
                      "positive semi-definiteness over R says nothing about rounding: the floating-point Gram matrices of Gaussian/ARD (and composed) kernels are additionally monitored by eigenvalues (tolerance 1e-9 * trace)"]
    ck.proofs()
    model = extract_model(PID, "C05Extract.v", "c05_driver.ml")
    impl, err = cxx_build("c05_kernels", [os.path.join(ROOT, "harness", "c05_kernels.cpp")])
    if impl is None:
        ck.oblige("harness builds against /repo", False, err); ck.finish()
    tmpd = os.path.join(BUILD, "tmp", PID); os.makedirs(tmpd, exist_ok=True)
    big = ck.tier == "thorough"; rng = ck.rng; f = 12 if big else 1
    cases = load_cases(ck, [(lambda: gen_vector(rng, False, big), 700 * f), (lambda: gen_vector(rng, True, big), 150 * f), (lambda: gen_norm_exact(rng), 60 * f),
                            (lambda: gen_discrete(rng), 60 * f), (lambda: gen_pointset(rng), 60 * f), (lambda: gen_mkl(rng), 60 * f),
                            (lambda: gen_task(rng), 60 * f)])
    log("[C05] %d cases generated, proofs+builds took %.1fs" % (len(cases), time.time() - ck.t0))
    io = run_cases(impl, [[c] for c in cases], os.path.join(tmpd, "impl_in.txt"), env={"OMP_NUM_THREADS": "2", "OPENBLAS_NUM_THREADS": "1"})
    mo = run_cases(model, [[c] for c in cases], os.path.join(tmpd, "model_in.txt"))
    log("[C05] model and implementation ran, %.1fs" % (time.time() - ck.t0))
    stats = {"exact": 0, "tol": 0}; mon = {}; dis = []; nmon = 0; qmode = 0; checks_run = 0
    for ci, c in enumerate(cases):
        (b, rcb, eb), (a, rca, ea) = io[ci], mo[ci]
        if rca != 0 or not a: raise RuntimeError("model driver failed on case %d: %s\n%s" % (ci, ea, c))
        if a[0].startswith("Q"): qmode += 1
        if rcb != 0 or not b: msgs = [("crash", "", "implementation crashed/stopped (rc=%s) %s" % (rcb, eb.strip()[-200:]))]
        else: msgs = monitor_line(c, b[0])
        if msgs:
            nmon += 1
            for chk, fld, msg in msgs:
                mon.setdefault(chk, []).append((case_info(c)["kind"] != "V", len(c), ci, msg, fld))
        # failures that do not touch the compared values (parameter bookkeeping) do not excuse a disagreement
        if all(m[0] in ("parameter-count", "parameter-derivative-reused-gradient") for m in msgs):
            diffs = compare_line(c, a[0], b[0], stats)
            if diffs: dis.append((ci, diffs))
    log("[C05] monitor+comparison done, %.1fs" % (time.time() - ck.t0))
    # per check: report the smallest failing case (shrunk); cases whose kernel expression contains all classes of an
    # already reported culprit count as explained by it; repeat with the rest (distinct culprits get distinct reports)
    kinds = {}
    for chk in sorted(mon):
        rest = sorted(mon[chk]); nrep = 0
        while rest and nrep < 4:
            _, _, ci, msg, fld = rest[0]
            small = shrink_case(cases[ci], chk, impl) if chk not in ("crash",) else cases[ci]
            so = run_cases(impl, [[small]], os.path.join(tmpd, "s_impl.txt"))[0]; sm = run_cases(model, [[small]], os.path.join(tmpd, "s_model.txt"))[0]
            m2 = [m for m in (monitor_line(small, so[0][0]) if so[0] else []) if m[0] == chk]
            if not m2: small = cases[ci]; m2 = [(chk, fld, msg)]; so = io[ci]; sm = mo[ci]
            inf = case_info(small); cl = classes_of(inf["tree"]); cls = ">".join(CLASSES[t] for t in cl)
            flds = ",".join(sorted(set(m[1] for m in m2)))
            root = cl[1] if cl and cl[0] == "PSET" and len(cl) > 1 and chk != "parameter-derivative-reused-gradient" else cl[0] if cl else "?"
            expl = [r for r in rest if root in classes_of(case_info(cases[r[2]])["tree"])] or [rest[0]]
            rest = [r for r in rest if r not in expl]
            key = "%s:%s:%s:%s n1=%d n2=%d" % (chk, flds, cls, inf.get("sub", inf["kind"]), inf["n1"], inf["n2"])
            cf = ck.write_replay("case_%s_%d.txt" % (re.sub(r"[^a-z]", "", chk), nrep), small + "\n")
            ck.violation(key, {"case_file": cf, "case": small, "implementation_output": so[0], "model_output": sm[0], "monitor": [m[2] for m in m2],
                               "failing_cases_of_this_kind": len(set(r[2] for r in expl)), "replay_cmd": "python3 tools/c05.py --replay %s" % cf},
                         "spec monitor fails on the implementation [%s] (%s, %d cases): %s" % (chk, cls, len(set(r[2] for r in expl)), "; ".join(m[2] for m in m2[:3])))
            kinds[chk + ":" + cls] = len(set(r[2] for r in expl)); nrep += 1
    if dis:
        ci, diffs = dis[0]
        cf = ck.write_replay("case_correspondence.txt", cases[ci] + "\n")
        ck.violation("correspondence", {"case_file": cf, "case": cases[ci], "model_output": mo[ci][0], "implementation_output": io[ci][0], "differences": diffs,
                                        "broken": "correspondence C05Model vs shark kernels"},
                     "correspondence C05Model vs shark kernels no longer checks (outputs differ on %d cases without a monitor failure): %s" % (len(dis), diffs[0]), no_input=True)
    ck.oblige("correspondence C05Model = shark kernels on %d cases (%d numbers compared exactly, %d within 1e-11)" % (len(cases), stats["exact"], stats["tol"]), not dis and not mon,
              "" if not (mon or dis) else "%d cases with monitor failures (%d kinds), %d disagreements" % (nmon, len(mon), len(dis)))
    ck.oblige("spec monitor (symmetry, batch=single, normalised diagonal, feature distance, Gram assembly, eigenvalues, derivatives vs finite differences) on %d cases" % len(cases), not mon,
              "; ".join("%s x%d" % kv for kv in sorted(kinds.items()))[:900])
    infos = [case_info(c) for c in cases]
    nontriv = set(c for c, i in zip(cases, infos) if i["n1"] >= 2 and i["n2"] >= 2 and (len(classes_of(i["tree"])) >= 2 or i["kind"] != "V"))
    ck.cov["evaluations"] = len(cases)
    ck.cov["distinct_nontrivial"] = len(nontriv)
    ck.cov["rule"] = ("random kernel expressions (depth <= 3 over Linear, Polynomial, Monomial, GaussianRbf, ARD, Normalized, Scaled, WeightedSum, Product, Subrange, Model(LinearModel); dense and sparse inputs; "
                      "DiscreteKernel, PointSetKernel, MklKernel, GaussianTaskKernel/MultiTaskKernel cases) on 1..5 x 1..4 points of dimension 1..4 with small integer/dyadic coordinates incl. duplicates, axis vectors, zero vectors, random batch partitions and regularisers; "
                      "non-trivial = at least 2 points on both sides and a composed kernel (or a non-vector kernel); distinct = distinct case strings")
    ck.cov["samples"] = cases[:2] + cases[-1:]
    cls_count = {}
    for i in infos:
        for t in set(classes_of(i["tree"])): cls_count[CLASSES[t]] = cls_count.get(CLASSES[t], 0) + 1
    ck.notes["cases_per_kernel_class"] = cls_count
    ck.notes["cases_run_with_exact_rationals"] = qmode
    ck.notes["numbers_compared_exactly"] = stats["exact"]; ck.notes["numbers_compared_with_tolerance"] = stats["tol"]
    ck.notes["derivative_numbers_compared"] = {k: v for k, v in stats.items() if k.startswith(("WI", "WP"))}
    ck.notes["cases_with_derivative_flags_compared"] = stats.get("flags", 0)
    # SE/BE: C05Expr.den/bden vs eval single/batch; MX: C05Blocks.gram_mixed vs calculateMixedKernelMatrix; KD: C05Blocks.kmpd vs calculateKernelMatrixParameterDerivative
    ck.notes["expression_and_block_routine_numbers_compared"] = {k[1:]: v for k, v in stats.items() if k.startswith("x")}
    ck.notes["not_instantiable"] = "ARDKernelUnconstrained<CompressedRealVector> and NormalizedKernel<CompressedRealVector> (typedefs CompressedARDKernel, CompressedNormalizedKernel) do not compile in this tree; sparse cases use Linear, Polynomial, Monomial, GaussianRbf, Scaled, WeightedSum, Product"
    ck.finish(explanation="Coq theorems over C05Model (axiom-free for any ordered field; positive semi-definiteness of Gaussian/ARD and kernels composed from them over Coq's real numbers with the standard real-number axioms) + exact/1e-11 correspondence of the extracted model with the compiled kernels + independent monitor on every anchored kernel class")

if __name__ == "__main__":
    main()
