#!/bin/sh
# usage: tools/thoroughsweep.sh [ids...]  — runs every thorough command once (from a snapshot via `vp run`), reports exit codes
cd "$(dirname "$0")/.."
ids=${*:-"C01 C02 C03 C04 C05 C06 C07 C08 C09 C10 C11 C12 C13 C14 C15 C16 C17 C18 C19 C20"}
mkdir -p build/sweep
for id in $ids; do
  cmd=$(python3 -c "import json;print([c['thorough_cmd'] for c in json.load(open('MANIFEST.json'))['checks'] if c['property_id']=='$id'][0])")
  echo "$id $cmd"
done | xargs -P ${SWEEP_PAR:-2} -L 1 sh -c 'id=$0; t0=$(date +%s); "$@" > build/sweep/$id.thorough.log 2>&1; rc=$?; echo "$id thorough rc=$rc wall=$(( $(date +%s)-t0 )) $(grep -c VIOLATION build/sweep/$id.thorough.log) violations"'
