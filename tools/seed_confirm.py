#!/usr/bin/env python3
"""Confirm a seeded change: demo passes at HEAD and fails with the patch; store it under /verif/seeded/<id>/.
usage: seed_confirm.py <worktree> <outdir> <seed-id> <property> <check command ...>"""
import json, os, re, shutil, subprocess, sys
wt, out, sid, prop = sys.argv[1:5]; check = sys.argv[5:]
def sh(c, **k): return subprocess.run(c, shell=isinstance(c, str), capture_output=True, text=True, **k)
src = open(os.path.join(out, "demo.cpp")).read()
# compile command from the leading comment
lines = src.split("\n"); cmd = ""
for i, l in enumerate(lines):
    if "g++" in l and l.lstrip().startswith("//"):
        j = i; parts = []
        while True:
            t = lines[j].lstrip()[2:].strip(); cont = t.endswith("\\"); parts.append(t.rstrip("\\").strip())
            if not cont: break
            j += 1
        cmd = " ".join(parts); break
cmd = cmd[cmd.index("g++"):]
cmd = re.sub(r"\s-o\s+\S+", " ", cmd) + " -o /tmp/seed_demo_%s" % sid
res = {}
for state in ("head", "patched"):
    sh(["git", "-C", wt, "checkout", "-q", "--", "."])
    if state == "patched":
        r = sh(["git", "-C", wt, "apply", os.path.join(out, "patch.diff")]); assert r.returncode == 0, r.stderr
    r = sh(cmd, cwd=out)
    if r.returncode != 0: print("demo compile failed", r.stderr[-2000:]); sys.exit(2)
    r = sh(["/tmp/seed_demo_%s" % sid], timeout=600)
    res[state] = (r.returncode, (r.stdout.strip().split("\n") or [""])[-1][:200])
    if state == "patched":
        env = dict(os.environ, VERIF_REPO=wt)
        c = subprocess.run(check, capture_output=True, text=True, env=env, cwd=os.environ.get("SEED_VERIF", "/verif"))
        res["check_rc"] = c.returncode
        res["check_lines"] = [l[:300] for l in (c.stdout + c.stderr).split("\n") if "VIOLATION" in l or l.strip().startswith("->") or "KNOWN-FINDING" in l][:8]
sh(["git", "-C", wt, "checkout", "-q", "--", "."])
ok = res["head"][0] == 0 and res["patched"][0] != 0
print(json.dumps(res, indent=1))
if not ok: print("NOT CONFIRMED"); sys.exit(1)
dst = os.path.join("/verif/seeded", sid); os.makedirs(dst, exist_ok=True)
shutil.copy(os.path.join(out, "patch.diff"), dst); shutil.copy(os.path.join(out, "demo.cpp"), dst)
meta = json.load(open(os.path.join(out, "meta.json")))
meta.update({"id": sid, "property": prop, "confirmed": {"demo_at_HEAD": res["head"], "demo_with_patch": res["patched"],
             "how": "tools/seed_confirm.py: demo compiled and run in the scratch worktree at HEAD and with patch.diff applied"},
             "check_run": {"cmd": "VERIF_REPO=<worktree with patch> " + " ".join(check), "exit": res["check_rc"], "output": res["check_lines"]},
             "caught": res["check_rc"] == 1 and any("VIOLATION" in l for l in res["check_lines"])})
json.dump(meta, open(os.path.join(dst, "meta.json"), "w"), indent=1)
print("stored", dst, "caught =", meta["caught"])
